#!/usr/bin/env python3
"""seed_matrix.py [--update]: applies every /verif/seeded/*/patch.diff to /repo in turn
(under /tmp/repo.lock), runs every claimed check (quick tier, no evidence written) and
records which properties report a VIOLATION.  With --update rewrites meta.json
'detected_by' and prints a markdown table for DESIGN.md."""
import fcntl
import glob
import json
import os
import subprocess
import sys
from concurrent.futures import ThreadPoolExecutor

HERE = os.path.dirname(os.path.dirname(os.path.abspath(__file__)))


def sh(*a, **k):
    return subprocess.run(a, capture_output=True, text=True, **k)


def main():
    update = '--update' in sys.argv
    only = [a for a in sys.argv[1:] if not a.startswith('--')]
    REPO = os.environ.get('VERIF_REPO', '/repo')
    if REPO == '/repo':
        lock = open('/tmp/repo.lock', 'w')
        fcntl.flock(lock, fcntl.LOCK_EX)
    if sh('git', '-C', REPO, 'status', '--porcelain', '--untracked-files=no').stdout.strip():
        sys.exit('refusing: %s has uncommitted changes' % REPO)
    man = json.load(open(os.path.join(HERE, 'MANIFEST.json')))
    props = [c['property_id'] for c in man['checks']]
    env = dict(os.environ, VERIF_NO_EVIDENCE='1')
    rows = []
    for d in sorted(glob.glob(os.path.join(HERE, 'seeded', '*'))):
        mp = os.path.join(d, 'meta.json')
        if not os.path.exists(mp):
            continue
        sid = os.path.basename(d)
        if only and not any(o in sid for o in only):
            continue
        meta = json.load(open(mp))
        a = sh('git', '-C', REPO, 'apply', '--whitespace=nowarn', os.path.join(d, 'patch.diff'))
        if a.returncode != 0:
            rows.append((sid, meta['property'], ['PATCH-DOES-NOT-APPLY'], []))
            continue
        try:
            def run(p):
                r = sh(os.path.join(HERE, 'check'), p, env=env)
                import re
                rules = sorted({m.group(1) for l in r.stdout.split('\n')
                                for m in [re.match(r'^  (C\d+\.\w+) \S+:\S+ in ', l)] if m})
                return p, r.returncode, rules
            with ThreadPoolExecutor(max_workers=6) as ex:
                res = list(ex.map(run, props))
        finally:
            sh('git', '-C', REPO, 'checkout', '--', '.')
        det = [p for p, rc, rules in res if rc == 1]
        rules = sorted({x for p, rc, rl in res if rc == 1 for x in rl})
        broken = [p for p, rc, rules in res if rc == 2]
        rows.append((sid, meta['property'], det, rules + ['(exit2:%s)' % ','.join(broken)] if broken else rules))
        if update:
            meta['detected_by'] = det
            meta['detecting_rules'] = rules
            json.dump(meta, open(mp, 'w'), indent=1)
    print('| seeded change | property | detected by | rules |')
    print('|---|---|---|---|')
    for sid, prop, det, rules in rows:
        print('| %s | %s | %s | %s |' % (sid, prop, ', '.join(det) or '**missed**', ', '.join(rules)))
    missed = [r for r in rows if not r[2]]
    print('\n%d seeded changes, %d detected, %d missed' % (len(rows), len(rows) - len(missed), len(missed)))


if __name__ == '__main__':
    main()
