#!/bin/sh
# withpatch.sh PATCH CMD...: apply PATCH to /repo under the repo lock, run CMD, revert.
P=$1; shift
exec flock /tmp/repo.lock sh -c 'git -C /repo apply --whitespace=nowarn "$0" || exit 3; "$@"; rc=$?; git -C /repo checkout -- .; exit $rc' "$P" "$@"
