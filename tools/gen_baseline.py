#!/usr/bin/env python3
"""gen_baseline.py: records, per source file, the names of the functions defined in the
reference tree (all configuration variants) in engine/baseline_functions.json.  Static
functions that are NOT in this list are treated as transparent helpers by the engine
(spliced into their callers' CFGs).  Run on a clean checkout only, when /repo's own HEAD
legitimately changes (e.g. after a fix: commit)."""
import json
import os
import sys
sys.path.insert(0, os.path.dirname(os.path.dirname(os.path.abspath(__file__))))
os.environ['VERIF_NO_INLINE'] = '1'
from engine import facts  # noqa
from engine import generic  # noqa

out = {}
locs = {}
cmps = {}
kargs = {}
argb = {}
prof = {}
for v in ('A', 'B', 'C', 'D'):
    prog = facts.load(None, v)
    for f in prog.funcs.values():
        out.setdefault(f.file, set()).add(f.name)
        if f.file.startswith('dbus/') or f.file.startswith('bus/'):
            cp = generic.comparison_profile(f)
            if cp:
                cmps.setdefault(v, {}).setdefault(f.file, {})[f.name] = {k: {cl: len(ls) for cl, ls in c.items()} for k, c in cp.items()}
            ka = generic.constant_args_profile(f)
            if ka:
                kargs.setdefault(v, {}).setdefault(f.file, {})[f.name] = ka
            pr = {'R': generic.stored_constants_profile(f), 'O': generic.offsets_profile(f)}
            if any(b.get('case') for b in f.blocks.values()):
                pr['F'] = generic.fallthrough_profile(f)
                pr['P'] = generic.case_partition(f)
            cv = generic.callee_profile(f)
            ct = generic.condition_tables(f)
            if ct:
                pr['T'] = ct
                pr['Tc'] = generic.condition_leaf_counts(f)
            if cv:
                pr['V'] = cv
                pr['Vs'] = generic.callee_sequence(f)
            wf = generic.fields_written(f)
            if wf:
                pr['Wf'] = wf
            if pr['R'] or pr['O'] or 'F' in pr or ct or cv or wf:
                prof.setdefault(v, {}).setdefault(f.file, {})[f.name] = pr
            ab = generic.argument_bindings(f, prog)
            if ab:
                ab['#params'] = [p['name'] for p in f.params]
                argb.setdefault(v, {}).setdefault(f.file, {})[f.name] = ab
        names = locs.setdefault(f.file, {}).setdefault(f.name, set())
        names.update(p['name'] for p in f.params)
        for b, i, ev in f.events():
            if ev['ev'] == 'decl':
                names.add(ev['var']['name'])
json.dump({k: {fn: sorted(ns) for fn, ns in sorted(v.items())} for k, v in sorted(locs.items())},
          open(os.path.join(facts.VERIF, 'engine', 'baseline_locals.json'), 'w'), indent=0)
json.dump(cmps, open(os.path.join(facts.VERIF, 'engine', 'baseline_comparisons.json'), 'w'), indent=0, sort_keys=True)
json.dump(kargs, open(os.path.join(facts.VERIF, 'engine', 'baseline_constargs.json'), 'w'), indent=0, sort_keys=True)
prof['#functions'] = sorted({f.name for f in prog.funcs.values()})
json.dump(prof, open(os.path.join(facts.VERIF, 'engine', 'baseline_profiles.json'), 'w'), indent=0, sort_keys=True)
json.dump(argb, open(os.path.join(facts.VERIF, 'engine', 'baseline_argbind.json'), 'w'), indent=0, sort_keys=True)
path = os.path.join(facts.VERIF, 'engine', 'baseline_functions.json')
json.dump({k: sorted(v) for k, v in sorted(out.items())}, open(path, 'w'), indent=0)
print('%d files, %d functions -> %s' % (len(out), sum(len(v) for v in out.values()), path))
