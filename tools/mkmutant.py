#!/usr/bin/env python3
"""mkmutant.py NAME PROPERTY EXPECT-RULE FILE  (reads OLD\n=====\nNEW from stdin)
Creates /verif/mutants/NAME.patch: a realistic edit of /repo used to validate
the checker (selftest applies it, expects the check to exit 1 naming EXPECT-RULE,
and reverts it)."""
import subprocess
import sys
import os

import fcntl
_lock = open('/tmp/repo.lock', 'w')
fcntl.flock(_lock, fcntl.LOCK_EX)      # nobody else may be patching /repo meanwhile
name, prop, expect, path = sys.argv[1:5]
old, new = sys.stdin.read().split('\n=====\n')
new = new.rstrip('\n')
old = old.rstrip('\n')
full = os.path.join('/repo', path)
src = open(full).read()
if src.count(old) != 1:
    sys.exit('old text occurs %d times in %s' % (src.count(old), path))
open(full, 'w').write(src.replace(old, new))
try:
    diff = subprocess.run(['git', '-C', '/repo', 'diff', '--', path], capture_output=True, text=True).stdout
finally:
    subprocess.run(['git', '-C', '/repo', 'checkout', '--', path], check=True)
out = os.path.join(os.path.dirname(os.path.dirname(os.path.abspath(__file__))), 'mutants', name + '.patch')
with open(out, 'w') as fh:
    fh.write('# property: %s\n# expect: %s\n' % (prop, expect))
    fh.write(diff)
print('wrote', out)
