#!/usr/bin/env python3
"""seed_table.py: markdown table of /verif/seeded (from meta.json + STRENGTHENED.json) for DESIGN.md section 10.5."""
import glob
import json
import os
HERE = os.path.dirname(os.path.dirname(os.path.abspath(__file__)))
st = json.load(open(os.path.join(HERE, 'seeded', 'STRENGTHENED.json')))
import sys
lines = ['| seeded change | breaks | detected by (rules) | history |', '|---|---|---|---|']
n = miss = 0
for d in sorted(glob.glob(os.path.join(HERE, 'seeded', '*', 'meta.json'))):
    m = json.load(open(d))
    sid = os.path.basename(os.path.dirname(d))
    n += 1
    det = ', '.join(m.get('detecting_rules') or []) or ', '.join(m.get('detected_by') or []) or '**missed**'
    if not (m.get('detected_by')):
        miss += 1
    lines.append('| %s | %s | %s | %s |' % (sid, m.get('property'), det, st.get(sid, 'caught by the rules as they stood')))
lines.append('')
lines.append('%d seeded changes, %d detected by the current checks.' % (n, n - miss))
if '--inject' in sys.argv:
    p = os.path.join(HERE, 'DESIGN.md')
    t = open(p).read()
    a = t.index('<!-- SEED-TABLE-BEGIN -->') + len('<!-- SEED-TABLE-BEGIN -->')
    b = t.index('<!-- SEED-TABLE-END -->')
    open(p, 'w').write(t[:a] + '\n' + '\n'.join(lines) + '\n' + t[b:])
else:
    print('\n'.join(lines))
