#!/usr/bin/env python3
"""Regenerates /verif/MANIFEST.json from the claim table below (single source
of truth).  Run after adding or withdrawing a property check."""
import json
import os

HERE = os.path.dirname(os.path.dirname(os.path.abspath(__file__)))

NOT_DECIDED_COMMON = ('A pass means the named structural clauses hold on every CFG path of the current '
                      'source in the configurations covered; it is not a proof of the behavioural property. ')

CLAIMS = {
    'C03': {
        'technique': 'static analysis: must-pass-through dataflow on clang CFGs (success edges), '
                     'who-may-call/write scans over the resolved call graph, path-sensitive typestate, '
                     'interprocedural message-provenance worklist',
        'text': 'Decides, on every path of bus_dispatch and of every production caller of the send family, '
                'that a routed message was stripped of unknown/container fields and stamped with the '
                'connection\'s own name (or is bus-created and stamped org.freedesktop.DBus), and that unique '
                'names are minted in one place from forward-only counters. All paths, incl. every OOM edge.',
        'note': NOT_DECIDED_COMMON + 'Not decided: that _dbus_message_remove_unknown_fields removes every '
                'unknown field for every byte layout; uniqueness across INT_MAX*INT_MAX wrap-around. Trusted: '
                'clang 14 AST/CFG, the dbusfacts extractor, the rule tables in rules/C03.py.',
        'design': 'DESIGN.md section 3, C03',
    },
    'C13': {
        'technique': 'static analysis: path-sensitive must-pass-through of the `count >= limit` comparison '
                     '(operator, operand order and limit getter checked on the expression tree), counter/list '
                     'coupling per basic block, who-writes scans, call-graph reachability of release paths',
        'text': 'Decides that each of the six limited mutators (AddMatch, RequestName, pending replies, Hello: '
                'completed and per-user, accept: incomplete) is reachable only after `count >= limit` against its '
                'own configured limit was refuted, that the exceeded edge sets LimitsExceeded and mutates nothing, '
                'that every counter moves by one exactly where its list gains/loses an element, and that the '
                'maximum message size reaches every accepted connection. Covers every path incl. error edges.',
        'note': NOT_DECIDED_COMMON + 'Not decided: histories (that freed capacity is reusable under every '
                'interleaving), arithmetic inside adjust_connections_for_uid. Trusted: clang 14 AST/CFG, extractor, '
                'rule tables in rules/C13.py.',
        'design': 'DESIGN.md section 3, C13',
    },
    'C18': {
        'technique': 'static analysis: must-pass-through dataflow (capture before every verdict), path-sensitive '
                     'typestate on flag tests and exits, table/initialiser inspection, who-may-call/write scans',
        'text': 'Decides that every verdict site in bus_dispatch is preceded by a successful capture of the same '
                'message (with the recipient it is then routed to), refusals are captured as error replies, a '
                'sending monitor is closed before any routing sink, BecomeMonitor is privileged and the flag is '
                'enforced before the indirect handler call, and be_monitor does fallible steps first and then '
                'drops rules, replies and names. All CFG paths incl. OOM edges.',
        'note': NOT_DECIDED_COMMON + 'Not decided: exactly-one-copy over histories; equivalence of what other '
                'clients observe with and without a monitor; monitor match-rule evaluation (C07).',
        'design': 'DESIGN.md section 3, C18',
    },
    'C05': {
        'technique': 'static analysis: path-sensitive typestate (recipient origin, stale-pointer use), '
                     'must-pass-through dataflow (gate, fd capability, stamps), loop membership via back edges, '
                     'queue-polarity table over all list operations on each queue field',
        'text': 'Decides that the recipient routed to is NULL or the primary owner (list head) of the service '
                'looked up from the re-fetched destination; that there is exactly one staging to the addressee, '
                'outside loops, behind the policy gate and fd-capability test; that the addressee is stamped and a '
                'broadcast recipient is appended only on the fresh-stamp edge of a matching rule; that no routing '
                'sink follows a set error and error replies answer the original serial; and that all five message '
                'queues are filled at one end and drained from the other.',
        'note': NOT_DECIDED_COMMON + 'Not decided: delivery under races with ownership change; integrity of body '
                'and other fields in transit (C12); match evaluation (C07).',
        'design': 'DESIGN.md section 3, C05',
    },
    'C09': {
        'technique': 'static analysis: path-sensitive typestate over the policy gate and the pending-reply '
                     'functions (condition atoms remembered per path), must-pass-through dataflow, '
                     'who-may-call scans, acquire/undo pairing on failure exits',
        'text': 'Decides that a reply slot is opened only by the gate, as its last step, for an addressed '
                'METHOD_CALL with non-NULL sender/addressee equal to the proposed recipient after both policy '
                'checks passed, never for a no-reply call or as a duplicate; that a reply consumes a slot only '
                'when serial, receiver and sender all matched, under an undo hook, and that this verdict feeds '
                'both policy checks; that expiry/disconnect stage exactly one NoReply and release the slot on the '
                'same path; and that no failure exit leaves a half-open slot.',
        'note': NOT_DECIDED_COMMON + 'Not decided: timing of expiry; whether a given configuration denies '
                'unrequested replies (C06); serial reuse across 32-bit wrap-around.',
        'design': 'DESIGN.md section 3, C09',
    },
    'C06': {
        'technique': 'static analysis: scan-shape typestate of the evaluators, context-order typestate, '
                     'attribute-coverage tables (parser / record / evaluator / optimiser), exhaustive '
                     'enumeration of the extracted boolean skip logic against the documented table and of the '
                     'optimiser predicate against the evaluator, must-pass-through of the policy gate',
        'text': 'Decides the last-match-wins/default-deny shape of the three evaluators, the context order '
                'default/group/user/console/mandatory, that every rule attribute is parsed, evaluated and '
                'respected by the optimiser (whose catch-all predicate is enumerated against the evaluator\'s own '
                'skip logic), that the reply/eavesdrop skip logic of both evaluators equals the documented table '
                '(2^5 x 2 assignments), and that no staging site, nor activation, bypasses the gate, which consults '
                'the sender\'s send rules and the recipient\'s receive rules.',
        'note': NOT_DECIDED_COMMON + 'Not decided: string matching of attribute values, registry-dependent '
                'destination/sender matching, broadcast/fd-range value semantics beyond coverage. The documented '
                'table in rules/C06.py (spec_reply) is transcribed from doc/dbus-daemon.1.xml.in.',
        'design': 'DESIGN.md section 3, C06',
    },
    'C08': {
        'technique': 'static analysis: switch-partition extraction of the server state machine compared with the '
                     'specification table (all commands x states), who-may-transition scans, must-pass-through '
                     'of each mechanism\'s proof before send_ok, typestate on rejection and buffering, table checks',
        'text': 'Decides that the server\'s (state, command) -> action table equals the specification\'s server '
                'state diagrams (30 rows, exhaustive), that "authenticated" is reachable only via BEGIN after send_ok, '
                'that each mechanism calls send_ok only after its proof with the authorised identity taken from '
                'the proven one, that rejection clears both identities and counts against the failure bound before '
                'the state change, that buffering is bounded per iteration, and that no message I/O happens before '
                'the transport flag, which is set only from the AUTHENTICATED state plus an admission function.',
        'note': NOT_DECIDED_COMMON + 'Not decided: SHA-1 / hex decoding correctness, chunking independence of the '
                'line parser; a hash comparison helper other than the reviewed _dbus_string_equal is reported as a '
                'violation until reviewed and added to rules/C08.py:EQUALITY. Oracle table SPEC in rules/C08.py is '
                'transcribed from doc/dbus-specification.xml (Authentication state diagrams, Server states).',
        'design': 'DESIGN.md section 3, C08',
    },
    'C07': {
        'technique': 'static analysis: flag-by-site coverage table (setter / matcher / equality / destructor) '
                     'over dominator regions guarded by `flags & K`, must-pass-through of validators and '
                     '"specified twice" tests, interval abstract interpretation with branch refinement for '
                     'negative-offset subscripts, loop-exit typestate for the broadcast fan-out',
        'text': 'Decides that each of the nine match keys is set by its setter, tested by the matcher with its '
                'comparison primitive, compared by match_rule_equal and freed; that the parser stores a key only '
                'after its grammar predicate accepted the whole value, the duplicate-key test and the length / arg '
                'limits; that every n-c subscript in bus/signals.c is >= 0 on every path; that rules are swept from '
                'every pool on disconnect/become-monitor; that AddMatch is undone on failure and every broadcast '
                'recipient is tried.',
        'note': NOT_DECIDED_COMMON + 'Not decided: value-level matching semantics of each key, tokeniser quoting, '
                'argN typing. The arg_lens non-negativity used by the interval proof is itself checked (writers of '
                'BusMatchRule.arg_lens).',
        'design': 'DESIGN.md section 3, C07',
    },
    'C12': {
        'technique': 'static analysis: acquire/release typestate of the header-padding reservation on all exits, '
                     'must-pass-through of cache invalidation after byte-moving calls, who-writes scans of header '
                     'bytes/padding, locked-precondition dominance in public setters, irrevocable-last typestate '
                     'in the in-place replacement primitive',
        'text': 'Decides that the three header editors (and header creation) give back the reserved padding on '
                'every exit incl. OOM, that successful byte-moving edits invalidate the field cache before returning '
                'and before the strip loop reads on, that only the header module mutates header bytes/padding and '
                'every public dbus_message_set_* tests !locked first, and that in-place replacement applies array-'
                'length fix-ups only after its last fallible step and restores lengths on failure.',
        'note': NOT_DECIDED_COMMON + 'Not decided: byte-level result of realignment for every layout / byte order; '
                'that the edited field reads back as set; value preservation of the other fields.',
        'design': 'DESIGN.md section 3, C12',
    },
    'C15': {
        'technique': 'static analysis: graph-cut must-pass-through (close loop / close-on-exec loop between receipt '
                     'and each return), close-before-free dominance, count-flow and byte-size expression checks, '
                     'capability-gate typestate in bus and libdbus, borrow/return pairing, timer typestate',
        'text': 'Decides that every error return after descriptors were received passes the closing loop and resets '
                'the count, kept descriptors get close-on-exec, descriptor arrays are closed before being freed or '
                'recycled, the count checked/removed from the loader is the one given to the message and array '
                'operations use count*sizeof(int), queuing a message with descriptors requires the negotiated '
                'capability (bus and libdbus) and descriptors accompany only a message\'s first write, the loader\'s '
                'descriptor buffer is returned with 0 on a failed read, and the pending-descriptor timeout is '
                'cancelled only when nothing is pending.',
        'note': NOT_DECIDED_COMMON + 'Not decided: identity/order of the open files received; descriptor totals '
                'over histories; kernel SCM_RIGHTS behaviour.',
        'design': 'DESIGN.md section 3, C15',
    },
    'C01': {
        'technique': 'static analysis: must-pass-through of header load (untrusted mode) and body validation before '
                     'queuing, verdict-use scan, table checks of the header-field table / per-field validators / '
                     'mandatory fields against the specification, partition comparison of the ten per-type switch '
                     'statements, sibling agreement of validator and byte-swapper container walks, limit constants '
                     'and their guarding comparisons',
        'text': 'Decides that the loader queues a message only after _dbus_header_load (untrusted) and the body '
                'validator returned DBUS_VALID, that the header loader returns TRUE for untrusted data only after all '
                'its checks, that no DBusValidity is dropped, that field table / per-field cases / mandatory fields '
                'equal the specification, that every type code has a non-asserting case of the right wire size in all '
                'ten switches, that variants hold one value and arrays are aligned when empty in both walkers, and that '
                'limits have the specification\'s values and guard the fixed-array fast path.',
        'note': NOT_DECIDED_COMMON + 'Not decided: accepted <=> spec-valid for every byte string; equality with an '
                'independent decoder; cursor bounds (C01.7 withdrawn: no sound relational domain in reach); signature '
                'bracket nesting (counter automaton).',
        'design': 'DESIGN.md section 3, C01',
    },
    'C02': {
        'technique': 'static analysis: partition comparison of per-type switch statements against the specification '
                     'table, must-pass-through of dbus_message_lock before bytes leave, locked-precondition dominance '
                     'in every public mutator, open/close pairing of the builder\'s signature bookkeeping',
        'text': 'Decides that writer, reader, skipper, validator and byte-swapper agree on every type code, that length '
                'words are written and the message locked before marshal copies or the connection can write, that '
                'every public mutator of header or body tests !locked first, and that the signature being built is '
                'closed or abandoned on every exit.',
        'note': NOT_DECIDED_COMMON + 'Not decided: round-trip equality of values, byte-identical re-serialisation, '
                'value preservation under byte-order conversion / copy.',
        'design': 'DESIGN.md section 3, C02',
    },
    'C14': {
        'technique': 'static analysis: bottom-up effect summaries (state changes with no cancel hook) and '
                     'irrevocable-last typestate for the request handlers, ownership typestate of messages / '
                     'transactions / match rules / DBusStrings on every exit, open/close pairing, restore-on-failure '
                     'idiom check, preallocation dominance',
        'text': 'Decides, for Hello / RequestName / ReleaseName / AddMatch / RemoveMatch, that no path changes state '
                'the transaction cannot undo and then reports failure; that no bus function leaks a message, '
                'transaction, match rule or DBusString on any exit; that the builder\'s signature bookkeeping and the '
                'orig_len idiom restore on failure; that the OOM reply is preallocated first. Five genuine defects '
                'of the unchanged tree are listed as known findings (replayed in findings/R1..R6, R10).',
        'note': NOT_DECIDED_COMMON + 'Not decided: equality of state snapshots / leak totals at run time; allocation '
                'failures inside libc or expat; handlers outside the property\'s list. Exemptions are one symbol each '
                'with a reason (rules/C14.py:EXEMPT).',
        'design': 'DESIGN.md section 3, C14',
    },
    'C16': {
        'level': 'proof',
        'technique': 'static analysis: compile-time witnesses (static assertions over the real macro token text, one '
                     'per byte value / boundary code point, batched in one C and one C++14 unit), guard-existence and '
                     'verdict-overwrite typestate, NUL-before-advance typestate, who-calls-the-implementation scans',
        'text': 'Proves (by the compiler, ~1 560 obligations) that the four character-class macros, UTF8_COMPUTE, '
                'UTF8_LENGTH and UNICODE_VALID equal the specification for every byte / boundary code point; decides '
                'that length, emptiness and depth guards exist, that a non-VALID signature verdict is never '
                'overwritten, that the UTF-8 scanner tests NUL before every advance, and that every public entry '
                'point hands the whole string to the one implementation.',
        'note': NOT_DECIDED_COMMON + 'The proof level applies to the finite macro obligations only. Not decided: that '
                'the scanning loops implement the grammars for all strings (language equivalence); signature bracket '
                'nesting. Trusted: clang constant evaluation, the transcribed specification classes.',
        'design': 'DESIGN.md section 3, C16',
    },
    'C04': {
        'technique': 'static analysis: extraction of the RequestName / ReleaseName / queue-placement if-chains as '
                     'branch structures and exhaustive enumeration of their boolean atoms against a table '
                     'transcribed from the specification; error-kind summaries (only out-of-memory may follow a '
                     'staged signal); must-pass-through of notifications and restore hook before queue edits',
        'text': 'Decides, for all 48 + 4 + 6 combinations of flags and ownership state, that the reply code and the '
                'set of registry mutators reached equal the specification (any extra condition in the decision is '
                'reported); that after a signal or registry change was staged only out-of-memory can fail the '
                'request; that notifications and the restore hook precede queue edits and the reply carries the '
                'registry result; that the owner queue is edited only in services.c.',
        'note': NOT_DECIDED_COMMON + 'Not decided: behaviour over histories (exact order after restore_ownership, '
                'signal arguments and addressees), disconnect-driven changes. Oracle: spec_request() in rules/C04.py, '
                'transcribed from doc/dbus-specification.xml (RequestName / ReleaseName).',
        'design': 'DESIGN.md section 3, C04',
    },
    'C19': {
        'technique': 'static analysis: who-may-call chain to execv, must-pass-through of every helper check on its '
                     'success edge (incl. a reviewed whole-string comparator), typestate on the pending-activation '
                     'flag, condition-atom typestate and loop-exit analysis of the failure fan-out',
        'text': 'Decides that execv is reachable only via run_launch_helper -> launch_bus_name -> '
                'exec_for_correct_user and only after environment clearing, whole-argument bus-name validation, '
                'configuration load, bus-user check, service file lookup, Name == requested name (strcmp), Exec and '
                'User present, switch_user; that nothing is spawned when the activation was already pending; that a '
                'failure fails only activations with the same executable, reaches every waiting sender in one '
                'transaction, and that held messages are replayed in order through dispatch to the new owner.',
        'note': NOT_DECIDED_COMMON + 'Not decided: process behaviour, timing, exactly-once over histories, service '
                'file parsing. A name comparator other than strcmp is reported until reviewed (rules/C19.py).',
        'design': 'DESIGN.md section 3, C19',
    },
    'C17': {
        'technique': 'static analysis: who-may-call scans of the completion funnel and the reply table, lock '
                     'typestate over every function with a naming contract (callee preconditions, exit state, '
                     'HAVE_LOCK_CHECK beliefs), zero-skipping typestate of the serial counter, must-pass-through of '
                     'the pending-reply match before filters',
        'text': 'Decides that completion goes through one funnel that detaches the call between start and finish, '
                'that timeout errors have three reviewed producers and cancel only detaches, that ~130 functions of '
                'dbus-connection.c / dbus-pending-call.c respect the lock contract their names state on every path, '
                'that the serial counter starts at 1, only increments and skips 0, and that a reply is matched to its '
                'pending call before any filter or object handler sees it.',
        'note': NOT_DECIDED_COMMON + 'Not decided: interleavings of reply arrival, timeout, cancellation and blocking '
                'waits across threads; lock state of unsuffixed static helpers.',
        'design': 'DESIGN.md section 3, C17',
    },
    'C10': {
        'technique': 'static analysis: typestate on the corruption test / disconnect, borrow/return pairing of the '
                     'loader buffer, handler-table versus dbus_message_get_args type comparison, must-pass-through of '
                     'the signature check and of the per-iteration read budget',
        'text': 'Decides the few structural clauses: a corrupt stream disconnects the same transport on every path; '
                'the loader buffer is returned on every exit of the readers (decode branches exempt only while no '
                'mechanism has a decode function, re-checked each run); every driver handler is invoked only via the '
                'table after dbus_message_has_signature(in_args) and reads the declared types; each socket read is '
                'preceded by the byte-budget test; connection setup re-evaluates the accept gate.',
        'note': NOT_DECIDED_COMMON + 'Not decided (run-time): no crash for any byte stream, liveness, bounded latency '
                'for other clients.',
        'design': 'DESIGN.md section 3, C10',
    },
    'C11': {
        'technique': 'static analysis: linear-expression comparison of the framing lengths used for header load, '
                     'body copy and deletion, delete-iff-success typestate, sticky-flag who-writes scan, once-only '
                     'typestate of the post-handshake hand-over',
        'text': 'Decides that load_message consumes exactly header_len + body_len (as linear expressions, so split '
                'deletions are fine), only on its success path, with lengths taken from the fixed-header check of the '
                'same iteration which requires the whole message; corruption is sticky; handshake leftovers are handed '
                'to the loader once, before framing, and removed only after the copy; a command consumes its line.',
        'note': NOT_DECIDED_COMMON + 'Not decided: equality of the message sequence across all partitions of the '
                'stream; the exact point where corruption is declared.',
        'design': 'DESIGN.md section 3, C11',
    },
}

CLAIMS['C20'] = {
    'technique': 'static analysis: decision-table extraction (symbolic walk of the CFG under every assignment of '
                 'the condition atoms) for the handler-inclusion test, the stop condition over the three '
                 'DBusHandlerResult values, both binary searches and the pruning test; path-sensitive typestate of '
                 'what find_subtree_recurse may return; linear-expression comparison of memmove index/count '
                 'arguments; must-pass-through of the occupied test before registration stores; constant-argument '
                 'table of the four public registration entry points',
    'text': 'Decides the structural clauses of dbus/dbus-object-tree.c: a node is offered a message exactly when it '
            'has a handler and is the exact match or a fallback, exact can hold for the first node of the ->parent '
            'walk only, handlers are invoked deepest first with their own data and the loop continues exactly on '
            'NOT_YET_HANDLED; found_object is "lookup found a covering node" and selects UnknownMethod / '
            'UnknownObject; the lookup returns a partially covering node only in deepest-match mode for a fallback '
            'node with exact = FALSE; lookup, insertion and removal agree on the sorted-children discipline '
            '(same three-way search, insert at the final search position, exact tail shifts, counts +-1); an '
            'occupied path fails before any store; pruning needs no children and no handler; the child listing '
            'copies child i to slot i of n+1 zeroed slots.',
    'note': NOT_DECIDED_COMMON + 'Not decided: which handler a given history of registrations selects (a function of '
            'the run-time trie), re-entrancy from handlers, callback locking, the built-in Introspect document. '
            'Earlier declared not applicable; claimed after the clauses above were found to be necessary '
            'conditions visible in the code (DESIGN.md section 10.8).',
    'design': 'DESIGN.md section 10.8',
}

NOT_APPLICABLE = {
}

PENDING = 'not claimed'

GENERIC = (' Also decided (engine/generic.py) over the functions of this property\'s files and the general-purpose '
           'functions they call (lists, hash tables, strings, pools, counters, main loop, system wrappers): no dropped '
           'failure result (E), 1-bit flags stored normalised (B), field widths agree (W), allocation results examined '
           '(N), "unset" sentinels survive widening (S) and are not the only value handed on (U), constructors read a '
           'field only after storing it (Z), cursor loops advance on every way round (G), trivial accessors use the '
           'field they are named after (H), list walks start at the head and follow one direction (L), single-bit flag constants applied to one word are distinct bits (D), '
           'constants stored into or compared with a bit-field fit its width (Q); and, against '
           'the reference profile of the repaired tree (engine/baseline_*.json): boundaries, constant arguments, '
           'argument roles, stored / returned constants, switch fall-through, small offsets, truth tables of compound '
           'conditions and sibling callees unchanged (C, K, A, R, F, O, T, V).')

EXTRA = {
    'C01': ' Further: bracket kinds of signatures nest (C01.9), wire-format limits inclusive everywhere (C01.10), '
           'fixed-array block count matches the block handed out (C01.11), array end computed after alignment.',
    'C02': ' Further: byteswap is given (header order, target order) in that order; limits inclusive (C02.8); UTF-8 '
           'witnesses (C02.11).',
    'C04': ' Further: registry containers live as long as the bus (C04.8); shape analysis of the list primitives the '
           'owner queue is edited with (C04.9).',
    'C05': ' Further: routing state containers are never recreated (C05.7), list primitives keep the ring (C05.8), the '
           'gate is told every party (C05.9); list operations decided on all small lists (C05.11); back-pressure '
           'counters notify on crossings (C05.12); errno predicates (C05.13); the destination is read from a fresh '
           'field cache (C05.14).',
    'C20': ' Further: a refused registration only warns -- the warning helpers consult their own switch (C20.11).',
    'C06': ' Further: every DBusConnection parameter of a gate caller is one of the gate\'s parties (C06.10); rule '
           'destination / origin are compared through destination / sender accessors (C06.11); the expiry timer wakes '
           'for the slot due first, which bounds how long a reply counts as requested (C06.13); the peer\'s group list '
           'is re-read with a grown buffer (C06.14).',
    'C07': ' Further: the tokeniser succeeds only when the whole rule text was consumed (C07.2b); the disconnect sweep '
           'removes only rules owned by or naming the departing connection (C07.4b); argN bytes compared over arg_lens[i]; '
           'a name in sender= / destination= stands for its primary owner only (C07.9); keys compared by whole-string '
           'equality (C07.10); the rule tables survive a failed growth (C07.11).',
    'C09': ' Further: in bus_dispatch_matches the gate is the last non-OOM refusal before staging (C09.1); pending-reply '
           'list never recreated (C09.6); gate told every party (C09.7); list operations decided on all small lists '
           '(C09.9); the expiry timer is armed for "now" whenever it has to be (C09.10).',
    'C10': ' Further: header edits use the message\'s byte order (C10.7); a held request\'s connection is used only '
           'while connected (C10.8); bus default limits do not exceed the library\'s (C10.9); disabled watches are '
           'edge-triggered with an empty mask (C10.10); UTF-8 witnesses (C10.11); counters notify exactly on crossings '
           '(C10.12); scan loops and the assertions restating them agree (C10.13).',
    'C11': ' Further: with descriptors pending the read budget is exactly what completes the current message (C11.6); '
           'errno predicates test the errno they are named after (C11.8); back-pressure counters notify exactly on '
           'crossings (C11.9); read wrappers grow the buffer once and cut it back on every exit (C11.10).',
    'C12': ' Further: unknown-field stripping covers 11..255 with an unsigned code (C12.8).',
    'C13': ' Further: a refused request holds no pending-reply slot (C13.7); counter containers never recreated (C13.6); '
           '<limit> names and BusLimits fields one to one (C13.8); limit setters only lower the request (C13.9); list '
           'operations decided on all small lists (C13.10); expiry timer armed when needed (C13.11); the owned-names count '
           'changes only with owner objects (C13.12).',
    'C14': ' Further: references taken are released on the failure paths that follow (C14.2g); a preallocated hash '
           'entry is consumed or freed before it is forgotten (C14.9); list operations decided on all small lists '
           '(C14.11); a place in the owner queue is one reference (C14.12); container growth is all-or-nothing (C14.13); '
           'the owned-names list follows the life of owner objects (C14.14); the allocators return NULL rather than abort unless '
           'DBUS_MALLOC_CANNOT_FAIL asked for it (C14.15).',
    'C15': ' Further: read budget while descriptors are pending (C15.8); descriptor passing marked negotiated only on '
           'AGREE_UNIX_FD / when answering NEGOTIATE_UNIX_FD (C15.9); limit setters only lower the request (C15.11); the '
           'descriptor counter notifies exactly on crossings (C15.12).',
    'C16': ' Further: struct and dict-entry brackets nest -- a closing bracket matches the innermost open one (C16.5); '
           'string comparisons cover whole strings and whole ranges (C16.7).',
    'C17': ' Further: the I/O path is released on every path on which it was acquired (C17.8); serials are written in '
           'the message\'s byte order (C17.9); condition variables wait on the clock their deadline was read from '
           '(C17.10); hash front ends convert keys alike (C17.11); callbacks get the data registered with them (C17.12); '
           'the prepared timeout error is queued whenever it exists (C17.13).',
    'C18': ' Further: capture and route name the same parties (C18.8); a name in a monitor\'s filter stands for its '
           'primary owner only (C18.9); counters notify on crossings (C18.10); list operations incl. copy under failing '
           'allocations (C18.11); what monitors are shown is behind the sender stamp (C18.12).',
    'C08': ' Further: every parser field an element handler sets is merged from included files (C08.7); the cookie '
           'response is compared as a whole (C08.11); cookie ages use the wall clock (C08.12).',
    'C19': ' Further: pending activations survive reload (C19.6); a held request\'s connection is used only while '
           'connected (C19.7); the helper\'s parser records each element\'s own type (C19.8); list operations (C19.10); '
           'counters notify on crossings (C19.11); seconds / milliseconds normalised in pairs (C19.M).',
}


def main():
    props = [json.loads(l)['id'] for l in open(os.path.join(HERE, 'properties.jsonl'))]
    checks = []
    na = []
    for pid in props:
        c = CLAIMS.get(pid)
        if c is None:
            na.append({'property_id': pid, 'reason': NOT_APPLICABLE.get(pid, PENDING)})
            continue
        checks.append({
            'property_id': pid,
            'quick_cmd': './check %s --tier quick' % pid,
            'thorough_cmd': './check %s --tier thorough' % pid,
            'evidence_file': 'evidence/%s.json' % pid,
            'replay_cmd_template': './check %s --replay {path}' % pid,
            'engine': 'dbusfacts+rules',
            'level_claimed': {'category': c.get('level', 'other'), 'text': c['text'] + EXTRA.get(pid, '') + GENERIC,
                              'design_ref': c['design']},
            'level_note': c['note'],
            'technique': c['technique'],
        })
    m = {
        'version': 1,
        'setup_cmd': 'sh tools/setup.sh',
        'hooks': {
            'guard': 'DBUS_VERIF',
            'enable': 'none needed: the analyses read the unmodified source; no hook commits exist',
            'baseline_off_cmd': 'cmake --build /repo/_build && ctest --test-dir /repo/_build -j8 --timeout 900',
            'source_commits': [],
            'add_only': True,
        },
        'engines': [{
            'name': 'dbusfacts+rules',
            'path': 'tools/dbusfacts.cc, engine/, rules/',
            'serves_properties': sorted(CLAIMS),
            'kind_free_text': 'libTooling fact extractor (clang CFG, typed expression trees, tables, macros) '
                              '+ Python rule engines: WHO/DOM/PAIR/TS/SUM/TAB/DEC/W/ABS (static analysis only)',
        }],
        'checks': checks,
        'not_applicable': na,
        'notes': 'Static analysis only. Exit 2 + ANALYSIS-BROKEN line = anchor vanished / instance floor '
                 'not reached (neither pass nor violation). Known findings: known_findings.json.',
    }
    with open(os.path.join(HERE, 'MANIFEST.json'), 'w') as fh:
        json.dump(m, fh, indent=1)
    print('MANIFEST.json: %d checks, %d not_applicable' % (len(checks), len(na)))


if __name__ == '__main__':
    main()
