// dbusfacts: libTooling fact extractor for the dbus static checks.
//
// Emits, for one translation unit, a JSON file with
//   functions  : per-function clang::CFG (all sub-expressions added), each
//                block as an ordered list of events (call / assign / incdec /
//                decl / return / sub / deref) with typed expression trees,
//                the terminator condition and the ordered successors
//   tables     : file-scope (and static local) variables with initialisers
//   enums      : enumerator name -> value
//   records    : struct definitions (field names and types)
//   macros     : macros defined in the main file (params, body text)
//
// It decides nothing; rules live in /verif/engine and /verif/rules (Python).

#include "clang/AST/ASTConsumer.h"
#include "clang/AST/ASTContext.h"
#include "clang/AST/Attr.h"
#include "clang/AST/Decl.h"
#include "clang/AST/Expr.h"
#include "clang/AST/Stmt.h"
#include "clang/Analysis/CFG.h"
#include "clang/Basic/SourceManager.h"
#include "clang/Frontend/CompilerInstance.h"
#include "clang/Frontend/FrontendAction.h"
#include "clang/Lex/Lexer.h"
#include "clang/Lex/MacroInfo.h"
#include "clang/Lex/Preprocessor.h"
#include "clang/Tooling/CommonOptionsParser.h"
#include "clang/Tooling/Tooling.h"
#include "llvm/Support/CommandLine.h"
#include "llvm/Support/JSON.h"
#include "llvm/Support/raw_ostream.h"

#include <map>
#include <string>

using namespace clang;
using namespace clang::tooling;
namespace json = llvm::json;

static llvm::cl::OptionCategory Cat("dbusfacts options");
static llvm::cl::opt<std::string> OutFile("o", llvm::cl::desc("output JSON"),
                                          llvm::cl::cat(Cat),
                                          llvm::cl::init("-"));

namespace {

static std::string fixUTF8(llvm::StringRef S) {
  std::string R;
  for (unsigned char c : S) {
    if (c < 0x80 && (c >= 0x20 || c == '\n' || c == '\t'))
      R.push_back((char)c);
    else {
      char buf[8];
      snprintf(buf, sizeof buf, "\\x%02x", c);
      R += buf;
    }
  }
  return R;
}

class Extractor {
public:
  Extractor(ASTContext &C, Preprocessor &P)
      : Ctx(C), SM(C.getSourceManager()), PP(P) {}

  ASTContext &Ctx;
  SourceManager &SM;
  Preprocessor &PP;
  std::map<const Decl *, int> DeclIds;
  std::map<const Stmt *, int> StmtIds;
  int NextDecl = 1;
  int NextStmt = 1;

  int declId(const Decl *D) {
    D = D->getCanonicalDecl();
    auto it = DeclIds.find(D);
    if (it != DeclIds.end())
      return it->second;
    return DeclIds[D] = NextDecl++;
  }
  int stmtId(const Stmt *S) {
    auto it = StmtIds.find(S);
    if (it != StmtIds.end())
      return it->second;
    return StmtIds[S] = NextStmt++;
  }

  std::string fileOf(SourceLocation L) {
    PresumedLoc P = SM.getPresumedLoc(SM.getExpansionLoc(L));
    if (P.isInvalid())
      return "";
    return P.getFilename();
  }
  int lineOf(SourceLocation L) {
    PresumedLoc P = SM.getPresumedLoc(SM.getExpansionLoc(L));
    if (P.isInvalid())
      return 0;
    return (int)P.getLine();
  }
  bool inSystem(SourceLocation L) {
    return SM.isInSystemHeader(SM.getExpansionLoc(L));
  }

  std::string typeStr(QualType T) { return T.getAsString(); }

  std::string recordName(const RecordDecl *RD) {
    if (!RD)
      return "";
    if (RD->getIdentifier())
      return RD->getName().str();
    if (const TypedefNameDecl *TD = RD->getTypedefNameForAnonDecl())
      return TD->getName().str();
    // anonymous member struct/union: qualify by parent
    if (const auto *P = dyn_cast_or_null<RecordDecl>(RD->getDeclContext()))
      return recordName(P) + "::<anon>";
    return "<anon>";
  }

  std::string macroName(SourceLocation L) {
    if (!L.isMacroID())
      return "";
    // outermost macro whose expansion starts here
    SourceLocation Cur = L;
    std::string Name;
    while (Cur.isMacroID()) {
      if (SM.isMacroArgExpansion(Cur)) {
        Cur = SM.getImmediateSpellingLoc(Cur);
        continue;
      }
      Name = Lexer::getImmediateMacroName(Cur, SM, Ctx.getLangOpts()).str();
      Cur = SM.getImmediateExpansionRange(Cur).getBegin();
    }
    return Name;
  }

  static bool hasSizeof(const Stmt *S) {
    if (!S)
      return false;
    if (isa<UnaryExprOrTypeTraitExpr>(S) || isa<OffsetOfExpr>(S))
      return true;
    for (const Stmt *C : S->children())
      if (hasSizeof(C))
        return true;
    return false;
  }

  json::Value J(const Expr *E, bool TryConst = true) {
    if (!E)
      return nullptr;
    // the explicit (written) casts wrapped around the expression, outermost first
    json::Array XC;
    {
      const Expr *W = E;
      while (true) {
        if (const auto *P = dyn_cast<ParenExpr>(W)) {
          W = P->getSubExpr();
        } else if (const auto *C = dyn_cast<CStyleCastExpr>(W)) {
          XC.push_back(typeStr(C->getTypeAsWritten()));
          W = C->getSubExpr();
        } else if (const auto *I = dyn_cast<ImplicitCastExpr>(W)) {
          W = I->getSubExpr();
        } else
          break;
      }
    }
    E = E->IgnoreParenCasts();
    if (!XC.empty()) {
      json::Value V = J(E, TryConst);
      if (auto *Obj = V.getAsObject())
        if (!Obj->get("xc"))
          (*Obj)["xc"] = std::move(XC);
      return V;
    }
    json::Object O;
    QualType T = E->getType();

    if (TryConst && !T.isNull() && !E->isValueDependent() && !isa<CallExpr>(E)) {
      if (T->isIntegralOrEnumerationType() && E->isPRValue()) {
        Expr::EvalResult R;
        if (E->EvaluateAsInt(R, Ctx, Expr::SE_NoSideEffects)) {
          O["k"] = "int";
          O["v"] = (int64_t)R.Val.getInt().getExtValue();
          if (hasSizeof(E))
            O["sz"] = true;          // depends on the layout of a type, not written as a number
          if (const auto *DR = dyn_cast<DeclRefExpr>(E))
            O["name"] = DR->getDecl()->getNameAsString();
          else {
            std::string M = macroName(E->getBeginLoc());
            if (!M.empty())
              O["name"] = M;
          }
          return std::move(O);
        }
      } else if (T->isPointerType() && E->isPRValue() &&
                 !isa<CallExpr>(E) && !isa<DeclRefExpr>(E) &&
                 !isa<MemberExpr>(E)) {
        if (E->isNullPointerConstant(Ctx, Expr::NPC_ValueDependentIsNotNull)) {
          O["k"] = "int";
          O["v"] = 0;
          O["name"] = "NULL";
          return std::move(O);
        }
      }
    }

    if (const auto *CE = dyn_cast<CallExpr>(E)) {
      O["k"] = "call";
      O["id"] = stmtId(CE);
      O["line"] = lineOf(CE->getBeginLoc());
      if (const FunctionDecl *FD = CE->getDirectCallee()) {
        O["callee"] = FD->getNameAsString();
        if (FD->getStorageClass() == SC_Static)
          O["cstatic"] = true;
      } else {
        O["callee"] = nullptr;
        O["fn"] = J(CE->getCallee());
      }
      json::Array A;
      for (const Expr *Arg : CE->arguments())
        A.push_back(J(Arg));
      O["args"] = std::move(A);
      O["t"] = typeStr(T);
      std::string M = macroName(CE->getBeginLoc());
      if (!M.empty())
        O["m"] = M;
      return std::move(O);
    }
    if (const auto *DR = dyn_cast<DeclRefExpr>(E)) {
      const ValueDecl *D = DR->getDecl();
      O["k"] = "ref";
      O["name"] = D->getNameAsString();
      if (const auto *VD = dyn_cast<VarDecl>(D)) {
        if (isa<ParmVarDecl>(VD))
          O["kind"] = "param";
        else if (VD->isLocalVarDecl())
          O["kind"] = VD->isStaticLocal() ? "slocal" : "local";
        else
          O["kind"] = "global";
        O["id"] = declId(VD);
        O["t"] = typeStr(VD->getType());
      } else if (const auto *FD = dyn_cast<FunctionDecl>(D)) {
        O["kind"] = "func";
        if (FD->getStorageClass() == SC_Static)
          O["cstatic"] = true;
      } else if (isa<EnumConstantDecl>(D)) {
        O["kind"] = "enum";
      } else {
        O["kind"] = "other";
      }
      return std::move(O);
    }
    if (const auto *ME = dyn_cast<MemberExpr>(E)) {
      O["k"] = "member";
      O["base"] = J(ME->getBase());
      O["field"] = ME->getMemberDecl()->getNameAsString();
      if (const auto *FD = dyn_cast<FieldDecl>(ME->getMemberDecl()))
        O["rec"] = recordName(FD->getParent());
      O["arrow"] = ME->isArrow();
      O["t"] = typeStr(T);
      return std::move(O);
    }
    if (const auto *UO = dyn_cast<UnaryOperator>(E)) {
      if (UO->isIncrementDecrementOp()) {
        O["k"] = "incdec";
        O["op"] = UO->isIncrementOp() ? "++" : "--";
        O["prefix"] = UO->isPrefix();
        O["e"] = J(UO->getSubExpr());
        return std::move(O);
      }
      O["k"] = "un";
      O["op"] = UnaryOperator::getOpcodeStr(UO->getOpcode()).str();
      O["e"] = J(UO->getSubExpr());
      return std::move(O);
    }
    if (const auto *BO = dyn_cast<BinaryOperator>(E)) {
      if (BO->isAssignmentOp()) {
        O["k"] = "assign";
        O["op"] = BO->getOpcodeStr().str();
        O["l"] = J(BO->getLHS());
        O["r"] = J(BO->getRHS());
        return std::move(O);
      }
      O["k"] = "bin";
      O["op"] = BO->getOpcodeStr().str();
      O["l"] = J(BO->getLHS());
      O["r"] = J(BO->getRHS());
      return std::move(O);
    }
    if (const auto *CO = dyn_cast<ConditionalOperator>(E)) {
      O["k"] = "cond";
      O["c"] = J(CO->getCond());
      O["a"] = J(CO->getTrueExpr());
      O["b"] = J(CO->getFalseExpr());
      return std::move(O);
    }
    if (const auto *AS = dyn_cast<ArraySubscriptExpr>(E)) {
      O["k"] = "sub";
      O["base"] = J(AS->getBase());
      O["idx"] = J(AS->getIdx());
      O["line"] = lineOf(AS->getBeginLoc());
      return std::move(O);
    }
    if (const auto *SL = dyn_cast<StringLiteral>(E)) {
      O["k"] = "str";
      if (SL->getCharByteWidth() == 1)
        O["v"] = fixUTF8(SL->getBytes().substr(0, 400));
      else
        O["v"] = "<wide>";
      return std::move(O);
    }
    if (const auto *PE = dyn_cast<PredefinedExpr>(E)) {
      O["k"] = "str";
      O["v"] = PE->getFunctionName()
                   ? fixUTF8(PE->getFunctionName()->getBytes())
                   : std::string("");
      O["predef"] = true;
      return std::move(O);
    }
    if (const auto *IL = dyn_cast<InitListExpr>(E)) {
      return initList(IL);
    }
    if (const auto *CL = dyn_cast<CompoundLiteralExpr>(E)) {
      return J(CL->getInitializer());
    }
    if (const auto *UE = dyn_cast<UnaryExprOrTypeTraitExpr>(E)) {
      O["k"] = "sizeof";
      return std::move(O);
    }
    if (const auto *FL = dyn_cast<FloatingLiteral>(E)) {
      O["k"] = "float";
      O["v"] = FL->getValueAsApproximateDouble();
      return std::move(O);
    }
    if (isa<ImplicitValueInitExpr>(E)) {
      O["k"] = "int";
      O["v"] = 0;
      O["implicit"] = true;
      return std::move(O);
    }
    if (const auto *VA = dyn_cast<VAArgExpr>(E)) {
      O["k"] = "va_arg";
      O["e"] = J(VA->getSubExpr());
      O["t"] = typeStr(T);
      return std::move(O);
    }
    if (const auto *SE = dyn_cast<StmtExpr>(E)) {
      // ({ ...; value; }): the statements are in the CFG already; the expression stands for its value
      if (const CompoundStmt *CS = SE->getSubStmt())
        if (!CS->body_empty())
          if (const auto *LE = dyn_cast<Expr>(CS->body_back()))
            return J(LE);
      O["k"] = "stmtexpr";
      return std::move(O);
    }
    O["k"] = "other";
    O["cls"] = E->getStmtClassName();
    return std::move(O);
  }

  json::Value initList(const InitListExpr *IL) {
    json::Object O;
    O["k"] = "initlist";
    if (IL->isSemanticForm() == false && IL->getSemanticForm())
      IL = IL->getSemanticForm();
    QualType T = IL->getType();
    json::Array A;
    const RecordDecl *RD = nullptr;
    if (!T.isNull())
      if (const RecordType *RT = T->getAsStructureType())
        RD = RT->getDecl();
    if (RD) {
      O["rec"] = recordName(RD);
      unsigned i = 0;
      json::Object Fields;
      for (const FieldDecl *FD : RD->fields()) {
        if (FD->isUnnamedBitfield())
          continue;
        if (i >= IL->getNumInits())
          break;
        Fields[FD->getNameAsString()] = J(IL->getInit(i));
        ++i;
      }
      O["fields"] = std::move(Fields);
    } else {
      for (const Expr *I : IL->inits())
        A.push_back(J(I));
      O["elems"] = std::move(A);
      if (IL->hasArrayFiller())
        O["filler"] = J(IL->getArrayFiller());
    }
    return std::move(O);
  }

  json::Value varRef(const VarDecl *VD) {
    json::Object O;
    O["k"] = "ref";
    O["name"] = VD->getNameAsString();
    if (isa<ParmVarDecl>(VD))
      O["kind"] = "param";
    else if (VD->isLocalVarDecl())
      O["kind"] = VD->isStaticLocal() ? "slocal" : "local";
    else
      O["kind"] = "global";
    O["id"] = declId(VD);
    O["t"] = typeStr(VD->getType());
    return std::move(O);
  }

  void blockEvents(const CFGBlock &B, json::Array &Ev) {
    for (const CFGElement &El : B) {
      auto CS = El.getAs<CFGStmt>();
      if (!CS)
        continue;
      const Stmt *S = CS->getStmt();
      json::Object O;
      if (const auto *CE = dyn_cast<CallExpr>(S)) {
        O["ev"] = "call";
        O["e"] = J(CE);
        O["line"] = lineOf(CE->getBeginLoc());
      } else if (const auto *BO = dyn_cast<BinaryOperator>(S)) {
        if (!BO->isAssignmentOp())
          continue;
        O["ev"] = "assign";
        O["e"] = J(BO);
        O["line"] = lineOf(BO->getOperatorLoc());
      } else if (const auto *UO = dyn_cast<UnaryOperator>(S)) {
        if (UO->isIncrementDecrementOp()) {
          O["ev"] = "incdec";
          O["e"] = J(UO);
          O["line"] = lineOf(UO->getOperatorLoc());
        } else if (UO->getOpcode() == UO_Deref) {
          O["ev"] = "deref";
          O["e"] = J(UO);
          O["line"] = lineOf(UO->getOperatorLoc());
        } else
          continue;
      } else if (const auto *AS = dyn_cast<ArraySubscriptExpr>(S)) {
        O["ev"] = "sub";
        O["e"] = J(AS);
        O["line"] = lineOf(AS->getBeginLoc());
      } else if (const auto *DS = dyn_cast<DeclStmt>(S)) {
        bool any = false;
        for (const Decl *D : DS->decls()) {
          const auto *VD = dyn_cast<VarDecl>(D);
          if (!VD)
            continue;
          json::Object V;
          V["ev"] = "decl";
          V["var"] = varRef(VD);
          V["init"] = VD->hasInit() ? J(VD->getInit()) : json::Value(nullptr);
          V["line"] = lineOf(VD->getLocation());
          Ev.push_back(std::move(V));
          any = true;
        }
        (void)any;
        continue;
      } else if (const auto *RS = dyn_cast<ReturnStmt>(S)) {
        O["ev"] = "return";
        O["e"] = J(RS->getRetValue());
        O["line"] = lineOf(RS->getReturnLoc());
      } else
        continue;
      Ev.push_back(std::move(O));
    }
  }

  json::Value function(const FunctionDecl *FD) {
    json::Object F;
    F["name"] = FD->getNameAsString();
    F["file"] = fileOf(FD->getLocation());
    F["line"] = lineOf(FD->getLocation());
    F["endline"] = lineOf(FD->getEndLoc());
    F["static"] = FD->getStorageClass() == SC_Static;
    F["inline"] = FD->isInlineSpecified();
    F["ret"] = typeStr(FD->getReturnType());
    F["noreturn"] = FD->isNoReturn();
    F["variadic"] = FD->isVariadic();
    bool exported = false;
    for (const FunctionDecl *R : FD->redecls())
      if (const auto *VA = R->getAttr<VisibilityAttr>())
        if (VA->getVisibility() == VisibilityAttr::Default)
          exported = true;
    F["exported"] = exported;
    json::Array Ps;
    for (const ParmVarDecl *P : FD->parameters()) {
      json::Object PO;
      PO["name"] = P->getNameAsString();
      PO["t"] = typeStr(P->getType());
      PO["id"] = declId(P);
      Ps.push_back(std::move(PO));
    }
    F["params"] = std::move(Ps);

    CFG::BuildOptions BO;
    BO.setAllAlwaysAdd();
    BO.AddEHEdges = false;
    BO.PruneTriviallyFalseEdges = true;
    std::unique_ptr<CFG> G =
        CFG::buildCFG(FD, FD->getBody(), &Ctx, BO);
    if (!G) {
      F["cfg_failed"] = true;
      return std::move(F);
    }
    F["entry"] = (int)G->getEntry().getBlockID();
    F["exit"] = (int)G->getExit().getBlockID();
    json::Array Blocks;
    for (const CFGBlock *B : *G) {
      json::Object BJ;
      BJ["id"] = (int)B->getBlockID();
      json::Array Ev;
      blockEvents(*B, Ev);
      BJ["events"] = std::move(Ev);
      json::Array Su;
      for (auto I = B->succ_begin(); I != B->succ_end(); ++I) {
        const CFGBlock *SB = I->getReachableBlock();
        Su.push_back(SB ? (int)SB->getBlockID() : -1);
      }
      BJ["succs"] = std::move(Su);
      if (B->hasNoReturnElement())
        BJ["noreturn"] = true;
      if (const Stmt *L = B->getLabel()) {
        if (const auto *CS = dyn_cast<CaseStmt>(L)) {
          json::Array R;
          Expr::EvalResult V;
          if (CS->getLHS()->EvaluateAsInt(V, Ctx)) {
            int64_t lo = V.Val.getInt().getExtValue();
            int64_t hi = lo;
            if (CS->getRHS()) {
              Expr::EvalResult V2;
              if (CS->getRHS()->EvaluateAsInt(V2, Ctx))
                hi = V2.Val.getInt().getExtValue();
            }
            R.push_back(lo);
            R.push_back(hi);
          }
          BJ["case"] = std::move(R);
          std::string M = macroName(CS->getLHS()->getBeginLoc());
          if (const auto *DR =
                  dyn_cast<DeclRefExpr>(CS->getLHS()->IgnoreParenCasts()))
            M = DR->getDecl()->getNameAsString();
          if (!M.empty())
            BJ["case_name"] = M;
          BJ["label_line"] = lineOf(CS->getBeginLoc());
        } else if (isa<DefaultStmt>(L)) {
          BJ["default"] = true;
          BJ["label_line"] = lineOf(L->getBeginLoc());
        } else if (const auto *LS = dyn_cast<LabelStmt>(L)) {
          BJ["label"] = LS->getName();
          BJ["label_line"] = lineOf(L->getBeginLoc());
        }
      }
      if (const Stmt *T = B->getTerminatorStmt()) {
        json::Object TJ;
        TJ["kind"] = T->getStmtClassName();
        TJ["line"] = lineOf(T->getBeginLoc());
        if (const auto *SS = dyn_cast<SwitchStmt>(T)) {
          TJ["cond"] = J(SS->getCond());
        } else if (B->succ_size() >= 2) {
          if (const Expr *C = B->getLastCondition())
            TJ["cond"] = J(C, /*TryConst=*/true);
          else if (const Stmt *TC = B->getTerminatorCondition())
            if (const auto *TE = dyn_cast<Expr>(TC))
              TJ["cond"] = J(TE);
          if (const auto *BOp = dyn_cast<BinaryOperator>(T))
            TJ["op"] = BOp->getOpcodeStr().str();
        }
        BJ["term"] = std::move(TJ);
      }
      Blocks.push_back(std::move(BJ));
    }
    F["blocks"] = std::move(Blocks);
    return std::move(F);
  }

  void run(json::Object &Out) {
    json::Array Funcs, Tables, Records;
    json::Object Enums;
    TranslationUnitDecl *TU = Ctx.getTranslationUnitDecl();
    for (Decl *D : TU->decls()) {
      if (inSystem(D->getLocation()))
        continue;
      if (auto *FD = dyn_cast<FunctionDecl>(D)) {
        if (FD->doesThisDeclarationHaveABody()) {
          Funcs.push_back(function(FD));
          // static locals with initialisers
        }
      } else if (auto *VD = dyn_cast<VarDecl>(D)) {
        if (VD->hasInit()) {
          json::Object T;
          T["name"] = VD->getNameAsString();
          T["file"] = fileOf(VD->getLocation());
          T["line"] = lineOf(VD->getLocation());
          T["t"] = typeStr(VD->getType());
          T["static"] = VD->getStorageClass() == SC_Static;
          T["const"] = VD->getType().isConstQualified() ||
                       (VD->getType()->isArrayType() &&
                        Ctx.getBaseElementType(VD->getType())
                            .isConstQualified());
          T["init"] = J(VD->getInit());
          Tables.push_back(std::move(T));
        }
      } else if (auto *ED = dyn_cast<EnumDecl>(D)) {
        for (const EnumConstantDecl *EC : ED->enumerators())
          Enums[EC->getNameAsString()] =
              (int64_t)EC->getInitVal().getExtValue();
      } else if (auto *RD = dyn_cast<RecordDecl>(D)) {
        if (RD->isThisDeclarationADefinition())
          Records.push_back(record(RD));
      } else if (auto *TD = dyn_cast<TypedefNameDecl>(D)) {
        (void)TD;
      }
    }
    // enums / records nested in typedefs appear as separate top-level decls
    Out["functions"] = std::move(Funcs);
    Out["tables"] = std::move(Tables);
    Out["enums"] = std::move(Enums);
    Out["records"] = std::move(Records);

    json::Object Macros;
    for (auto &M : PP.macros()) {
      const IdentifierInfo *II = M.first;
      const MacroDirective *MD = PP.getLocalMacroDirectiveHistory(II);
      if (!MD)
        continue;
      const MacroInfo *MI = MD->getMacroInfo();
      if (!MI || MI->isBuiltinMacro())
        continue;
      SourceLocation L = MI->getDefinitionLoc();
      if (L.isInvalid() || inSystem(L))
        continue;
      FileID FID = SM.getFileID(SM.getExpansionLoc(L));
      if (FID.isInvalid())
        continue;
      const FileEntry *FE = SM.getFileEntryForID(FID);
      if (!FE)
        continue; // command line / builtin
      json::Object MO;
      MO["file"] = fileOf(L);
      MO["line"] = lineOf(L);
      MO["fnlike"] = MI->isFunctionLike();
      json::Array Ps;
      for (const IdentifierInfo *P : MI->params())
        Ps.push_back(P->getName().str());
      MO["params"] = std::move(Ps);
      std::string Body;
      for (const Token &Tk : MI->tokens()) {
        if (!Body.empty() && (Tk.hasLeadingSpace() || true))
          Body += " ";
        Body += PP.getSpelling(Tk);
      }
      MO["body"] = fixUTF8(Body);
      Macros[II->getName()] = std::move(MO);
    }
    Out["macros"] = std::move(Macros);
  }

  json::Value record(const RecordDecl *RD) {
    json::Object R;
    R["name"] = recordName(RD);
    R["file"] = fileOf(RD->getLocation());
    R["line"] = lineOf(RD->getLocation());
    R["union"] = RD->isUnion();
    json::Array Fs;
    for (const FieldDecl *FD : RD->fields()) {
      json::Object FO;
      FO["name"] = FD->getNameAsString();
      FO["t"] = typeStr(FD->getType());
      if (FD->isBitField())
        FO["bits"] = (int)FD->getBitWidthValue(Ctx);
      if (const RecordType *RT =
              FD->getType()->getAsStructureType() ? FD->getType()->getAsStructureType()
                                                  : FD->getType()->getAsUnionType())
        if (!RT->getDecl()->getIdentifier() &&
            !RT->getDecl()->getTypedefNameForAnonDecl())
          FO["anon"] = record(RT->getDecl());
      Fs.push_back(std::move(FO));
    }
    R["fields"] = std::move(Fs);
    return std::move(R);
  }
};

class Consumer : public ASTConsumer {
public:
  Consumer(CompilerInstance &CI, std::string In) : CI(CI), In(std::move(In)) {}
  void HandleTranslationUnit(ASTContext &Ctx) override {
    json::Object Out;
    Out["unit"] = In;
    Out["errors"] =
        (int)CI.getDiagnostics().getClient()->getNumErrors();
    Extractor X(Ctx, CI.getPreprocessor());
    X.run(Out);
    std::error_code EC;
    if (OutFile == "-") {
      llvm::outs() << json::Value(std::move(Out)) << "\n";
    } else {
      llvm::raw_fd_ostream OS(OutFile, EC);
      if (EC) {
        llvm::errs() << "cannot write " << OutFile << "\n";
        return;
      }
      OS << json::Value(std::move(Out)) << "\n";
    }
  }
  CompilerInstance &CI;
  std::string In;
};

class Action : public ASTFrontendAction {
public:
  std::unique_ptr<ASTConsumer> CreateASTConsumer(CompilerInstance &CI,
                                                 StringRef In) override {
    return std::make_unique<Consumer>(CI, In.str());
  }
};

} // namespace

int main(int argc, const char **argv) {
  auto Exp = CommonOptionsParser::create(argc, argv, Cat);
  if (!Exp) {
    llvm::errs() << Exp.takeError();
    return 2;
  }
  CommonOptionsParser &OP = Exp.get();
  ClangTool Tool(OP.getCompilations(), OP.getSourcePathList());
  return Tool.run(newFrontendActionFactory<Action>().get());
}
