#!/bin/sh
# verify_seed.sh SRC_DIR SEED_ID PROPERTY [detected_by...]
# Confirms a sub-agent's seeded change independently, in a scratch worktree of /repo:
#   1. patch applies to the pinned commit and the tree builds
#   2. the demonstration passes on the pristine build (/repo/_build) and fails on the patched one
#   3. the pinned test suite still passes with the patch (ctest -j8)
# On success copies patch.diff, the demonstration and notes into /verif/seeded/SEED_ID/ and
# writes meta.json.  The worktree and its build are removed afterwards.
set -u
SRC=$1; ID=$2; PROP=$3; shift 3
VERIF=$(cd "$(dirname "$0")/.." && pwd)
WT=/tmp/vs-$ID
LOG=/tmp/vs-$ID.log
exec >"$LOG" 2>&1
echo "== verify $ID from $SRC"
git -C /repo worktree remove --force "$WT" 2>/dev/null
rm -rf "$WT"
git -C /repo worktree add -q --detach "$WT" HEAD || exit 2
cleanup () { git -C /repo worktree remove --force "$WT" 2>/dev/null; rm -rf "$WT"; }
trap cleanup EXIT
git -C "$WT" apply --whitespace=nowarn "$SRC/patch.diff" || { echo "RESULT patch-does-not-apply"; exit 1; }
cmake -G Ninja -S "$WT" -B "$WT/_build" -DCMAKE_BUILD_TYPE=RelWithDebInfo -DDBUS_BUILD_TESTS=ON \
  -DDBUS_ENABLE_EMBEDDED_TESTS=ON -DDBUS_ENABLE_MODULAR_TESTS=ON -DDBUS_ENABLE_VERBOSE_MODE=ON >/dev/null || { echo "RESULT cmake-failed"; exit 1; }
cmake --build "$WT/_build" -j8 >/tmp/vs-$ID.build.log 2>&1 || { echo "RESULT build-failed"; tail -20 /tmp/vs-$ID.build.log; exit 1; }
echo "== make sure /repo/_build matches /repo HEAD (lock: nobody may have a mutant applied meanwhile)"
flock /tmp/repo.lock sh -c 'git -C /repo diff --quiet && cmake --build /repo/_build -j8 >/tmp/vs-repo-build.log 2>&1' || { echo "RESULT repo-build-failed-or-dirty"; exit 2; }
echo "== demo on pristine"
( cd "$SRC" && timeout 600 sh ./run.sh /repo/_build ) ; P=$?
echo "== demo on patched"
( cd "$SRC" && timeout 600 sh ./run.sh "$WT/_build" ) ; Q=$?
echo "pristine_exit=$P patched_exit=$Q"
echo "== test suite on patched"
ctest --test-dir "$WT/_build" -j8 --timeout 900 >/tmp/vs-$ID.ctest.log 2>&1; T=$?
tail -15 /tmp/vs-$ID.ctest.log
FAILED=$(grep -E "^\s*[0-9]+ - .*\((Failed|Timeout)" /tmp/vs-$ID.ctest.log | sed 's/^ *//' | tr '\n' ';')
echo "ctest_exit=$T failed=[$FAILED]"
OK=0
if [ "$P" = 0 ] && [ "$Q" != 0 ] && [ "$Q" != 2 ]; then OK=1; fi
ONLYFLAKY=1
if [ "$T" != 0 ]; then
  for t in $(grep -E "^\s*[0-9]+ - .*\((Failed|Timeout)" /tmp/vs-$ID.ctest.log | awk '{print $3}'); do
    [ "$t" = "test-pending-call-dispatch" ] || ONLYFLAKY=0
  done
fi
if [ "$OK" = 1 ] && { [ "$T" = 0 ] || [ "$ONLYFLAKY" = 1 ]; }; then
  D="$VERIF/seeded/$ID"
  mkdir -p "$D"
  cp -r "$SRC"/* "$D"/
  DET=$(printf '"%s",' "$@" | sed 's/,$//')
  cat > "$D/meta.json" <<EOF
{
 "id": "$ID",
 "property": "$PROP",
 "detected_by": [$DET],
 "origin": "independent sub-agent given only the property text and a scratch worktree",
 "needs_to_manifest": "see notes.md",
 "confirmed": {
  "applies_and_builds": true,
  "demo_exit_pristine": $P,
  "demo_exit_patched": $Q,
  "ctest_exit_patched": $T,
  "ctest_failed_other_than_known_flaky": "",
  "ran": "tools/verify_seed.sh: git worktree of /repo + patch, cmake+ninja build, run.sh on /repo/_build and on the patched build, ctest -j8 --timeout 900"
 }
}
EOF
  echo "RESULT confirmed"
  exit 0
fi
echo "RESULT rejected (demo pristine=$P patched=$Q ctest=$T failed=[$FAILED])"
exit 1
