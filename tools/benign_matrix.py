#!/usr/bin/env python3
"""benign_matrix.py [--tier quick|thorough] [substr...]: applies every /verif/benign/*.diff
(behaviour-preserving maintenance changes) to /repo in turn (under /tmp/repo.lock; or to the
scratch worktree named by VERIF_REPO, without the lock), runs every
claimed check with no evidence written and requires exit 0 from all of them.  Prints one line
per patch; exit 1 if any check raised an alarm (exit 1) or broke (exit 2)."""
import fcntl
import glob
import json
import os
import re
import subprocess
import sys
from concurrent.futures import ThreadPoolExecutor

HERE = os.path.dirname(os.path.dirname(os.path.abspath(__file__)))


def sh(*a, **k):
    return subprocess.run(a, capture_output=True, text=True, **k)


def main():
    args = sys.argv[1:]
    tier = 'quick'
    if '--tier' in args:
        tier = args[args.index('--tier') + 1]
        del args[args.index('--tier'):args.index('--tier') + 2]
    src = os.path.join(HERE, 'benign')
    if '--dir' in args:
        src = args[args.index('--dir') + 1]
        del args[args.index('--dir'):args.index('--dir') + 2]
    only = args
    REPO = os.environ.get('VERIF_REPO', '/repo')
    if REPO == '/repo':
        lock = open('/tmp/repo.lock', 'w')
        fcntl.flock(lock, fcntl.LOCK_EX)
    if sh('git', '-C', REPO, 'status', '--porcelain', '--untracked-files=no').stdout.strip():
        sys.exit('refusing: %s has uncommitted changes' % REPO)
    man = json.load(open(os.path.join(HERE, 'MANIFEST.json')))
    props = [c['property_id'] for c in man['checks']]
    env = dict(os.environ, VERIF_NO_EVIDENCE='1')
    bad = 0
    n = 0
    for p in sorted(glob.glob(os.path.join(src, '*.diff'))):
        name = os.path.basename(p)
        if only and not any(o in name for o in only):
            continue
        n += 1
        a = sh('git', '-C', REPO, 'apply', '--whitespace=nowarn', p)
        if a.returncode != 0:
            print('NOAPPLY %s' % name)
            bad += 1
            continue
        try:
            def run(q):
                r = sh(os.path.join(HERE, 'check'), q, '--tier', tier, env=env)
                lines = [l.strip()[:260] for l in r.stdout.split('\n')
                         if re.match(r'^  C\d+\.\w+ \S+:\S+ in ', l) or l.startswith('ANALYSIS-BROKEN')]
                if r.returncode not in (0, 1, 2):
                    lines.append((r.stderr or '').strip().split('\n')[-1][:260])
                return q, r.returncode, lines
            with ThreadPoolExecutor(max_workers=10) as ex:
                res = list(ex.map(run, props))
        finally:
            sh('git', '-C', REPO, 'checkout', '--', '.')
            sh('git', '-C', REPO, 'clean', '-fdq', '--', 'dbus', 'bus')
        alarms = [(q, rc, ls) for q, rc, ls in res if rc != 0]
        if alarms:
            bad += 1
            print('ALARM   %s' % name)
            for q, rc, ls in alarms:
                for l in ls[:4] or ['(exit %d)' % rc]:
                    print('        %s exit=%d %s' % (q, rc, l))
        else:
            print('silent  %s' % name)
        sys.stdout.flush()
    print('%d benign changes, %d with alarms' % (n, bad))
    sys.exit(1 if bad else 0)


if __name__ == '__main__':
    main()
