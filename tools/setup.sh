#!/bin/sh
# MANIFEST.setup_cmd: build the extractor (offline) and make sure /repo/_build is configured.
set -e
cd "$(dirname "$0")"
make -s
if [ ! -f /repo/_build/build.ninja ]; then
  cmake -G Ninja -S /repo -B /repo/_build -DCMAKE_BUILD_TYPE=RelWithDebInfo \
    -DDBUS_BUILD_TESTS=ON -DDBUS_ENABLE_EMBEDDED_TESTS=ON -DDBUS_ENABLE_MODULAR_TESTS=ON \
    -DDBUS_ENABLE_VERBOSE_MODE=ON >/dev/null
fi
mkdir -p ../evidence/replay ../.work
echo "setup ok"
