/* replace.c - R10: OOM sweep over C's RequestName(N, REPLACE_EXISTING) when C
 * is ALREADY queued behind a replaceable primary owner A (queue A,B,C).
 *
 * bus_registry_acquire_service, branch "Replace the current owner":
 *   bus_service_add_owner()      -> "already in the queue": C moved to 2nd place,
 *                                   flags overwritten, no cancel hook
 *   bus_service_swap_owner()     (variant "swap":   A queued with ALLOW_REPLACEMENT)
 *   bus_service_remove_owner()   (variant "remove": A with ALLOW_REPLACEMENT|DO_NOT_QUEUE)
 *                                -> can fail with OOM -> acquire_service returns FALSE
 *
 * usage: replace <test-data-dir> swap|remove [-v] [-k N]
 *   -v    one line per failing-allocation index
 *   -k N  only the control run and index N (for backtraces: DBUS_MALLOC_BACKTRACES=1)
 *
 * Connections: A B C own/queue for NAME, D only observes (ListQueuedOwners).
 * The queue is rendered with letters, e.g. "A,B,C" (primary owner first). */
#include "harness.h"
#include <unistd.h>
#include <signal.h>
#include <sys/wait.h>

#define NAME "com.example.ReplayName"
#define ALLOW   DBUS_NAME_FLAG_ALLOW_REPLACEMENT
#define REPLACE DBUS_NAME_FLAG_REPLACE_EXISTING
#define NOQUEUE DBUS_NAME_FLAG_DO_NOT_QUEUE

static DBusConnection *A, *B, *C, *D;

static const char *
queue (char *out, size_t len)
{
  char raw[512], *tok, *save;
  const char *ua = dbus_bus_get_unique_name (A);
  const char *ub = dbus_bus_get_unique_name (B);
  const char *uc = dbus_bus_get_unique_name (C);

  queued_owners (D, NAME, raw, sizeof raw);
  out[0] = 0;
  if (raw[0] == '<')
    {
      snprintf (out, len, "%s", strstr (raw, "NameHasNoOwner") ? "(none)" : raw);
      return out;
    }
  for (tok = strtok_r (raw, ",", &save); tok; tok = strtok_r (NULL, ",", &save))
    {
      const char *l = !strcmp (tok, ua) ? "A" : !strcmp (tok, ub) ? "B" :
                      !strcmp (tok, uc) ? "C" : tok;
      if (out[0]) strncat (out, ",", len - strlen (out) - 1);
      strncat (out, l, len - strlen (out) - 1);
    }
  return out;
}

static void
release_all (void)
{
  release_name (C, NAME);
  release_name (B, NAME);
  release_name (A, NAME);
  drain (A); drain (B); drain (C); drain (D);
}

static DBusConnection *
named_client (void)
{
  DBusConnection *c = open_client ();
  Replies r;
  const char *n = NULL;
  call (c, driver_call ("Hello"), &r);
  if (r.ret == NULL || !dbus_message_get_args (r.ret, NULL, DBUS_TYPE_STRING, &n, DBUS_TYPE_INVALID))
    die ("Hello failed");
  if (!dbus_bus_set_unique_name (c, n))
    die ("set_unique_name");
  replies_free (&r);
  return c;
}

/* count signals named `member` (NameLost / NameAcquired) for NAME waiting on c, and drop them */
static int
count_signal (DBusConnection *c, const char *member)
{
  DBusMessage *m;
  int n = 0;
  /* the messages were popped by nobody yet: call_with_oom only pops on the caller */
  while ((m = pop (c)) != NULL)
    {
      const char *s = NULL;
      if (dbus_message_is_signal (m, DBUS_INTERFACE_DBUS, member) &&
          dbus_message_get_args (m, NULL, DBUS_TYPE_STRING, &s, DBUS_TYPE_INVALID) &&
          s && !strcmp (s, NAME))
        n++;
      dbus_message_unref (m);
    }
  return n;
}

enum { RC_OTHER = 20, RC_OOM_SAME = 21, RC_OOM_CHANGED = 22, RC_NOT_HIT = 23 };

/* runs in a forked child: rebuild queue A,B,C, send the request under test with
 * allocation #k failing (k == -1: control run), report, return an RC_* code */
static int
one_index (const char *sc, dbus_uint32_t a_flags, const char *expect_ok, int k, int only, int show)
{
  Replies r;
  const char *o;
  char before[256], after[256];
  int changed, a_lost, rc = RC_OTHER;

  release_all ();

  /* ---- set-up: queue A,B,C with A replaceable ---- */
  if (request_name (A, NAME, a_flags) != DBUS_REQUEST_NAME_REPLY_PRIMARY_OWNER) die ("setup A");
  if (request_name (B, NAME, 0) != DBUS_REQUEST_NAME_REPLY_IN_QUEUE) die ("setup B");
  if (request_name (C, NAME, 0) != DBUS_REQUEST_NAME_REPLY_IN_QUEUE) die ("setup C");

  queue (before, sizeof before);
  if (strcmp (before, "A,B,C") != 0) die ("setup: queue is not A,B,C");
  drain (A); drain (B); drain (C); drain (D);

  /* ---- the request under test ---- */
  if (only >= 0)
    fprintf (stderr, "==== request under test, failing allocation #%d ====\n", k);
  call_with_oom (C, driver_call_su ("RequestName", NAME, REPLACE), k, &r);
  if (only >= 0)
    fprintf (stderr, "==== end of request under test ====\n");
  o = replies_outcome (&r);
  a_lost = count_signal (A, "NameLost");
  queue (after, sizeof after);
  changed = strcmp (before, after) != 0;

  if (k == -1)
    {
      dbus_uint32_t code = 0;
      if (r.ret) dbus_message_get_args (r.ret, NULL, DBUS_TYPE_UINT32, &code, DBUS_TYPE_INVALID);
      printf ("# [%s] no fault: reply %s (code %u); queue %s -> %s; NameLost to A: %d  [expected after success: %s]\n",
              sc, o, code, before, after, a_lost, expect_ok);
      if (code != DBUS_REQUEST_NAME_REPLY_PRIMARY_OWNER || strcmp (after, expect_ok) != 0)
        die ("control run: the request did not take the replace branch, scenario broken");
    }
  else if (!r.oom_hit)
    rc = RC_NOT_HIT;
  else if (strcmp (o, DBUS_ERROR_NO_MEMORY) == 0)
    {
      if (changed)
        {
          rc = RC_OOM_CHANGED;
          if (verbose || only >= 0 || show)
            printf ("  fail alloc #%d: reply NoMemory, but ListQueuedOwners %s -> %s (NameLost to A: %d)\n",
                    k, before, after, a_lost);
        }
      else
        {
          rc = RC_OOM_SAME;
          if (verbose || only >= 0)
            printf ("  fail alloc #%d: reply NoMemory, state unchanged (%s)\n", k, after);
        }
    }
  else if (verbose || only >= 0)
    printf ("  fail alloc #%d: hit=%d reply %s, queue %s -> %s\n", k, r.oom_hit, o, before, after);

  replies_free (&r);
  return rc;
}

int
main (int argc, char **argv)
{
  const char *sc;
  int i, k, only = -1, done = 0, n_oom = 0, n_bad = 0, first_bad = -1, last_bad = -1;
  int lo_unch = -1, hi_unch = -1, n_crash = 0, first_crash = -1, last_crash = -1;
  char expect_ok[64];
  dbus_uint32_t a_flags;

  if (argc < 3) return 2;
  sc = argv[2];
  for (i = 3; i < argc; i++)
    {
      if (!strcmp (argv[i], "-v")) verbose = 1;
      else if (!strcmp (argv[i], "-k") && i + 1 < argc) only = atoi (argv[++i]);
    }
  if (!strcmp (sc, "swap"))
    { a_flags = ALLOW; strcpy (expect_ok, "C,A,B"); }
  else if (!strcmp (sc, "remove"))
    { a_flags = ALLOW | NOQUEUE; strcpy (expect_ok, "C,B"); }
  else
    return 2;

  setvbuf (stdout, NULL, _IONBF, 0);
  start_bus (argv[1], "valid-config-files/debug-allow-all.conf");
  A = named_client (); B = named_client (); C = named_client (); D = named_client ();

  for (k = -1; !done && k < 3000; k++)
    {
      pid_t pid;
      int st;

      if (only >= 0 && k >= 0 && k != only)
        continue;

      /* one child per index: the bus can abort (assertion) under some faults,
       * and every index starts from the same pristine parent state */
      fflush (NULL);
      pid = fork ();
      if (pid < 0) die ("fork");
      if (pid == 0)
        _exit (one_index (sc, a_flags, expect_ok, k, only, n_bad < 3));
      if (waitpid (pid, &st, 0) != pid) die ("waitpid");

      if (WIFSIGNALED (st))
        {
          n_crash++;
          if (first_crash < 0) first_crash = k;
          last_crash = k;
          if (verbose || n_crash <= 2 || only >= 0)
            printf ("  fail alloc #%d: bus process died with signal %d (%s)\n", k, WTERMSIG (st),
                    WTERMSIG (st) == SIGABRT ? "abort: assertion failure, see stderr" : "?");
          continue;
        }
      switch (WEXITSTATUS (st))
        {
        case RC_OTHER: break;
        case RC_OOM_SAME:
          n_oom++;
          if (lo_unch < 0) lo_unch = k;
          hi_unch = k;
          break;
        case RC_OOM_CHANGED:
          n_oom++; n_bad++;
          if (first_bad < 0) first_bad = k;
          last_bad = k;
          break;
        case RC_NOT_HIT: done = 1; break;
        default: return 2;
        }
      if (only >= 0 && k == only)
        break;
    }

  if (only >= 0)
    return n_bad ? 1 : 0;

  printf ("# [%s] swept failing allocation #0..#%d: %d NoMemory outcomes, %d of them with the state changed"
          " (#%d..#%d); NoMemory+unchanged: #%d..#%d; bus aborted: %d (#%d..#%d)\n",
          sc, k - 1, n_oom, n_bad, first_bad, last_bad, lo_unch, hi_unch, n_crash, first_crash, last_crash);
  if (n_bad)
    {
      printf ("RESULT[%s]: REPRODUCED - first at failing allocation #%d\n", sc, first_bad);
      return 1;
    }
  printf ("RESULT[%s]: not reproduced - state unchanged whenever NoMemory was reported\n", sc);
  return 0;
}
