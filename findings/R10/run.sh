#!/bin/sh
# usage: run.sh <cmake build dir>.  exit 1: defect reproduced, 0: not, 2: setup problem
# ARGS=-v prints one line per failing-allocation index.
# Runs both variants of the "Replace the current owner" branch:
#   swap   (old owner A queued with ALLOW_REPLACEMENT            -> bus_service_swap_owner)
#   remove (old owner A with ALLOW_REPLACEMENT|DO_NOT_QUEUE      -> bus_service_remove_owner)
HERE=$(cd "$(dirname "$0")" && pwd)
B=$(cd "$1" 2>/dev/null && pwd) || exit 2
. "$HERE/build.sh"
OUT=$(mktemp -d); trap 'rm -rf "$OUT"' EXIT
build_harness "$B" "$HERE/replace.c" "$OUT/replace" || exit 2
DBUS_DISABLE_MEM_POOLS=1; export DBUS_DISABLE_MEM_POOLS
final=0
for v in swap remove; do
  "$OUT/replace" "$B/test/data" $v $ARGS 2>"$OUT/stderr.log"
  rc=$?
  if [ $rc -ne 0 ] && [ $rc -ne 1 ]; then cat "$OUT/stderr.log" >&2; exit 2; fi
  grep -h "assertion failed" "$OUT/stderr.log" | sed "s/^dbus-daemon\[[0-9]*\]: //" | sort | uniq -c | sed 's/^/# stderr: /'
  [ $rc -eq 1 ] && final=1
done
exit $final
