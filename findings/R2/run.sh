#!/bin/sh
# usage: run.sh <cmake build dir>.  exit 1: defect reproduced, 0: not, 2: setup problem
# ARGS=-v prints one line per failing-allocation index.
HERE=$(cd "$(dirname "$0")" && pwd)
B=$(cd "$1" 2>/dev/null && pwd) || exit 2
. "$HERE/build.sh"
OUT=$(mktemp -d); trap 'rm -rf "$OUT"' EXIT
build_harness "$B" "$HERE/names.c" "$OUT/names" || exit 2
DBUS_DISABLE_MEM_POOLS=1; export DBUS_DISABLE_MEM_POOLS
"$OUT/names" "$B/test/data" R2 $ARGS 2>"$OUT/stderr.log"
rc=$?
if [ $rc -ne 0 ] && [ $rc -ne 1 ]; then cat "$OUT/stderr.log" >&2; exit 2; fi
exit $rc
