/* R7: RemoveMatch of a rule that does not exist -> two replies for one serial */
#include "harness.h"

int
main (int argc, char **argv)
{
  DBusConnection *c;
  Replies r;
  int bad = 0;

  if (argc < 2) return 2;
  setvbuf (stdout, NULL, _IONBF, 0);
  start_bus (argv[1], "valid-config-files/debug-allow-all.conf");
  c = add_client ();

  /* control: AddMatch + RemoveMatch of an existing rule: exactly one reply */
  call (c, driver_call_s ("AddMatch", "type='signal',member='Present'"), &r);
  printf ("AddMatch(existing-rule setup): returns=%d errors=%d\n", r.n_returns, r.n_errors);
  replies_free (&r);
  call (c, driver_call_s ("RemoveMatch", "type='signal',member='Present'"), &r);
  printf ("RemoveMatch(existing rule):    returns=%d errors=%d\n", r.n_returns, r.n_errors);
  if (r.n_returns != 1 || r.n_errors != 0) die ("control case misbehaves");
  replies_free (&r);

  /* the case under test */
  call (c, driver_call_s ("RemoveMatch", "type='signal',member='NeverAdded'"), &r);
  printf ("RemoveMatch(missing rule):     returns=%d errors=%d (error=%s)\n",
          r.n_returns, r.n_errors, r.err ? dbus_message_get_error_name (r.err) : "-");
  if (r.n_returns + r.n_errors != 1)
    bad = 1;
  replies_free (&r);

  if (bad)
    {
      printf ("RESULT: REPRODUCED - caller got both a method return and an error for one call\n");
      return 1;
    }
  printf ("RESULT: not reproduced - exactly one reply\n");
  return 0;
}
