/* names.c - OOM sweep over one RequestName / ReleaseName request whose state
 * change is (suspected to be) not rolled back when the request is answered
 * NoMemory.  Scenario chosen by argv[2]: R2 R3 R4 R5.
 *
 * Connections: A B C own/queue for NAME, D only observes (ListQueuedOwners).
 * The queue is rendered with letters, e.g. "A,B,C" (primary owner first). */
#include "harness.h"

#define NAME "com.example.ReplayName"
#define ALLOW   DBUS_NAME_FLAG_ALLOW_REPLACEMENT
#define REPLACE DBUS_NAME_FLAG_REPLACE_EXISTING
#define NOQUEUE DBUS_NAME_FLAG_DO_NOT_QUEUE

static DBusConnection *A, *B, *C, *D;

static const char *
queue (char *out, size_t len)
{
  char raw[512], *tok, *save;
  const char *ua = dbus_bus_get_unique_name (A);
  const char *ub = dbus_bus_get_unique_name (B);
  const char *uc = dbus_bus_get_unique_name (C);

  queued_owners (D, NAME, raw, sizeof raw);
  out[0] = 0;
  if (raw[0] == '<')
    {
      snprintf (out, len, "%s", strstr (raw, "NameHasNoOwner") ? "(none)" : raw);
      return out;
    }
  for (tok = strtok_r (raw, ",", &save); tok; tok = strtok_r (NULL, ",", &save))
    {
      const char *l = !strcmp (tok, ua) ? "A" : !strcmp (tok, ub) ? "B" :
                      !strcmp (tok, uc) ? "C" : tok;
      if (out[0]) strncat (out, ",", len - strlen (out) - 1);
      strncat (out, l, len - strlen (out) - 1);
    }
  return out;
}

static void
release_all (void)
{
  release_name (C, NAME);
  release_name (B, NAME);
  release_name (A, NAME);
  drain (A); drain (B); drain (C); drain (D);
}

static DBusConnection *
named_client (void)
{
  DBusConnection *c = open_client ();
  Replies r;
  const char *n = NULL;
  call (c, driver_call ("Hello"), &r);
  if (r.ret == NULL || !dbus_message_get_args (r.ret, NULL, DBUS_TYPE_STRING, &n, DBUS_TYPE_INVALID))
    die ("Hello failed");
  /* let libdbus remember the unique name, as dbus_bus_register() would */
  if (!dbus_bus_set_unique_name (c, n))
    die ("set_unique_name");
  replies_free (&r);
  return c;
}

int
main (int argc, char **argv)
{
  const char *sc;
  int k, done = 0, n_oom = 0, n_bad = 0, first_bad = -1;
  char before[256], after[256], expect_ok[64];

  if (argc < 3) return 2;
  sc = argv[2];
  verbose = argc > 3;
  setvbuf (stdout, NULL, _IONBF, 0);
  start_bus (argv[1], "valid-config-files/debug-allow-all.conf");
  A = named_client (); B = named_client (); C = named_client (); D = named_client ();

  for (k = -1; !done && k < 3000; k++)
    {
      Replies r;
      DBusConnection *who;
      DBusMessage *req;
      const char *o;
      int probe = 0, changed;

      release_all ();

      /* ---- set-up ---- */
      if (request_name (A, NAME, 0) != DBUS_REQUEST_NAME_REPLY_PRIMARY_OWNER) die ("setup A");
      if (!strcmp (sc, "R2"))
        {
          /* A owns NAME, not replaceable.  Request: A asks again with ALLOW_REPLACEMENT */
          who = A; req = driver_call_su ("RequestName", NAME, ALLOW);
          strcpy (expect_ok, "A (now replaceable)");
        }
      else if (!strcmp (sc, "R3"))
        {
          /* A owns, B queued.  Request: B asks again with DO_NOT_QUEUE -> EXISTS, B dequeued */
          if (request_name (B, NAME, 0) != DBUS_REQUEST_NAME_REPLY_IN_QUEUE) die ("setup B");
          who = B; req = driver_call_su ("RequestName", NAME, NOQUEUE);
          strcpy (expect_ok, "A");
        }
      else if (!strcmp (sc, "R4"))
        {
          /* A owns, B and C queued.  Request: C asks again with REPLACE_EXISTING
           * (A not replaceable) -> IN_QUEUE, C moved to 2nd position */
          if (request_name (B, NAME, 0) != DBUS_REQUEST_NAME_REPLY_IN_QUEUE) die ("setup B");
          if (request_name (C, NAME, 0) != DBUS_REQUEST_NAME_REPLY_IN_QUEUE) die ("setup C");
          who = C; req = driver_call_su ("RequestName", NAME, REPLACE);
          strcpy (expect_ok, "A,C,B");
        }
      else if (!strcmp (sc, "R5"))
        {
          /* A owns, B queued.  Request: B ReleaseName -> RELEASED, B dequeued */
          if (request_name (B, NAME, 0) != DBUS_REQUEST_NAME_REPLY_IN_QUEUE) die ("setup B");
          who = B; req = driver_call_s ("ReleaseName", NAME);
          strcpy (expect_ok, "A");
        }
      else
        return 2;

      queue (before, sizeof before);
      drain (A); drain (B); drain (C); drain (D);

      /* ---- the request under test ---- */
      call_with_oom (who, req, k, &r);
      if (k >= 0 && !r.oom_hit)
        done = 1;
      o = replies_outcome (&r);
      queue (after, sizeof after);

      if (!strcmp (sc, "R2"))
        {
          /* is A's ownership replaceable now?  B tries to take the name over. */
          probe = request_name (B, NAME, REPLACE | NOQUEUE);
          changed = (probe == DBUS_REQUEST_NAME_REPLY_PRIMARY_OWNER);
        }
      else
        changed = strcmp (before, after) != 0;

      if (k == -1)
        {
          dbus_uint32_t code = 0;
          if (r.ret) dbus_message_get_args (r.ret, NULL, DBUS_TYPE_UINT32, &code, DBUS_TYPE_INVALID);
          printf ("# no fault: reply %s (code %u); queue %s -> %s%s  [expected after success: %s]\n",
                  o, code, before, after,
                  !strcmp (sc, "R2") ? (changed ? "; B's REPLACE_EXISTING probe took the name"
                                                : "; B's REPLACE_EXISTING probe got EXISTS") : "",
                  expect_ok);
          if (!changed) die ("control run: the request has no observable effect, scenario broken");
          if (!strcmp (sc, "R2"))
            {
              /* second control: without A's re-request the probe must be refused */
              release_all ();
              request_name (A, NAME, 0);
              if (request_name (B, NAME, REPLACE | NOQUEUE) != DBUS_REQUEST_NAME_REPLY_EXISTS)
                die ("control run: probe not refused for a non-replaceable owner");
              printf ("# control: without A's second RequestName, B's probe gets EXISTS\n");
            }
        }
      else if (strcmp (o, DBUS_ERROR_NO_MEMORY) == 0)
        {
          n_oom++;
          if (changed)
            {
              n_bad++;
              if (first_bad < 0) first_bad = k;
              if (verbose || n_bad <= 5)
                {
                  if (!strcmp (sc, "R2"))
                    printf ("  fail alloc #%d: reply NoMemory, but B's RequestName(REPLACE_EXISTING|DO_NOT_QUEUE) "
                            "now returns %d (PRIMARY_OWNER): A's ALLOW_REPLACEMENT flag was set\n", k, probe);
                  else
                    printf ("  fail alloc #%d: reply NoMemory, but ListQueuedOwners %s -> %s\n",
                            k, before, after);
                }
            }
          else if (verbose)
            printf ("  fail alloc #%d: reply NoMemory, state unchanged (%s)\n", k, after);
        }
      else if (verbose)
        printf ("  fail alloc #%d: hit=%d reply %s, queue %s -> %s\n", k, r.oom_hit, o, before, after);

      replies_free (&r);
    }

  printf ("# swept failing allocation #0..#%d: %d NoMemory outcomes, %d of them with the state changed\n",
          k - 1, n_oom, n_bad);
  if (n_bad)
    {
      printf ("RESULT: REPRODUCED - first at failing allocation #%d\n", first_bad);
      return 1;
    }
  printf ("RESULT: not reproduced - state unchanged whenever NoMemory was reported\n");
  return 0;
}
