#include <dbus/dbus.h>
#include <stdio.h>
#include <stdlib.h>
#include <string.h>
static void rev(unsigned char*p){unsigned char t=p[0];p[0]=p[3];p[3]=t;t=p[1];p[1]=p[2];p[2]=t;}
int main(int argc,char**argv){
  int n = DBUS_MAXIMUM_ARRAY_LENGTH - (argc>1?atoi(argv[1]):0);
  DBusMessage*m=dbus_message_new(DBUS_MESSAGE_TYPE_METHOD_RETURN); /* only u fields */
  unsigned char*d=calloc(n,1); const unsigned char*dp=d; char*b;int len; DBusError e=DBUS_ERROR_INIT; DBusMessageIter it;
  dbus_message_set_reply_serial(m,7); dbus_message_set_serial(m,9);
  dbus_message_append_args(m,DBUS_TYPE_ARRAY,DBUS_TYPE_BYTE,&dp,n,DBUS_TYPE_INVALID);
  dbus_message_marshal(m,&b,&len);
  unsigned char*u=(unsigned char*)b; unsigned fl = u[12]|u[13]<<8|u[14]<<16|(unsigned)u[15]<<24;
  /* fields: REPLY_SERIAL(u) and SIGNATURE(g) only */
  u[0]='B'; rev(u+4);rev(u+8);rev(u+12);
  size_t pos=16; while(pos<16+fl){pos=(pos+7)&~7; pos+=1; char t=u[pos+1]; pos+=3; if(t=='u'){pos=(pos+3)&~3; rev(u+pos); pos+=4;} else if(t=='g'){pos+=u[pos]+2;} else {fprintf(stderr,"unexpected %c\n",t);return 2;}}
  size_t body=(16+fl+7)&~7; rev(u+body);
  DBusMessage*f=dbus_message_demarshal(b,len,&e);
  if(!f){fprintf(stderr,"demarshal failed: %s\n",e.message);return 1;}
  fprintf(stderr,"demarshal ok, iterating (byteswap)\n");
  dbus_message_iter_init(f,&it);
  fprintf(stderr,"iter ok type=%c\n",dbus_message_iter_get_arg_type(&it));
  return 0;}
