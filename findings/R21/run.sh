#!/bin/sh
# exit 0: a foreign-byte-order message with an 'ay' of exactly DBUS_MAXIMUM_ARRAY_LENGTH bytes can be iterated; 1: aborts
b=${1:-/repo/_build}; here=$(cd "$(dirname "$0")" && pwd); src=$(sed -n 's/^CMAKE_HOME_DIRECTORY:INTERNAL=//p' "$b/CMakeCache.txt")
out=$(mktemp -d /tmp/R21.XXXXXX); trap 'rm -rf "$out"' EXIT
cc -g -O1 -I"$src" -I"$b" "$here/r21.c" -o "$out/demo" -L"$b/lib" -ldbus-1 -Wl,-rpath,"$b/lib" || exit 2
"$out/demo" 0 2>&1 | tail -3; rc=$?
"$out/demo" 0 >/dev/null 2>&1 && echo "exactly 2^26 bytes: iterated" || { echo "exactly 2^26 bytes: ABORTED / failed"; exit 1; }
