/*
 * R24 replay (derived from a sub-agent's C14 demonstration): a bus request that fails with NoMemory must leave
 * name ownership and the queue of waiting owners exactly as they were,
 * and must not have emitted any signal.
 *
 * An in-process bus (same harness as bus/dispatch.c: BusContext listening
 * on a debug-pipe, clients driven by bus/test.c helpers) is brought into
 * the state
 *
 *        name N:   queue = [ A (primary), B (waiting) [, C (waiting)] ]
 *
 * Then one client sends ReleaseName(N) and, while the bus (and only the
 * bus) processes it, the k-th memory allocation is made to fail, for
 * k = 0, 1, 2, ... until the request runs through without reaching the
 * failing allocation.  For every k:
 *
 *   - the caller must get either a method return or a NoMemory error;
 *   - on NoMemory: ListQueuedOwners / GetNameOwner seen by an unrelated
 *     observer must be exactly what they were, nobody must have received
 *     NameLost / NameAcquired / NameOwnerChanged, and the same request
 *     retried with memory available must succeed with the full effects;
 *   - on success: all effects must be there.
 */
#include <config.h>

#include <stdio.h>
#include <stdlib.h>
#include <string.h>
#include <stdarg.h>
#include <unistd.h>
#include <sys/types.h>
#include <sys/wait.h>

#include <dbus/dbus.h>
#include <dbus/dbus-internals.h>
#include <dbus/dbus-string.h>
#include <dbus/dbus-mainloop.h>
#include "bus/bus.h"
#include "bus/test.h"

#define NAME "org.example.C14.Name"

static BusContext *context;
static int violations = 0;

typedef struct
{
  const char *label;
  DBusConnection *conn;
  char *unique;
  /* log of name-related signals seen since the last clear */
  char log[16][160];
  int n_log;
} Client;

static Client A = { "A" }, B = { "B" }, C = { "C" }, O = { "O" };
static Client *all_clients[] = { &A, &B, &C, &O, NULL };

static void
die (const char *fmt, ...)
{
  va_list ap;
  va_start (ap, fmt);
  fprintf (stdout, "SETUP PROBLEM: ");
  vfprintf (stdout, fmt, ap);
  fprintf (stdout, "\n");
  va_end (ap);
  exit (2);
}

static void
violation (const char *fmt, ...)
{
  va_list ap;
  va_start (ap, fmt);
  fprintf (stdout, "  VIOLATION: ");
  vfprintf (stdout, fmt, ap);
  fprintf (stdout, "\n");
  va_end (ap);
  violations++;
}

static void
pump (void)
{
  int i;
  for (i = 0; i < 4; i++)
    {
      bus_test_run_bus_loop (context, FALSE);
      bus_test_run_clients_loop (FALSE);
    }
}

/* Drain the incoming queue of a client.  Returns the reply to `serial`
 * (if it is there), logs NameLost/NameAcquired/NameOwnerChanged. */
static DBusMessage *
drain (Client *c, dbus_uint32_t serial)
{
  DBusMessage *m;
  DBusMessage *reply = NULL;

  while ((m = dbus_connection_pop_message (c->conn)) != NULL)
    {
      int type = dbus_message_get_type (m);

      if ((type == DBUS_MESSAGE_TYPE_METHOD_RETURN ||
           type == DBUS_MESSAGE_TYPE_ERROR) &&
          serial != 0 && dbus_message_get_reply_serial (m) == serial)
        {
          reply = m;
          continue;
        }

      if (type == DBUS_MESSAGE_TYPE_SIGNAL &&
          dbus_message_has_interface (m, DBUS_INTERFACE_DBUS))
        {
          const char *a0 = "", *a1 = "", *a2 = "";
          const char *member = dbus_message_get_member (m);

          if (strcmp (member, "NameOwnerChanged") == 0)
            dbus_message_get_args (m, NULL, DBUS_TYPE_STRING, &a0,
                                   DBUS_TYPE_STRING, &a1,
                                   DBUS_TYPE_STRING, &a2, DBUS_TYPE_INVALID);
          else
            dbus_message_get_args (m, NULL, DBUS_TYPE_STRING, &a0,
                                   DBUS_TYPE_INVALID);

          if (strcmp (a0, NAME) == 0 && c->n_log < 16)
            snprintf (c->log[c->n_log++], sizeof (c->log[0]), "%s(%s,%s,%s)",
                      member, a0, a1, a2);
        }
      dbus_message_unref (m);
    }
  return reply;
}

static void
drain_all (void)
{
  int i;
  for (i = 0; all_clients[i]; i++)
    if (all_clients[i]->conn != NULL)
      {
        DBusMessage *m = drain (all_clients[i], 0);
        if (m)
          dbus_message_unref (m);
      }
}

static void
clear_logs (void)
{
  int i;

  drain_all ();
  for (i = 0; all_clients[i]; i++)
    all_clients[i]->n_log = 0;
}

/* Plain call without fault injection. */
static DBusMessage *
call (Client *c, DBusMessage *m)
{
  dbus_uint32_t serial;
  DBusMessage *reply = NULL;
  int tries;

  if (!dbus_connection_send (c->conn, m, &serial))
    die ("no memory sending");
  dbus_message_unref (m);

  for (tries = 0; tries < 100 && reply == NULL; tries++)
    {
      pump ();
      reply = drain (c, serial);
    }
  if (reply == NULL)
    die ("no reply from the bus to %s", c->label);
  return reply;
}

static DBusMessage *
bus_method (const char *member)
{
  DBusMessage *m = dbus_message_new_method_call (DBUS_SERVICE_DBUS, DBUS_PATH_DBUS,
                                                 DBUS_INTERFACE_DBUS, member);
  if (m == NULL)
    die ("no memory");
  return m;
}

static void
client_connect (Client *c, const char *address)
{
  DBusError error = DBUS_ERROR_INIT;
  DBusMessage *reply;
  const char *name;

  c->conn = dbus_connection_open_private (address, &error);
  if (c->conn == NULL)
    die ("cannot connect %s: %s", c->label, error.message);
  if (!bus_setup_debug_client (c->conn))
    die ("no memory");

  reply = call (c, bus_method ("Hello"));
  if (!dbus_message_get_args (reply, &error, DBUS_TYPE_STRING, &name, DBUS_TYPE_INVALID))
    die ("Hello failed for %s: %s", c->label, error.message);
  c->unique = strdup (name);
  dbus_message_unref (reply);
}

static dbus_uint32_t
request_name (Client *c, dbus_uint32_t flags)
{
  DBusMessage *m = bus_method ("RequestName");
  DBusMessage *reply;
  const char *n = NAME;
  dbus_uint32_t result = 0;

  dbus_message_append_args (m, DBUS_TYPE_STRING, &n, DBUS_TYPE_UINT32, &flags,
                            DBUS_TYPE_INVALID);
  reply = call (c, m);
  if (!dbus_message_get_args (reply, NULL, DBUS_TYPE_UINT32, &result, DBUS_TYPE_INVALID))
    die ("RequestName by %s failed: %s", c->label, dbus_message_get_error_name (reply));
  dbus_message_unref (reply);
  return result;
}

static dbus_uint32_t
release_name (Client *c)
{
  DBusMessage *m = bus_method ("ReleaseName");
  DBusMessage *reply;
  const char *n = NAME;
  dbus_uint32_t result = 0;

  dbus_message_append_args (m, DBUS_TYPE_STRING, &n, DBUS_TYPE_INVALID);
  reply = call (c, m);
  if (!dbus_message_get_args (reply, NULL, DBUS_TYPE_UINT32, &result, DBUS_TYPE_INVALID))
    die ("ReleaseName by %s failed: %s", c->label, dbus_message_get_error_name (reply));
  dbus_message_unref (reply);
  return result;
}

static const char *
label_of (const char *unique)
{
  int i;
  for (i = 0; all_clients[i]; i++)
    if (all_clients[i]->unique && strcmp (all_clients[i]->unique, unique) == 0)
      return all_clients[i]->label;
  return unique;
}

/* The queue of NAME as seen by the observer, e.g. "A,B,C"; plus the
 * primary owner according to GetNameOwner after a '/'.  "-" if nobody. */
static void
observe (char *buf, size_t len)
{
  DBusMessage *m, *reply;
  const char *n = NAME;
  char **owners = NULL;
  int n_owners = 0, i;
  const char *primary = NULL;

  buf[0] = '\0';

  m = bus_method ("ListQueuedOwners");
  dbus_message_append_args (m, DBUS_TYPE_STRING, &n, DBUS_TYPE_INVALID);
  reply = call (&O, m);
  if (dbus_message_get_type (reply) == DBUS_MESSAGE_TYPE_ERROR)
    snprintf (buf, len, "-");
  else
    {
      if (!dbus_message_get_args (reply, NULL, DBUS_TYPE_ARRAY, DBUS_TYPE_STRING,
                                  &owners, &n_owners, DBUS_TYPE_INVALID))
        die ("bad ListQueuedOwners reply");
      for (i = 0; i < n_owners; i++)
        {
          if (i)
            strncat (buf, ",", len - strlen (buf) - 1);
          strncat (buf, label_of (owners[i]), len - strlen (buf) - 1);
        }
      dbus_free_string_array (owners);
    }
  dbus_message_unref (reply);

  m = bus_method ("GetNameOwner");
  dbus_message_append_args (m, DBUS_TYPE_STRING, &n, DBUS_TYPE_INVALID);
  reply = call (&O, m);
  strncat (buf, " / primary=", len - strlen (buf) - 1);
  if (dbus_message_get_type (reply) == DBUS_MESSAGE_TYPE_ERROR)
    strncat (buf, "-", len - strlen (buf) - 1);
  else
    {
      dbus_message_get_args (reply, NULL, DBUS_TYPE_STRING, &primary, DBUS_TYPE_INVALID);
      strncat (buf, label_of (primary), len - strlen (buf) - 1);
    }
  dbus_message_unref (reply);
}

static int
total_signals (void)
{
  int i, n = 0;
  for (i = 0; all_clients[i]; i++)
    n += all_clients[i]->n_log;
  return n;
}

static void
print_signals (void)
{
  int i, j;
  for (i = 0; all_clients[i]; i++)
    for (j = 0; j < all_clients[i]->n_log; j++)
      printf ("      %s received %s\n", all_clients[i]->label, all_clients[i]->log[j]);
}

/* Bring NAME to queue = owners[0], owners[1], ... in that order */
static void
setup_queue (Client **owners)
{
  int i;
  char seen[256], want[256] = "";

  /* everybody lets go first (ignore the result) */
  release_name (&C);
  release_name (&B);
  release_name (&A);

  for (i = 0; owners[i]; i++)
    {
      dbus_uint32_t r = request_name (owners[i], 0);
      if (r != (i == 0 ? DBUS_REQUEST_NAME_REPLY_PRIMARY_OWNER
                       : DBUS_REQUEST_NAME_REPLY_IN_QUEUE))
        die ("unexpected RequestName result %u for %s", r, owners[i]->label);
      if (i)
        strcat (want, ",");
      strcat (want, owners[i]->label);
    }
  strcat (want, " / primary=");
  strcat (want, owners[0]->label);

  observe (seen, sizeof seen);
  if (strcmp (seen, want) != 0)
    die ("could not establish start state: want [%s] have [%s]", want, seen);

  pump ();
  clear_logs ();
}

/* exit codes of the per-k child process */
#define RC_NOT_REACHED   0   /* request completed before reaching allocation #k */
#define RC_OK_SUCCESS   10   /* allocation #k failed, request still succeeded, effects ok */
#define RC_OK_NOMEM     11   /* allocation #k failed, NoMemory reply, nothing changed */
#define RC_VIOLATION    20

/*
 * One experiment, run in a fresh process with a fresh bus: with queue
 * `owners`, `who` sends ReleaseName and the k-th allocation made by the bus
 * while handling it fails.
 */
static int
run_one (const char *config_file, const char *address,
         Client **owners, Client *who, const char *expect_after, int k)
{
  DBusString config;
  DBusError error = DBUS_ERROR_INIT;
  DBusMessage *m, *reply = NULL;
  const char *rule = "type='signal',interface='org.freedesktop.DBus',"
                     "member='NameOwnerChanged'";
  char before[256], after[256];
  dbus_uint32_t serial;
  const char *n = NAME;
  dbus_bool_t fired;
  int tries;

  _dbus_string_init_const (&config, config_file);
  context = bus_context_new (&config, BUS_CONTEXT_FLAG_NONE, NULL, NULL, NULL, &error);
  if (context == NULL)
    die ("cannot create bus: %s", error.message);

  client_connect (&A, address);
  client_connect (&B, address);
  client_connect (&C, address);
  client_connect (&O, address);

  /* the observer wants to see every NameOwnerChanged */
  m = bus_method ("AddMatch");
  dbus_message_append_args (m, DBUS_TYPE_STRING, &rule, DBUS_TYPE_INVALID);
  reply = call (&O, m);
  if (dbus_message_get_type (reply) == DBUS_MESSAGE_TYPE_ERROR)
    die ("AddMatch failed");
  dbus_message_unref (reply);
  reply = NULL;

  setup_queue (owners);
  observe (before, sizeof before);
  clear_logs ();

  m = bus_method ("ReleaseName");
  dbus_message_append_args (m, DBUS_TYPE_STRING, &n, DBUS_TYPE_INVALID);
  if (!dbus_connection_send (who->conn, m, &serial))
    die ("no memory");
  dbus_message_unref (m);

  /* push the bytes out of the client, without any fault */
  bus_test_run_clients_loop (FALSE);

  /* now let only the bus run, with its k-th allocation failing */
  _dbus_set_fail_alloc_counter (k);
  bus_test_run_bus_loop (context, FALSE);
  /* when the failure fires the counter is re-armed to INT_MAX (and then
   * keeps counting down from there); otherwise it is still <= k */
  fired = (_dbus_get_fail_alloc_counter () > k);
  _dbus_set_fail_alloc_counter (_DBUS_INT_MAX);

  /* memory is back: let everything settle and collect the outcome */
  for (tries = 0; tries < 100 && reply == NULL; tries++)
    {
      pump ();
      reply = drain (who, serial);
    }
  pump ();
  drain_all ();

  if (reply == NULL)
    {
      violation ("[k=%d] caller got neither a reply nor an error", k);
      return RC_VIOLATION;
    }

  observe (after, sizeof after);

  if (dbus_message_get_type (reply) == DBUS_MESSAGE_TYPE_ERROR)
    {
      if (!dbus_message_is_error (reply, DBUS_ERROR_NO_MEMORY))
        die ("[k=%d] unexpected error %s", k, dbus_message_get_error_name (reply));

      /* nothing may have happened */
      if (strcmp (before, after) != 0)
        violation ("[k=%d] ReleaseName by %s was answered with NoMemory but the "
                   "queue changed:  before [%s]  after [%s]",
                   k, who->label, before, after);
      if (total_signals () != 0)
        {
          violation ("[k=%d] ReleaseName by %s was answered with NoMemory but "
                     "signals were delivered:", k, who->label);
          print_signals ();
        }
      if (violations)
        return RC_VIOLATION;

      if (k % 2)
        {
          /* R24, second form: the caller goes away instead of retrying; its place in the queue must go with it and
           * the bus must survive */
          char want[256];
          const char *slash = strchr (expect_after, '/');
          (void) slash;
          dbus_message_unref (reply);
          dbus_connection_close (who->conn);
          for (tries = 0; tries < 20; tries++)
            pump ();
          who->conn = NULL;
          snprintf (want, sizeof want, "%s", expect_after);
          observe (after, sizeof after);
          if (strcmp (after, want) != 0)
            {
              violation ("[k=%d] after NoMemory and the caller's disconnect the queue is [%s], expected [%s]", k, after, want);
              return RC_VIOLATION;
            }
          return RC_OK_NOMEM;
        }

      /* R24: the same request, retried with memory available, must succeed with its full effects */
      dbus_message_unref (reply);
      reply = NULL;
      m = bus_method ("ReleaseName");
      dbus_message_append_args (m, DBUS_TYPE_STRING, &n, DBUS_TYPE_INVALID);
      if (!dbus_connection_send (who->conn, m, &serial))
        die ("no memory");
      dbus_message_unref (m);
      for (tries = 0; tries < 100 && reply == NULL; tries++)
        {
          pump ();
          reply = drain (who, serial);
        }
      pump ();
      drain_all ();
      if (reply == NULL)
        {
          violation ("[k=%d] the retried ReleaseName got no answer", k);
          return RC_VIOLATION;
        }
      observe (after, sizeof after);
      if (dbus_message_get_type (reply) == DBUS_MESSAGE_TYPE_ERROR || strcmp (after, expect_after) != 0)
        {
          violation ("[k=%d] after NoMemory the retried ReleaseName gave %s and the queue [%s], expected [%s]", k,
                     dbus_message_get_type (reply) == DBUS_MESSAGE_TYPE_ERROR ? dbus_message_get_error_name (reply) : "a reply",
                     after, expect_after);
          return RC_VIOLATION;
        }
      return RC_OK_NOMEM;
    }
  else
    {
      dbus_uint32_t result = 0;

      dbus_message_get_args (reply, NULL, DBUS_TYPE_UINT32, &result, DBUS_TYPE_INVALID);
      if (result != DBUS_RELEASE_NAME_REPLY_RELEASED)
        violation ("[k=%d] ReleaseName result %u", k, result);
      if (strcmp (after, expect_after) != 0)
        violation ("[k=%d] ReleaseName succeeded but the queue is [%s], "
                   "expected [%s]", k, after, expect_after);
      if (violations)
        return RC_VIOLATION;
      return fired ? RC_OK_SUCCESS : RC_NOT_REACHED;
    }
}

typedef struct
{
  const char *title;
  Client *owners[4];
  Client *who;
  const char *expect_after;
} Scenario;

static Scenario scenarios[] = {
  { "1. queue [A,B], the primary owner A releases the name",
    { &A, &B, NULL }, &A, "B / primary=B" },
  { "2. queue [A,B,C], the primary owner A releases the name",
    { &A, &B, &C, NULL }, &A, "B,C / primary=B" },
  /* (A waiting, i.e. non-primary, owner leaving the queue is deliberately not
   * exercised here: this demonstration is only about the primary owner.) */
};

int
main (int argc, char **argv)
{
  unsigned i;
  int bad = 0;

  setvbuf (stdout, NULL, _IONBF, 0);
  if (argc != 3)
    die ("usage: demo <config-file> <bus-address>");

  /* Every (scenario, k) runs in its own process with its own bus, so that
   * whatever one experiment does to the bus cannot influence the next. */
  for (i = 0; i < sizeof scenarios / sizeof scenarios[0]; i++)
    {
      Scenario *s = &scenarios[i];
      int k, n_fired = 0, n_nomem = 0, n_bad = 0;

      printf ("%s\n", s->title);
      for (k = 0; k < 2000; k++)
        {
          pid_t pid = fork ();
          int status;

          if (pid < 0)
            die ("fork");
          if (pid == 0)
            _exit (run_one (argv[1], argv[2], s->owners, s->who, s->expect_after, k));

          if (waitpid (pid, &status, 0) != pid)
            die ("waitpid");
          if (!WIFEXITED (status))
            {
              printf ("  VIOLATION: [k=%d] the bus crashed (signal %d)\n", k,
                      WIFSIGNALED (status) ? WTERMSIG (status) : -1);
              n_bad++;
              n_fired++;
              continue;
            }
          switch (WEXITSTATUS (status))
            {
            case RC_NOT_REACHED: goto done;
            case RC_OK_SUCCESS:  n_fired++; break;
            case RC_OK_NOMEM:    n_fired++; n_nomem++; break;
            case RC_VIOLATION:   n_fired++; n_bad++; break;
            default:             exit (2);
            }
        }
    done:
      printf ("  %d failing allocation points exercised, %d answered with NoMemory, "
              "%d violating the property\n", n_fired, n_nomem + n_bad, n_bad);
      bad += n_bad;
    }

  if (bad)
    {
      printf ("FAIL: %d violation(s) of C14 (a request answered with NoMemory "
              "must leave name ownership and queues unchanged)\n", bad);
      return 1;
    }
  printf ("PASS: every ReleaseName that was answered with NoMemory left names, "
          "queues and signals untouched\n");
  return 0;
}
