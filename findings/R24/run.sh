#!/bin/sh
# usage: run.sh <built tree>
#   <built tree> is either the cmake build directory (contains lib/ and
#   CMakeCache.txt, configured with DBUS_ENABLE_EMBEDDED_TESTS=ON) or a source
#   checkout that has it in ./_build
# exit 0: property holds; non-zero: property violated (or setup problem)
set -e
here=$(cd "$(dirname "$0")" && pwd)
tree=${1:?usage: run.sh <built tree>}
tree=$(cd "$tree" && pwd)

if [ -f "$tree/lib/libdbus-daemon-internal.a" ]; then
    build=$tree
elif [ -f "$tree/_build/lib/libdbus-daemon-internal.a" ]; then
    build=$tree/_build
else
    echo "cannot find lib/libdbus-daemon-internal.a under $tree" >&2
    exit 2
fi
src=$(sed -n 's/^CMAKE_HOME_DIRECTORY:INTERNAL=//p' "$build/CMakeCache.txt")
[ -d "$src/bus" ] || src=$(dirname "$build")

out=$(mktemp -d)
trap 'rm -rf "$out"' EXIT

# same compile/link line as the project's own bin/test-bus-dispatch
cc -g -O1 -Wall -DDBUS_COMPILATION -DHAVE_CONFIG_H -D_GNU_SOURCE \
   -I"$src" -I"$build" \
   -o "$out/demo" "$here/replay.c" \
   -rdynamic -Wl,-rpath,"$build/lib" \
   "$build/lib/libdbus-daemon-internal.a" "$build/lib/libdbus-testutils.a" -lexpat \
   "$build/lib/libdbus-internal.a" "$build/lib/libdbus-1.so" \
   $(pkg-config --libs libsystemd 2>/dev/null || true) -lrt -lpthread

cat > "$out/bus.conf" <<CONF
<!DOCTYPE busconfig PUBLIC "-//freedesktop//DTD D-BUS Bus Configuration 1.0//EN"
 "http://www.freedesktop.org/standards/dbus/1.0/busconfig.dtd">
<busconfig>
  <listen>debug-pipe:name=c14-demo-$$</listen>
  <policy context="default">
    <allow send_interface="*"/>
    <allow receive_interface="*"/>
    <allow own="*"/>
    <allow user="*"/>
  </policy>
</busconfig>
CONF

unset DBUS_MALLOC_FAIL_NTH DBUS_MALLOC_FAIL_GREATER_THAN DBUS_MALLOC_GUARDS \
      DBUS_DISABLE_MEM_POOLS DBUS_MALLOC_BACKTRACES DBUS_TEST_MALLOC_FAILURES \
      DBUS_VERBOSE
# the bus logs one "transaction failed (OOM)" line per injected failure: keep
# stderr out of the way unless something unexpected happens
rc=0
"$out/demo" "$out/bus.conf" "debug-pipe:name=c14-demo-$$" 2> "$out/stderr.log" || rc=$?
if [ $rc -ne 0 ] && [ $rc -ne 1 ]; then
    grep -v "transaction failed (OOM)" "$out/stderr.log" | tail -40 >&2
fi
exit $rc
