/* R6: dbus_message_iter_append_basic(UNIX_FD) returning FALSE with the message
 * modified.  Links against libdbus-1.so only (embedded-tests build exports
 * the fault-injection hooks and _dbus_header_* as LIBDBUS_PRIVATE symbols);
 * peeks at the DBusMessage struct through dbus-message-private.h.
 *
 * The header DBusString normally has spare capacity, so setting the UNIX_FDS
 * header field allocates nothing.  To reach an allocation inside
 * _dbus_header_set_field_basic(UNIX_FDS) the member name length is swept so
 * that for some lengths the header string is exactly full.
 *
 * Classification of a FALSE return with the message changed:
 *   site=UNIX_FDS  : n_unix_fds incremented, body grew, but the header has no
 *                    (or a stale) UNIX_FDS field -> the failure was in
 *                    _dbus_header_set_field_basic(UNIX_FDS)      [candidate R6]
 *   site=SIGNATURE : UNIX_FDS field was written, the failure came later from
 *                    _dbus_message_iter_close_signature           [same effect]
 */
#include <config.h>
#include <stdio.h>
#include <stdlib.h>
#include <string.h>
#include <unistd.h>
#include <fcntl.h>
#include <dirent.h>
#include <dbus/dbus.h>
#include <dbus/dbus-internals.h>
#include <dbus/dbus-message-private.h>

static int verbose;

static int
count_open_fds (void)
{
  int n = 0;
  DIR *d = opendir ("/proc/self/fd");
  struct dirent *e;
  if (!d) return -1;
  while ((e = readdir (d)) != NULL)
    if (e->d_name[0] != '.') n++;
  closedir (d);
  return n - 1; /* the DIR's own fd */
}

static int n_site_unixfds, n_site_signature;
static DBusMessage *keep[20000];
static int n_keep;
static int first_len = -1, first_k = -1;

static void
sweep (int member_len)
{
  int k;
  int fd = open ("/dev/null", O_RDONLY);
  char member[300];

  memset (member, 'M', member_len); member[member_len] = 0;

  for (k = 0; k < 40; k++)
    {
      DBusMessage *m;
      DBusMessageIter it;
      int body0, body1, nfd0, nfd1, fds0, fds1, hit, have_field;
      dbus_uint32_t field = 0;
      dbus_bool_t ok;
      char sig1[64];

      m = dbus_message_new_method_call ("com.example.X", "/x", "com.example.X", member);
      if (m == NULL) exit (2);
      dbus_message_iter_init_append (m, &it);

      body0 = _dbus_string_get_length (&m->body);
      nfd0 = m->n_unix_fds;
      fds0 = count_open_fds ();

      _dbus_set_fail_alloc_failures (1);
      _dbus_set_fail_alloc_counter (k);
      ok = dbus_message_iter_append_basic (&it, DBUS_TYPE_UNIX_FD, &fd);
      hit = _dbus_get_fail_alloc_counter () > k;
      _dbus_set_fail_alloc_counter (_DBUS_INT_MAX);

      body1 = _dbus_string_get_length (&m->body);
      nfd1 = m->n_unix_fds;
      fds1 = count_open_fds ();
      have_field = _dbus_header_get_field_basic (&m->header, DBUS_HEADER_FIELD_UNIX_FDS,
                                                 DBUS_TYPE_UINT32, &field);
      snprintf (sig1, sizeof sig1, "%s", dbus_message_get_signature (m));

      if (!ok && (body1 != body0 || nfd1 != nfd0))
        {
          const char *site;
          if (!have_field || (int) field != nfd1)
            { site = "UNIX_FDS"; n_site_unixfds++;
              if (first_len < 0) { first_len = member_len; first_k = k; } }
          else
            { site = "SIGNATURE"; n_site_signature++; }

          if (verbose || (strcmp (site, "UNIX_FDS") == 0 && n_site_unixfds <= 4))
            printf ("  member_len=%d fail alloc #%d: returned FALSE; body %d->%d, n_unix_fds %d->%d, "
                    "dbus_message_contains_unix_fds=%d, UNIX_FDS header field %s (value %u), "
                    "signature now '%s', open fds %d->%d  [site=%s]\n",
                    member_len, k, body0, body1, nfd0, nfd1,
                    dbus_message_contains_unix_fds (m),
                    have_field ? "present" : "ABSENT", field, sig1, fds0, fds1, site);
        }
      else if (verbose)
        printf ("  member_len=%d fail alloc #%d: hit=%d returned %s; body %d->%d, n_unix_fds %d->%d\n",
                member_len, k, hit, ok ? "TRUE" : "FALSE", body0, body1, nfd0, nfd1);

      /* deliberately NOT unref'd here: a freed message goes to libdbus's
       * message cache and would be reused with its (large) header capacity */
      keep[n_keep++] = m;
      if (!hit)
        break;
    }
  close (fd);
}

int
main (int argc, char **argv)
{
  int len;
  setvbuf (stdout, NULL, _IONBF, 0);
  verbose = argc > 1;
  for (len = 1; len <= 16; len++)
    sweep (len);
  while (n_keep > 0) dbus_message_unref (keep[--n_keep]);
  printf ("# FALSE-with-message-changed outcomes: %d with the failure in "
          "_dbus_header_set_field_basic(UNIX_FDS), %d with the failure in "
          "_dbus_message_iter_close_signature\n", n_site_unixfds, n_site_signature);
  if (n_site_unixfds)
    {
      printf ("RESULT: REPRODUCED - first at member_len=%d, failing allocation #%d\n",
              first_len, first_k);
      return 1;
    }
  printf ("RESULT: not reproduced (candidate site never failed)\n");
  return 0;
}
