/* R18 (C16/C01): the signature validator counts '(' and '{' separately and never checks that a closing
 * bracket matches the innermost open one, so "a{s(ii})" and "(a{si)}" are accepted
 * (CVE-2022-42010 upstream).  exit 0: both rejected; 1: accepted */
#include <dbus/dbus.h>
#include <stdio.h>
int main (void)
{
  const char *bad[] = { "a{s(ii})", "(a{si)}", "a{i(i}i)", NULL };
  const char *good[] = { "a{s(ii)}", "(a{si})", "a(ii)", NULL };
  int i, rc = 0;
  for (i = 0; bad[i]; i++)
    {
      dbus_bool_t ok = dbus_signature_validate (bad[i], NULL);
      printf ("dbus_signature_validate (\"%s\") = %s   (grammar: invalid)\n", bad[i], ok ? "TRUE" : "FALSE");
      if (ok) rc = 1;
    }
  for (i = 0; good[i]; i++)
    {
      dbus_bool_t ok = dbus_signature_validate (good[i], NULL);
      printf ("dbus_signature_validate (\"%s\") = %s   (grammar: valid)\n", good[i], ok ? "TRUE" : "FALSE");
      if (!ok) rc = 1;
    }
  return rc;
}
