#!/bin/sh
b=${1:-/repo/_build}; here=$(cd "$(dirname "$0")" && pwd); src=$(sed -n 's/^CMAKE_HOME_DIRECTORY:INTERNAL=//p' "$b/CMakeCache.txt")
out=$(mktemp -d /tmp/R18.XXXXXX); trap 'rm -rf "$out"' EXIT
cc -g -O1 -I"$src" -I"$b" "$here/r18.c" -o "$out/demo" -L"$b/lib" -ldbus-1 -Wl,-rpath,"$b/lib" || exit 2
"$out/demo"
