/* R16: unregistering a fallback handler leaves the node's fallback flag set when the node stays in the
 * tree (it still has registered children).  Calls below it that nothing covers are then still treated as
 * "below a fallback registration"; and a later *plain* registration ... is fine (register rewrites the
 * flag), but until then the lookup returns the stale node. */
#include "harness.h"
int main (void)
{
  const char *a;
  h_setup ();
  h_register ("/", 0, 1, NULL);         /* plain, declining root: clears the root's built-in flag */
  h_register ("/area", 1, 1, NULL);     /* declining fallback */
  h_register ("/area/kid", 0, 0, NULL); /* keeps the /area node alive */
  a = h_call ("/area/x");
  printf ("fallback /area registered, call /area/x     -> %s [%s]\n", a, h_trace ());
  CHECK (strcmp (a, "err:org.freedesktop.DBus.Error.UnknownMethod") == 0, "expected UnknownMethod, got %s", a);
  h_unregister ("/area");
  a = h_call ("/area/x");
  printf ("fallback /area unregistered, call /area/x   -> %s [%s]\n", a, h_trace ());
  CHECK (strcmp (a, "err:org.freedesktop.DBus.Error.UnknownObject") == 0,
         "/area/x is not registered, not an ancestor of a registered path and below no fallback: expected UnknownObject, got %s", a);
  h_teardown ();
  return failures ? 1 : 0;
}
