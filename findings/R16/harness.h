/* Tiny in-process loopback harness for exercising the object-path
 * dispatch of a DBusConnection using (almost) only public API.
 *
 * A DBusServer listens on a private unix socket; a client connection is
 * opened to it from the same process; both ends are pumped by hand.
 * "svc" is the connection on which object paths are registered, "cli"
 * sends method calls and collects the replies.
 */
#ifndef HARNESS_H
#define HARNESS_H

#include <dbus/dbus.h>
#include <stdio.h>
#include <stdlib.h>
#include <string.h>
#include <unistd.h>

#define MAX_HANDLERS 64
#define MAX_TRACE 64

typedef struct
{
  int id;                 /* index in handlers[] */
  char path[256];
  int fallback;
  int decline;            /* return NOT_YET_HANDLED instead of replying */
  int registered;
  int unregister_calls;
} Handler;

static DBusServer *h_server;
static DBusWatch *h_server_watch;
static DBusConnection *svc;
static DBusConnection *cli;
static Handler handlers[MAX_HANDLERS];
static int n_handlers;
static int trace[MAX_TRACE];   /* ids of handlers invoked for the last call */
static int n_trace;
static int failures;

#define CHECK(cond, ...) \
  do { \
    if (!(cond)) \
      { \
        failures++; \
        printf ("FAIL %s:%d: ", __FILE__, __LINE__); \
        printf (__VA_ARGS__); \
        printf ("\n"); \
      } \
  } while (0)

static dbus_bool_t
h_add_watch (DBusWatch *watch, void *data)
{
  if (dbus_watch_get_flags (watch) & DBUS_WATCH_READABLE)
    h_server_watch = watch;
  return TRUE;
}

static void
h_remove_watch (DBusWatch *watch, void *data)
{
  if (h_server_watch == watch)
    h_server_watch = NULL;
}

static void
h_toggle_watch (DBusWatch *watch, void *data)
{
}

static void
h_new_connection (DBusServer *server, DBusConnection *conn, void *data)
{
  svc = dbus_connection_ref (conn);
  dbus_connection_set_allow_anonymous (conn, TRUE);
}

static void
h_pump (void)
{
  int i;

  for (i = 0; i < 4; i++)
    {
      dbus_connection_read_write_dispatch (cli, 0);
      if (svc != NULL)
        dbus_connection_read_write_dispatch (svc, 0);
    }
}

static void
h_setup (void)
{
  DBusError error = DBUS_ERROR_INIT;
  char *address;
  int i;

  h_server = dbus_server_listen ("unix:tmpdir=/tmp", &error);
  if (h_server == NULL)
    {
      fprintf (stderr, "listen: %s\n", error.message);
      exit (2);
    }
  dbus_server_set_new_connection_function (h_server, h_new_connection, NULL, NULL);
  if (!dbus_server_set_watch_functions (h_server, h_add_watch, h_remove_watch,
                                        h_toggle_watch, NULL, NULL))
    exit (2);

  address = dbus_server_get_address (h_server);
  cli = dbus_connection_open_private (address, &error);
  if (cli == NULL)
    {
      fprintf (stderr, "open: %s\n", error.message);
      exit (2);
    }
  dbus_free (address);
  dbus_connection_set_exit_on_disconnect (cli, FALSE);

  for (i = 0; i < 100 && svc == NULL; i++)
    {
      if (h_server_watch != NULL)
        dbus_watch_handle (h_server_watch, DBUS_WATCH_READABLE);
      usleep (1000);
    }
  if (svc == NULL)
    {
      fprintf (stderr, "server never saw the connection\n");
      exit (2);
    }
  dbus_connection_set_exit_on_disconnect (svc, FALSE);

  for (i = 0; i < 200 && !dbus_connection_get_is_authenticated (cli); i++)
    {
      h_pump ();
      usleep (1000);
    }
  if (!dbus_connection_get_is_authenticated (cli))
    {
      fprintf (stderr, "authentication did not complete\n");
      exit (2);
    }
}

static void
h_teardown (void)
{
  dbus_connection_close (cli);
  dbus_connection_unref (cli);
  dbus_connection_close (svc);
  dbus_connection_unref (svc);
  dbus_server_disconnect (h_server);
  dbus_server_unref (h_server);
}

static DBusHandlerResult
h_message (DBusConnection *conn, DBusMessage *message, void *data)
{
  Handler *h = data;
  DBusMessage *reply;
  const char *s = h->path;

  if (n_trace < MAX_TRACE)
    trace[n_trace++] = h->id;

  if (h->decline)
    return DBUS_HANDLER_RESULT_NOT_YET_HANDLED;

  reply = dbus_message_new_method_return (message);
  if (reply == NULL ||
      !dbus_message_append_args (reply, DBUS_TYPE_STRING, &s, DBUS_TYPE_INVALID) ||
      !dbus_connection_send (conn, reply, NULL))
    {
      if (reply != NULL)
        dbus_message_unref (reply);
      return DBUS_HANDLER_RESULT_NEED_MEMORY;
    }
  dbus_message_unref (reply);
  return DBUS_HANDLER_RESULT_HANDLED;
}

static void
h_unregistered (DBusConnection *conn, void *data)
{
  Handler *h = data;

  h->unregister_calls++;
  h->registered = 0;
}

static const DBusObjectPathVTable h_vtable = { h_unregistered, h_message, NULL, NULL, NULL, NULL };

/* Register a handler; returns its id, or -1 if registration failed
 * (error name, if any, copied to errname). */
static int
h_register (const char *path, int fallback, int decline, char *errname)
{
  Handler *h = &handlers[n_handlers];
  DBusError error = DBUS_ERROR_INIT;
  dbus_bool_t ok;

  memset (h, 0, sizeof (*h));
  h->id = n_handlers;
  snprintf (h->path, sizeof (h->path), "%s", path);
  h->fallback = fallback;
  h->decline = decline;

  if (fallback)
    ok = dbus_connection_try_register_fallback (svc, path, &h_vtable, h, &error);
  else
    ok = dbus_connection_try_register_object_path (svc, path, &h_vtable, h, &error);

  if (errname != NULL)
    errname[0] = '\0';

  if (!ok)
    {
      if (errname != NULL && dbus_error_is_set (&error))
        snprintf (errname, 128, "%s", error.name);
      dbus_error_free (&error);
      return -1;
    }

  h->registered = 1;
  n_handlers++;
  return h->id;
}

static void
h_unregister (const char *path)
{
  if (!dbus_connection_unregister_object_path (svc, path))
    {
      fprintf (stderr, "unregister OOM\n");
      exit (2);
    }
}

/* Send a method call to path and wait for the answer.  The result is
 * written to out: either "ret:<path of the handler that replied>" or
 * "err:<error name>".  trace[] holds the handlers consulted, in order. */
static void
h_call_full (const char *path, const char *iface, const char *member, char *out, size_t outlen,
             char **body)
{
  DBusMessage *m;
  DBusMessage *reply;
  DBusPendingCall *pending = NULL;
  int i;

  n_trace = 0;
  if (body)
    *body = NULL;

  m = dbus_message_new_method_call (NULL, path, iface, member);
  if (m == NULL || !dbus_connection_send_with_reply (cli, m, &pending, 5000) || pending == NULL)
    {
      fprintf (stderr, "send failed\n");
      exit (2);
    }
  dbus_message_unref (m);

  for (i = 0; i < 5000 && !dbus_pending_call_get_completed (pending); i++)
    {
      h_pump ();
      if (!dbus_pending_call_get_completed (pending))
        usleep (200);
    }

  if (!dbus_pending_call_get_completed (pending))
    {
      snprintf (out, outlen, "timeout");
      dbus_pending_call_cancel (pending);
      dbus_pending_call_unref (pending);
      return;
    }

  reply = dbus_pending_call_steal_reply (pending);
  dbus_pending_call_unref (pending);

  if (dbus_message_get_type (reply) == DBUS_MESSAGE_TYPE_ERROR)
    {
      snprintf (out, outlen, "err:%s", dbus_message_get_error_name (reply));
    }
  else
    {
      const char *s = "";

      dbus_message_get_args (reply, NULL, DBUS_TYPE_STRING, &s, DBUS_TYPE_INVALID);
      if (body)
        {
          *body = strdup (s);
          snprintf (out, outlen, "ret");
        }
      else
        snprintf (out, outlen, "ret:%s", s);
    }
  dbus_message_unref (reply);
}

static const char *
h_call (const char *path)
{
  static char buf[512];

  h_call_full (path, "com.example.Test", "Frob", buf, sizeof (buf), NULL);
  return buf;
}

/* Render trace[] as "path1,path2,..." */
static const char *
h_trace (void)
{
  static char buf[1024];
  int i;

  buf[0] = '\0';
  for (i = 0; i < n_trace; i++)
    {
      if (i > 0)
        strcat (buf, ",");
      strcat (buf, handlers[trace[i]].path);
    }
  return buf;
}

/* Children of path as "a,b,c" */
static const char *
h_list (const char *path)
{
  static char buf[1024];
  char **kids = NULL;
  int i;

  buf[0] = '\0';
  if (!dbus_connection_list_registered (svc, path, &kids))
    return "OOM";
  for (i = 0; kids[i] != NULL; i++)
    {
      if (i > 0)
        strcat (buf, ",");
      strcat (buf, kids[i]);
    }
  dbus_free_string_array (kids);
  return buf;
}

#define EXPECT_STR(got, want, what) \
  do { \
    const char *g_ = (got); \
    CHECK (strcmp (g_, (want)) == 0, "%s: got \"%s\", expected \"%s\"", (what), g_, (want)); \
  } while (0)

#endif
