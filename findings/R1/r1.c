/* R1: Hello answered NoMemory although the connection became active. */
#include "harness.h"

int
main (int argc, char **argv)
{
  int k, done = 0, n_oom = 0, n_bad = 0, first_bad = -1;

  if (argc < 2) return 2;
  verbose = argc > 2;
  setvbuf (stdout, NULL, _IONBF, 0);
  start_bus (argv[1], "valid-config-files/debug-allow-all.conf");

  for (k = getenv ("ONLY_K") ? atoi (getenv ("ONLY_K")) : 0; !done && k < 3000; k++)
    {
      DBusConnection *c = open_client ();
      Replies r, r2;
      const char *o;

      call_with_oom (c, driver_call ("Hello"), k, &r);
      if (!r.oom_hit || getenv ("ONLY_K"))
        done = 1;
      o = replies_outcome (&r);

      if (strcmp (o, DBUS_ERROR_NO_MEMORY) == 0)
        {
          const char *o2;
          n_oom++;
          /* retry with memory available */
          call_with_oom (c, driver_call ("Hello"), -1, &r2);
          o2 = replies_outcome (&r2);
          if (strcmp (o2, "ok") != 0)
            {
              const char *msg = NULL;
              if (r2.err)
                dbus_message_get_args (r2.err, NULL, DBUS_TYPE_STRING, &msg, DBUS_TYPE_INVALID);
              n_bad++;
              if (first_bad < 0) first_bad = k;
              if (verbose || n_bad <= 5)
                printf ("  fail alloc #%d: Hello -> NoMemory; retried Hello -> %s (\"%s\"), connected=%d\n",
                        k, o2, msg ? msg : "", dbus_connection_get_is_connected (c));
            }
          else if (verbose)
            printf ("  fail alloc #%d: Hello -> NoMemory; retried Hello -> ok\n", k);
          replies_free (&r2);
        }
      else if (verbose)
        printf ("  fail alloc #%d: hit=%d Hello -> %s\n", k, r.oom_hit, o);

      replies_free (&r);
      dbus_connection_close (c);
      bus_test_run_everything (context);
      drain (c);
      dbus_connection_unref (c);
      bus_test_run_everything (context);
    }

  printf ("# swept failing allocation #0..#%d: %d NoMemory outcomes, %d of them left the "
          "connection registered (retry refused)\n", k - 1, n_oom, n_bad);
  if (n_bad)
    {
      printf ("RESULT: REPRODUCED - first at failing allocation #%d\n", first_bad);
      return 1;
    }
  printf ("RESULT: not reproduced - every NoMemory Hello could be retried\n");
  return 0;
}
