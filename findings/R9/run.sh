#!/bin/sh
# usage: run.sh <cmake build dir>.  exit 1: defect reproduced, 0: not, 2: setup problem
# Verdict: LeakSanitizer report (if the compiler supports -fsanitize=leak) showing a
# BusTransaction allocated in bus_activation_activate_service that is never freed;
# otherwise the harness's own malloc-block accounting.
HERE=$(cd "$(dirname "$0")" && pwd)
B=$(cd "$1" 2>/dev/null && pwd) || exit 2
. "$HERE/build.sh"
OUT=$(mktemp -d); trap 'rm -rf "$OUT"' EXIT
build_harness "$B" "$HERE/r9.c" "$OUT/r9" || exit 2
[ -f "$B/test/data/systemd-activation/com.example.SystemdActivatable1.service" ] || exit 2
cat > "$OUT/bus.conf" <<EOC
<!DOCTYPE busconfig PUBLIC "-//freedesktop//DTD D-BUS Bus Configuration 1.0//EN"
 "http://www.freedesktop.org/standards/dbus/1.0/busconfig.dtd">
<busconfig>
  <listen>debug-pipe:name=test-server</listen>
  <servicedir>$B/test/data/systemd-activation</servicedir>
  <policy context="default">
    <allow send_destination="*"/>
    <allow send_interface="*"/>
    <allow receive_interface="*"/>
    <allow receive_sender="*"/>
    <allow own="*"/>
    <allow user="*"/>
  </policy>
</busconfig>
EOC
DBUS_DISABLE_MEM_POOLS=1; export DBUS_DISABLE_MEM_POOLS

# 1. block-count run (always)
"$OUT/r9" "$OUT/bus.conf" $ARGS 2>"$OUT/stderr.log"
rc=$?
if [ $rc -ne 0 ] && [ $rc -ne 1 ]; then cat "$OUT/stderr.log" >&2; exit 2; fi

# 2. LeakSanitizer run (if available): authoritative
SRC=$(sed -n 's/^CMAKE_HOME_DIRECTORY:INTERNAL=//p' "$B/CMakeCache.txt")
if cc -O1 -g -w -fsanitize=leak -DHAVE_CONFIG_H -DDBUS_COMPILATION -D_GNU_SOURCE \
     -I"$SRC" -I"$B" -I"$SRC/test" -I"$HERE" "$HERE/r9.c" -o "$OUT/r9.lsan" \
     -Wl,-rpath,"$B/lib" "$B/lib/libdbus-daemon-internal.a" "$B/lib/libdbus-testutils.a" -lexpat \
     "$B/lib/libdbus-internal.a" "$B/lib/libdbus-1.so.3" -lsystemd -lrt -lpthread 2>/dev/null
then
  LSAN_OPTIONS=fast_unwind_on_malloc=0:exitcode=0 "$OUT/r9.lsan" "$OUT/bus.conf" >"$OUT/lsan.log" 2>&1
  if grep -q "LeakSanitizer has encountered a fatal error" "$OUT/lsan.log"; then
    echo "# LeakSanitizer could not run here; verdict from block counts"
    exit $rc
  fi
  if grep -A6 "Direct leak" "$OUT/lsan.log" | grep -q "bus_activation_activate_service"; then
    echo "# LeakSanitizer:"
    grep -A5 "Direct leak" "$OUT/lsan.log" | sed 's/^/    /'
    grep "SUMMARY" "$OUT/lsan.log" | sed 's/^/    /'
    echo "RESULT(LSan): REPRODUCED - BusTransaction from bus_activation_activate_service leaked"
    exit 1
  fi
  echo "RESULT(LSan): no leak from bus_activation_activate_service"
  exit 0
fi
exit $rc
