/* R9: leak of activation_transaction in bus_activation_activate_service
 * (systemd-activation path) when bus_transaction_capture() fails.
 *
 * argv[1] = config file (debug-pipe listener, servicedir = systemd-activation
 * test data), the bus context is created with BUS_CONTEXT_FLAG_SYSTEMD_ACTIVATION
 * (what `dbus-daemon --systemd-activation` does).  One connection becomes a
 * monitor (so that bus_transaction_capture has work to do and can fail), a
 * second one sends an auto-starting method call to
 * com.example.SystemdActivatable1.  A fresh bus is used for every failing-
 * allocation index k; the number of live malloc blocks is compared before
 * the request and after the request has been answered and everything has been
 * drained. */
#include "harness.h"

#define TARGET "com.example.SystemdActivatable1"

static DBusConnection *M, *C;

static void
run_quiet (void)
{
  int i;
  for (i = 0; i < 4; i++)
    {
      bus_test_run_everything (context);
      drain (M);
      drain (C);
    }
}

static DBusMessage *
ping (const char *dest)
{
  DBusMessage *m = dbus_message_new_method_call (dest, "/", "com.example.Iface", "Ping");
  if (!m) die ("oom");
  return m;
}

int
main (int argc, char **argv)
{
  int k, done = 0, n_oom = 0, n_leak = 0, first = -1;
  static int oom_k[4000], oom_delta[4000];
  DBusString cfg;

  if (argc < 2) return 2;
  verbose = argc > 2;
  setvbuf (stdout, NULL, _IONBF, 0);
  _dbus_string_init_const (&cfg, argv[1]);

  for (k = -2; !done && k < 3000; k++)
    {
      DBusError error = DBUS_ERROR_INIT;
      DBusMessage *m;

      /* ONLY_K=n: after the two fault-free warm-up rounds test only index n */
      if (k == 0 && getenv ("ONLY_K"))
        {
          k = atoi (getenv ("ONLY_K"));
          done = 1;
        }
      DBusMessageIter it, arr;
      dbus_uint32_t zero = 0;
      Replies r;
      int before, after;
      const char *o;

      context = bus_context_new (&cfg, BUS_CONTEXT_FLAG_SYSTEMD_ACTIVATION,
                                 NULL, NULL, NULL, &error);
      if (context == NULL)
        {
          fprintf (stderr, "bus_context_new: %s\n", error.message);
          return 2;
        }
      if (!bus_context_get_systemd_activation (context)) die ("no systemd activation");

      M = add_client ();
      C = add_client ();

      m = dbus_message_new_method_call (DBUS_SERVICE_DBUS, DBUS_PATH_DBUS,
                                        DBUS_INTERFACE_MONITORING, "BecomeMonitor");
      dbus_message_iter_init_append (m, &it);
      if (!dbus_message_iter_open_container (&it, DBUS_TYPE_ARRAY, "s", &arr) ||
          !dbus_message_iter_close_container (&it, &arr) ||
          !dbus_message_iter_append_basic (&it, DBUS_TYPE_UINT32, &zero))
        die ("oom");
      call (M, m, &r);
      if (r.err != NULL) die ("BecomeMonitor refused");
      replies_free (&r);

      /* warm-up: same code path up to the activation (fills libdbus caches) */
      call (C, ping ("com.example.NoSuchService"), &r);
      replies_free (&r);
      call (C, ping ("com.example.NoSuchService"), &r);
      replies_free (&r);
      run_quiet ();

      before = _dbus_get_malloc_blocks_outstanding ();

      call_with_oom (C, ping (TARGET), k < 0 ? -1 : k, &r);
      if (k >= 0 && !r.oom_hit)
        done = 1;
      o = replies_outcome (&r);
      {
        char obuf[128];
        int hit = r.oom_hit;
        Replies r2;
        snprintf (obuf, sizeof obuf, "%s", o);
        replies_free (&r);
        run_quiet ();
        /* one more ordinary request from C, so that the per-connection
         * preallocated OOM error (consumed when NoMemory is sent) exists
         * again, as it did when `before' was sampled */
        call (C, ping ("com.example.NoSuchService"), &r2);
        replies_free (&r2);
        run_quiet ();
        after = _dbus_get_malloc_blocks_outstanding ();

        if (k < 0)
          printf ("# no fault: outcome '%s' (request parked as pending activation), blocks %d -> %d\n",
                  obuf, before, after);
        else if (strcmp (obuf, DBUS_ERROR_NO_MEMORY) == 0)
          {
            oom_k[n_oom] = k;
            oom_delta[n_oom] = after - before;
            n_oom++;
            if (verbose)
              printf ("  fail alloc #%d: reply NoMemory, live malloc blocks %d -> %d (delta %d)\n",
                      k, before, after, after - before);
          }
        else if (verbose)
          printf ("  fail alloc #%d: hit=%d outcome '%s', blocks %d -> %d\n",
                  k, hit, obuf, before, after);
      }

      dbus_connection_close (M); dbus_connection_close (C);
      bus_test_run_everything (context);
      drain (M); drain (C);
      dbus_connection_unref (M); dbus_connection_unref (C);
      bus_test_run_everything (context);
      bus_context_shutdown (context);
      bus_context_unref (context);
    }

  /* The absolute delta of a clean NoMemory round is a constant (libdbus
   * message cache / preallocated-error bookkeeping, -3 here); rounds that
   * keep MORE blocks alive than the cleanest NoMemory round leaked them. */
  {
    int i, min = 1 << 30;
    for (i = 0; i < n_oom; i++)
      if (oom_delta[i] < min) min = oom_delta[i];
    for (i = 0; i < n_oom; i++)
      if (oom_delta[i] > min)
        {
          n_leak++;
          if (first < 0) first = oom_k[i];
          printf ("  fail alloc #%d: reply NoMemory, %d block(s) more left allocated than in a clean NoMemory round\n",
                  oom_k[i], oom_delta[i] - min);
        }
    printf ("# swept failing allocation #0..#%d: %d NoMemory outcomes (clean-round delta %d), "
            "%d of them kept extra blocks\n", k - 1, n_oom, n_oom ? min : 0, n_leak);
  }
  if (n_leak)
    {
      printf ("RESULT(block-count): REPRODUCED - first at failing allocation #%d\n", first);
      return 1;
    }
  printf ("RESULT(block-count): not reproduced\n");
  return 0;
}
