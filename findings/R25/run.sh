#!/bin/sh
# usage: run.sh <build dir>   exit 0: property holds, 1: violated
B=${1:-/repo/_build}
S=$(sed -n 's/^CMAKE_HOME_DIRECTORY:INTERNAL=//p' "$B/CMakeCache.txt")
out=$(mktemp -d); trap 'rm -rf "$out"' EXIT
cc -g -O0 -DDBUS_COMPILATION -DHAVE_CONFIG_H -D_GNU_SOURCE -I"$S" -I"$B" -o "$out/replay" "$(dirname "$0")/replay.c" \
   -Wl,-rpath,"$B/lib" "$B/lib/libdbus-1.so" || exit 2
if command -v valgrind >/dev/null 2>&1; then
  valgrind -q --error-exitcode=9 "$out/replay"; rc=$?
  [ $rc -eq 9 ] && rc=1
else
  "$out/replay"; rc=$?
fi
exit $rc
