/* R25: after one failed block allocation _dbus_mem_pool_alloc() hands out elements beyond the end of its block.
 * Built against the tree's internal static library (embedded-tests build: DBUS_MALLOC_FAIL_GREATER_THAN is honoured
 * by dbus_malloc).  exit 0: the pool stays inside its blocks; exit 1: an element outside the current block was
 * handed out. */
#include <config.h>
#include <stdio.h>
#include <stdlib.h>
#include <string.h>
#include <dbus/dbus.h>
#include <dbus/dbus-internals.h>
#include <dbus/dbus-mempool.h>

int
main (void)
{
  DBusMemPool *pool;
  char *first, *p;
  int i, handed = 0;

  /* allocations above 1500 bytes fail: the first block (64 * 8 * 2 = 1024 bytes of elements) fits, the next (2048) does not */
  setenv ("DBUS_MALLOC_FAIL_GREATER_THAN", "1500", 1);
  pool = _dbus_mem_pool_new (64, FALSE);       /* 64-byte elements */
  if (pool == NULL)
    return 2;
  first = _dbus_mem_pool_alloc (pool);
  if (first == NULL)
    {
      printf ("setup: the first block could not be allocated\n");
      return 2;
    }
  handed = 1;
  /* use up the first block */
  for (i = 0; i < 4096; i++)
    {
      p = _dbus_mem_pool_alloc (pool);
      if (p == NULL)
        break;
      handed++;
      memset (p, 0xab, 64);
    }
  printf ("first block: %d elements handed out, then one allocation failed (no memory for a bigger block)\n", handed);
  if (p != NULL)
    return 2;
  /* memory is still short; the pool must keep saying so, not hand out memory it does not own */
  p = _dbus_mem_pool_alloc (pool);
  if (p == NULL)
    {
      printf ("ok: the pool still reports out of memory\n");
      return 0;
    }
  printf ("VIOLATION: after the failed allocation the pool handed out %p, %ld bytes after its first element; "
          "the block holds %d bytes of elements\n", (void *) p, (long) (p - first), handed * 64);
  memset (p, 0xcd, 64);        /* what every user of the pool does next: under valgrind an invalid write */
  return 1;
}
