#!/bin/sh
exec python3 "$(dirname "$0")/r17.py" "${1:-/repo/_build}"
