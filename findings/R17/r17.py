#!/usr/bin/env python3
"""R17 (C08): over a tcp: listener the kernel reports no peer credentials (SO_PEERCRED gives uid (uid_t)-1).
_dbus_read_credentials_socket widens that 32-bit -1 into the 64-bit dbus_uid_t, where it no longer equals
DBUS_UID_UNSET, so the server believes the peer is uid 4294967295 and accepts `AUTH EXTERNAL 4294967295`.
usage: r17.py <build dir>; exit 0 = EXTERNAL refused (property holds), 1 = accepted (defect)"""
import os, socket, subprocess, sys, tempfile, time
build = sys.argv[1] if len(sys.argv) > 1 else '/repo/_build'
d = tempfile.mkdtemp(prefix='r17-')
conf = os.path.join(d, 'bus.conf')
open(conf, 'w').write('''<!DOCTYPE busconfig PUBLIC "-//freedesktop//DTD D-Bus Bus Configuration 1.0//EN"
 "http://www.freedesktop.org/standards/dbus/1.0/busconfig.dtd">
<busconfig>
  <type>session</type>
  <listen>tcp:host=127.0.0.1,port=0</listen>
  <auth>EXTERNAL</auth>
  <policy context="default"><allow send_destination="*" eavesdrop="true"/><allow eavesdrop="true"/><allow own="*"/></policy>
</busconfig>''')
p = subprocess.Popen([os.path.join(build, 'bin', 'dbus-daemon'), '--config-file=' + conf, '--print-address', '--nofork'],
                     stdout=subprocess.PIPE, stderr=subprocess.DEVNULL, text=True)
try:
    addr = p.stdout.readline().strip()
    port = int([kv.split('=')[1] for kv in addr.split(':', 1)[1].split(',') if kv.startswith('port=')][0])
    rc = 0
    for claimed in ('4294967295', str(os.getuid())):
        s = socket.create_connection(('127.0.0.1', port))
        s.sendall(b'\0AUTH EXTERNAL ' + claimed.encode().hex().encode() + b'\r\n')
        s.settimeout(3)
        try:
            ans = s.recv(4096).decode(errors='replace').strip()
        except Exception as e:
            ans = 'no answer (%s)' % e
        print('tcp listener, AUTH EXTERNAL %s -> %s' % (claimed, ans))
        if ans.startswith('OK'):
            rc = 1
        s.close()
    sys.exit(rc)
finally:
    p.kill()
