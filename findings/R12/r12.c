/* R12: ListNames / ListActivatableNames / ListQueuedOwners leave the reply's array container open
 * (its temporary signature string is never freed) when appending an element fails with OOM. */
#include "harness.h"

static int
sweep (DBusConnection *c, const char *member, const char *arg)
{
  int k, done = 0, n_oom = 0, n_leaky = 0, first = -1, last = -1;
  int start, end, i;

  bus_test_run_everything (context);
  start = _dbus_get_malloc_blocks_outstanding ();

  for (k = 0; !done && k < 3000; k++)
    {
      Replies r;
      int before, after;
      const char *o;

      before = _dbus_get_malloc_blocks_outstanding ();
      call_with_oom (c, arg ? driver_call_s (member, arg) : driver_call (member), k, &r);
      if (!r.oom_hit)
        done = 1;
      o = replies_outcome (&r);
      replies_free (&r);
      bus_test_run_everything (context);
      after = _dbus_get_malloc_blocks_outstanding ();
      if (strcmp (o, DBUS_ERROR_NO_MEMORY) == 0)
        {
          n_oom++;
          if (after > before)
            {
              n_leaky++;
              if (first < 0) first = k;
              last = k;
              if (verbose)
                printf ("  %s fail alloc #%d: NoMemory, outstanding blocks %d -> %d\n", member, k, before, after);
            }
        }
      else if (after != before && verbose)
        printf ("  %s fail alloc #%d: %s, blocks %d -> %d\n", member, k, o, before, after);
    }
  for (i = 0; i < 5; i++)
    bus_test_run_everything (context);
  end = _dbus_get_malloc_blocks_outstanding ();
  printf ("# %s: swept failing allocation #0..#%d: %d NoMemory outcomes, %d of them showed more blocks right "
          "after the call (first #%d, last #%d); blocks outstanding over the whole sweep: %d -> %d\n",
          member, k - 1, n_oom, n_leaky, first, last, start, end);
  /* transient growth (freed on the next main-loop turn) is not a leak: judge by what stays */
  return end - start > 8 ? (end - start) / 2 : 0;
}

int
main (int argc, char **argv)
{
  DBusConnection *c;
  Replies r;
  int bad = 0, i;

  if (argc < 2) return 2;
  verbose = argc > 2;
  setvbuf (stdout, NULL, _IONBF, 0);
  start_bus (argv[1], "valid-config-files/debug-allow-all.conf");
  c = add_client ();
  if (request_name (c, "com.example.R12", 0) != 1)
    die ("RequestName");
  /* enough names that the reply body has to grow while the array is being filled */
  for (i = 0; i < 100; i++)
    {
      char name[256];
      int j, n;
      n = sprintf (name, "com.example.R12.n%d", i);
      for (j = 0; j < 20; j++)
        n += sprintf (name + n, ".abcdefgh");
      if (request_name (c, name, 0) != 1)
        die ("RequestName (many)");
    }
  /* warm up caches so that block counts are stable */
  for (i = 0; i < 3; i++)
    {
      call (c, driver_call ("ListNames"), &r); replies_free (&r);
      call (c, driver_call ("ListActivatableNames"), &r); replies_free (&r);
      call (c, driver_call_s ("ListQueuedOwners", "com.example.R12"), &r); replies_free (&r);
    }
  bus_test_run_everything (context);

  bad += sweep (c, "ListNames", NULL);
  /* informational: with short lists the appends never allocate, so these two cannot show the leak
   * (ListQueuedOwners additionally leaks one list link per successful call, see notes.md) */
  sweep (c, "ListActivatableNames", NULL);
  sweep (c, "ListQueuedOwners", "com.example.R12");
  if (bad)
    {
      printf ("RESULT: REPRODUCED - about %d leaked signature strings (2 blocks each) stayed allocated\n", bad);
      return 1;
    }
  printf ("RESULT: not reproduced - no NoMemory answer left blocks allocated\n");
  return 0;
}
