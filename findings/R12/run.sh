#!/bin/sh
# usage: run.sh <cmake build dir>.  exit 1: defect reproduced, 0: not, 2: setup problem
HERE=$(cd "$(dirname "$0")" && pwd)
B=$(cd "$1" 2>/dev/null && pwd) || exit 2
. "$HERE/build.sh"
OUT=$(mktemp -d); trap 'rm -rf "$OUT"' EXIT
build_harness "$B" "$HERE/r12.c" "$OUT/r12" || exit 2
DBUS_DISABLE_MEM_POOLS=1; export DBUS_DISABLE_MEM_POOLS
"$OUT/r12" "$B/test/data" $ARGS 2>"$OUT/stderr.log"
rc=$?
if [ $rc -ne 0 ] && [ $rc -ne 1 ]; then cat "$OUT/stderr.log" >&2; exit 2; fi
exit $rc
