/* harness.h - in-process bus (debug-pipe transport) + allocation-failure
 * injection, shared by the R* replay programs.  Adapted from
 * /tmp/seed-C14/1/oommatch.c.  Header-only on purpose (one .c per replay). */
#ifndef REPLAY_HARNESS_H
#define REPLAY_HARNESS_H

#include <config.h>

#include <stdio.h>
#include <stdlib.h>
#include <string.h>

#include "bus/test.h"
#include "bus/bus.h"
#include <dbus/dbus.h>
#include <dbus/dbus-internals.h>
#include <dbus/dbus-string.h>

#define PIPE "debug-pipe:name=test-server"

static BusContext *context;
static int verbose = 0;

static void
die (const char *why)
{
  fprintf (stderr, "FATAL: %s\n", why);
  exit (2);
}

static void
spin_auth (DBusConnection *c)
{
  while (!dbus_connection_get_is_authenticated (c) &&
         dbus_connection_get_is_connected (c))
    {
      bus_test_run_bus_loop (context, FALSE);
      bus_test_run_clients_loop (FALSE);
    }
}

static DBusMessage *
pop (DBusConnection *c)
{
  while (dbus_connection_get_dispatch_status (c) == DBUS_DISPATCH_NEED_MEMORY)
    _dbus_wait_for_memory ();
  return dbus_connection_pop_message (c);
}

static void
drain (DBusConnection *c)
{
  DBusMessage *m;
  while ((m = pop (c)) != NULL)
    dbus_message_unref (m);
}

typedef struct
{
  int n_returns;          /* method returns carrying our serial */
  int n_errors;           /* errors carrying our serial */
  DBusMessage *ret;       /* first method return (or NULL) */
  DBusMessage *err;       /* first error (or NULL) */
  int oom_hit;            /* the injected failure was actually delivered */
} Replies;

static void
replies_free (Replies *r)
{
  if (r->ret) dbus_message_unref (r->ret);
  if (r->err) dbus_message_unref (r->err);
  memset (r, 0, sizeof *r);
}

/* name of the outcome: "ok", error name, or "none" */
static const char *
replies_outcome (const Replies *r)
{
  if (r->err) return dbus_message_get_error_name (r->err);
  if (r->ret) return "ok";
  return "none";
}

/* Send msg from c (consumes the reference); make allocation number k (0-based)
 * fail once while the bus works on it (k < 0: no failure).  Collect EVERY
 * message the bus sends back with reply_serial == our serial. */
static void
call_with_oom (DBusConnection *c, DBusMessage *msg, int k, Replies *out)
{
  dbus_uint32_t serial;
  int spins, quiet = 0;

  memset (out, 0, sizeof *out);

  if (!dbus_connection_send (c, msg, &serial))
    die ("send");
  dbus_message_unref (msg);

  /* get the bytes out of the client with memory available */
  bus_test_run_clients_loop (FALSE);

  if (k >= 0)
    {
      _dbus_set_fail_alloc_failures (1);
      _dbus_set_fail_alloc_counter (k);
    }

  bus_test_run_bus_loop (context, FALSE);
  bus_test_run_bus_loop (context, FALSE);

  if (k >= 0)
    {
      /* after the failure was delivered the counter is re-armed to INT_MAX */
      out->oom_hit = (_dbus_get_fail_alloc_counter () > k);
      _dbus_set_fail_alloc_counter (_DBUS_INT_MAX);
    }

  for (spins = 0; spins < 50 && quiet < 3; spins++)
    {
      DBusMessage *m;
      int got = 0;

      bus_test_run_everything (context);

      while ((m = pop (c)) != NULL)
        {
          got = 1;
          if (dbus_message_get_reply_serial (m) == serial &&
              dbus_message_get_type (m) == DBUS_MESSAGE_TYPE_ERROR)
            {
              out->n_errors++;
              if (out->err == NULL) { out->err = m; continue; }
            }
          else if (dbus_message_get_reply_serial (m) == serial &&
                   dbus_message_get_type (m) == DBUS_MESSAGE_TYPE_METHOD_RETURN)
            {
              out->n_returns++;
              if (out->ret == NULL) { out->ret = m; continue; }
            }
          dbus_message_unref (m);
        }

      if (got)
        quiet = 0;
      else if (out->n_errors + out->n_returns > 0)
        quiet++;
    }
}

static void
call (DBusConnection *c, DBusMessage *msg, Replies *out)
{
  call_with_oom (c, msg, -1, out);
  if (out->n_errors + out->n_returns == 0)
    die ("no reply to a call made with memory available");
}

static DBusMessage *
driver_call (const char *member)
{
  DBusMessage *m = dbus_message_new_method_call (DBUS_SERVICE_DBUS,
                                                 DBUS_PATH_DBUS,
                                                 DBUS_INTERFACE_DBUS,
                                                 member);
  if (m == NULL)
    die ("oom building call");
  return m;
}

static DBusMessage *
driver_call_s (const char *member, const char *arg)
{
  DBusMessage *m = driver_call (member);
  if (!dbus_message_append_args (m, DBUS_TYPE_STRING, &arg, DBUS_TYPE_INVALID))
    die ("oom building call");
  return m;
}

static DBusMessage *
driver_call_su (const char *member, const char *arg, dbus_uint32_t u)
{
  DBusMessage *m = driver_call (member);
  if (!dbus_message_append_args (m, DBUS_TYPE_STRING, &arg,
                                 DBUS_TYPE_UINT32, &u, DBUS_TYPE_INVALID))
    die ("oom building call");
  return m;
}

/* open + authenticate a connection, no Hello */
static DBusConnection *
open_client (void)
{
  DBusError error = DBUS_ERROR_INIT;
  DBusConnection *c;

  c = dbus_connection_open_private (PIPE, &error);
  if (c == NULL)
    die ("open");
  if (!bus_setup_debug_client (c))
    die ("setup client");
  spin_auth (c);
  return c;
}

static DBusConnection *
add_client (void)
{
  DBusConnection *c = open_client ();
  Replies r;

  call (c, driver_call ("Hello"), &r);
  if (r.ret == NULL || r.err != NULL)
    die ("Hello failed");
  replies_free (&r);
  return c;
}

static void
start_bus (const char *test_data_dir, const char *conf)
{
  DBusString dir;
  _dbus_string_init_const (&dir, test_data_dir);
  context = bus_context_new_test (&dir, conf);
  if (context == NULL)
    die ("could not create bus context");
}

/* RequestName with memory available; returns the result code, or -1 on error */
static int
request_name (DBusConnection *c, const char *name, dbus_uint32_t flags)
{
  Replies r;
  dbus_uint32_t code = 0;
  call (c, driver_call_su ("RequestName", name, flags), &r);
  if (r.err != NULL || r.ret == NULL ||
      !dbus_message_get_args (r.ret, NULL, DBUS_TYPE_UINT32, &code, DBUS_TYPE_INVALID))
    {
      replies_free (&r);
      return -1;
    }
  replies_free (&r);
  return (int) code;
}

static int
release_name (DBusConnection *c, const char *name)
{
  Replies r;
  dbus_uint32_t code = 0;
  call (c, driver_call_s ("ReleaseName", name), &r);
  if (r.err != NULL || r.ret == NULL ||
      !dbus_message_get_args (r.ret, NULL, DBUS_TYPE_UINT32, &code, DBUS_TYPE_INVALID))
    {
      replies_free (&r);
      return -1;
    }
  replies_free (&r);
  return (int) code;
}

/* ListQueuedOwners(name) asked by c, rendered as "a,b,c" into buf
 * ("<error>" if it failed) */
static const char *
queued_owners (DBusConnection *c, const char *name, char *buf, size_t len)
{
  Replies r;
  char **v = NULL;
  int n = 0, i;

  buf[0] = '\0';
  call (c, driver_call_s ("ListQueuedOwners", name), &r);
  if (r.err != NULL || r.ret == NULL ||
      !dbus_message_get_args (r.ret, NULL, DBUS_TYPE_ARRAY, DBUS_TYPE_STRING,
                              &v, &n, DBUS_TYPE_INVALID))
    {
      snprintf (buf, len, "<%s>", replies_outcome (&r));
      replies_free (&r);
      return buf;
    }
  for (i = 0; i < n; i++)
    {
      if (i) strncat (buf, ",", len - strlen (buf) - 1);
      strncat (buf, v[i], len - strlen (buf) - 1);
    }
  dbus_free_string_array (v);
  replies_free (&r);
  return buf;
}

#endif
