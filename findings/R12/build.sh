#!/bin/sh
# usage: . build.sh ; build_harness <builddir> <src.c> <out>
build_harness () {
  B=$1
  SRC=$(sed -n 's/^CMAKE_HOME_DIRECTORY:INTERNAL=//p' "$B/CMakeCache.txt")
  [ -n "$SRC" ] || return 2
  cc -O1 -g -w -DHAVE_CONFIG_H -DDBUS_COMPILATION -D_GNU_SOURCE \
     -I"$SRC" -I"$B" -I"$SRC/test" -I"$(dirname "$2")" \
     "$2" -o "$3" \
     -Wl,-rpath,"$B/lib" \
     "$B/lib/libdbus-daemon-internal.a" "$B/lib/libdbus-testutils.a" -lexpat \
     "$B/lib/libdbus-internal.a" "$B/lib/libdbus-1.so.3" -lsystemd -lrt -lpthread
}
