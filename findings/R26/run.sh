#!/bin/sh
# R26: a cancelled ownership change leaves the owner queued twice (swap) and the name listed twice for the
# connection (release); the owner's disconnect then crashes the bus.
# usage: run.sh <built tree>   (source checkout with ./_build)   exit 0: holds, 1: violated
HERE=$(cd "$(dirname "$0")" && pwd)
T=${1:-/repo}
rc=0
# (a) ReleaseName answered with NoMemory, then the caller disconnects (odd k) or retries (even k): harness of R24
sh "$HERE/../R24/run.sh" "$T" > /tmp/r26-a.$$ 2>&1 || rc=1
grep -c "the bus crashed" /tmp/r26-a.$$ | sed 's/^/R24 harness: bus crashes: /'
tail -1 /tmp/r26-a.$$
# (b) RequestName(REPLACE_EXISTING) cancelled after the swap: the old primary owner must not be queued twice
B=$T; [ -d "$T/_build" ] && B=$T/_build
ARGS=-v sh "$HERE/../R10/run.sh" "$B" > /tmp/r26-b.$$ 2>&1
n=$(grep -c "A,C,A,B" /tmp/r26-b.$$)
echo "R10 harness: outcomes with the old owner queued twice (A,C,A,B): $n"
[ "$n" -gt 0 ] && rc=1
rm -f /tmp/r26-a.$$ /tmp/r26-b.$$
exit $rc
