/* R8: dbus_message_iter_get_signature leaks retstr when an allocation after
 * _dbus_string_init fails.  Links against libdbus-1.so only (embedded-tests
 * build exports the fault-injection hooks as LIBDBUS_PRIVATE symbols). */
#include <config.h>
#include <stdio.h>
#include <stdlib.h>
#include <string.h>
#include <dbus/dbus.h>
#include <dbus/dbus-internals.h>

static int
sweep (const char *title, int n_args)
{
  DBusMessage *m;
  DBusMessageIter it;
  int i, k, leaks = 0;

  m = dbus_message_new_method_call ("com.example.X", "/x", "com.example.X", "M");
  if (m == NULL) exit (2);
  for (i = 0; i < n_args; i++)
    {
      dbus_uint32_t u = i;
      if (!dbus_message_append_args (m, DBUS_TYPE_UINT32, &u, DBUS_TYPE_INVALID))
        exit (2);
    }
  if (!dbus_message_iter_init (m, &it)) exit (2);

  printf ("# %s (signature length %d)\n", title, n_args);
  for (k = 0; k < 20; k++)
    {
      int before, after, hit;
      char *sig;

      before = _dbus_get_malloc_blocks_outstanding ();
      _dbus_set_fail_alloc_failures (1);
      _dbus_set_fail_alloc_counter (k);
      sig = dbus_message_iter_get_signature (&it);
      hit = _dbus_get_fail_alloc_counter () > k;
      _dbus_set_fail_alloc_counter (_DBUS_INT_MAX);
      if (sig != NULL)
        dbus_free (sig);
      after = _dbus_get_malloc_blocks_outstanding ();

      printf ("  fail alloc #%d: hit=%d returned %s, blocks outstanding %d -> %d%s\n",
              k, hit, sig ? "signature" : "NULL", before, after,
              after != before ? "   <== LEAK" : "");
      if (after != before)
        leaks++;
      if (!hit)
        break;
    }
  dbus_message_unref (m);
  return leaks;
}

int
main (void)
{
  int leaks = 0;
  setvbuf (stdout, NULL, _IONBF, 0);
  leaks += sweep ("short signature", 3);
  leaks += sweep ("long signature (forces a realloc in _dbus_string_append_len)", 200);
  if (leaks)
    {
      printf ("RESULT: REPRODUCED - %d failing-allocation position(s) leak a block\n", leaks);
      return 1;
    }
  printf ("RESULT: not reproduced - no block leaked\n");
  return 0;
}
