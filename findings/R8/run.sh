#!/bin/sh
# usage: run.sh <cmake build dir>.  exit 1: defect reproduced, 0: not, 2: setup problem
HERE=$(cd "$(dirname "$0")" && pwd)
B=$(cd "$1" 2>/dev/null && pwd) || exit 2
SRC=$(sed -n 's/^CMAKE_HOME_DIRECTORY:INTERNAL=//p' "$B/CMakeCache.txt")
OUT=$(mktemp -d); trap 'rm -rf "$OUT"' EXIT
cc -O1 -g -w -DHAVE_CONFIG_H -DDBUS_COMPILATION -D_GNU_SOURCE -I"$SRC" -I"$B" \
   "$HERE/r8.c" -o "$OUT/r8" -Wl,-rpath,"$B/lib" "$B/lib/libdbus-1.so.3" || exit 2
DBUS_DISABLE_MEM_POOLS=1; export DBUS_DISABLE_MEM_POOLS
"$OUT/r8"
rc=$?
if [ $rc -ne 0 ] && [ $rc -ne 1 ]; then exit 2; fi
exit $rc
