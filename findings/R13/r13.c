/* R13: an asynchronous pending call (notify function, or polled) must complete with a locally
 * generated error when the connection is lost before the reply arrives.
 *
 * One process, one thread: a private DBusServer and the client connection share a DBusLoop.
 * The peer answers "Vanish" by closing the connection.
 * exit 0: the call completed exactly once with an error; exit 1: reproduced (never completed). */
#include <config.h>
#include "test-utils.h"

#include <string.h>

static TestMainContext *ctx;
static DBusConnection *server_conn;

static DBusHandlerResult
server_filter (DBusConnection *c, DBusMessage *m, void *data)
{
  if (dbus_message_is_method_call (m, "com.example.T", "Echo"))
    {
      DBusMessage *r = dbus_message_new_method_return (m);
      if (r == NULL || !dbus_connection_send (c, r, NULL)) exit (2);
      dbus_message_unref (r);
      return DBUS_HANDLER_RESULT_HANDLED;
    }
  if (dbus_message_is_method_call (m, "com.example.T", "Vanish"))
    {
      dbus_connection_close (c);
      return DBUS_HANDLER_RESULT_HANDLED;
    }
  if (dbus_message_is_method_call (m, "com.example.T", "Silent"))
    {
      /* no reply, ever; just some unrelated noise */
      DBusMessage *s = dbus_message_new_signal ("/", "com.example.T", "Noise");
      if (s == NULL || !dbus_connection_send (c, s, NULL)) exit (2);
      dbus_message_unref (s);
      return DBUS_HANDLER_RESULT_HANDLED;
    }
  if (dbus_message_get_type (m) == DBUS_MESSAGE_TYPE_METHOD_CALL)
    return DBUS_HANDLER_RESULT_HANDLED; /* Padding etc.: swallow */
  return DBUS_HANDLER_RESULT_NOT_YET_HANDLED;
}

static void
new_conn_cb (DBusServer *s, DBusConnection *c, void *data)
{
  if (server_conn != NULL)
    {
      test_connection_shutdown (ctx, server_conn);
      dbus_connection_close (server_conn);
      dbus_connection_unref (server_conn);
    }
  server_conn = dbus_connection_ref (c);
  if (!dbus_connection_add_filter (c, server_filter, NULL, NULL)) exit (2);
  test_connection_setup (ctx, c);
}

typedef struct
{
  int n_notified;
  char error[128];
  dbus_uint32_t reply_serial;
} Result;

static dbus_uint32_t noise_serial;

static DBusHandlerResult
client_filter (DBusConnection *c, DBusMessage *m, void *data)
{
  if (dbus_message_is_signal (m, "com.example.T", "Noise"))
    noise_serial = dbus_message_get_serial (m);
  return DBUS_HANDLER_RESULT_NOT_YET_HANDLED;
}

static void
notify_cb (DBusPendingCall *pc, void *data)
{
  Result *res = data;
  DBusMessage *r = dbus_pending_call_steal_reply (pc);

  res->n_notified++;
  if (r != NULL)
    {
      const char *name = dbus_message_get_error_name (r);
      strncpy (res->error, name ? name : "", sizeof res->error - 1);
      res->reply_serial = dbus_message_get_reply_serial (r);
      dbus_message_unref (r);
    }
}

static long
now_ms (void)
{
  long s, us;
  _dbus_get_monotonic_time (&s, &us);
  return s * 1000 + us / 1000;
}

/* n_padding: fire-and-forget messages sent first so that the call's serial is
 * n_padding + 1.  The peer's signal always has serial 1 on a fresh connection. */
static int call_timeout_ms = 300;
static int any_error = 0;

static int
scenario (const char *address, const char *label, const char *member,
          int n_padding, const char *expect_error)
{
  DBusError e = DBUS_ERROR_INIT;
  DBusConnection *c;
  DBusMessage *m;
  DBusPendingCall *pc = NULL;
  Result res;
  dbus_uint32_t call_serial;
  long deadline;
  int i, failed = 0;

  memset (&res, 0, sizeof res);
  noise_serial = 0;

  c = dbus_connection_open_private (address, &e);
  if (c == NULL) { printf ("Bail out! open: %s\n", e.message); exit (2); }
  dbus_connection_set_exit_on_disconnect (c, FALSE);
  if (!dbus_connection_add_filter (c, client_filter, NULL, NULL)) exit (2);
  test_connection_setup (ctx, c);

  for (i = 0; i < n_padding; i++)
    {
      m = dbus_message_new_method_call (NULL, "/", "com.example.T", "Padding");
      dbus_message_set_no_reply (m, TRUE);
      if (!dbus_connection_send (c, m, NULL)) exit (2);
      dbus_message_unref (m);
    }

  m = dbus_message_new_method_call (NULL, "/", "com.example.T", member);
  if (!dbus_connection_send_with_reply (c, m, &pc, call_timeout_ms) || pc == NULL)
    { printf ("Bail out! send_with_reply failed\n"); exit (2); }
  call_serial = dbus_message_get_serial (m);
  dbus_message_unref (m);
  if (!dbus_pending_call_set_notify (pc, notify_cb, &res, NULL)) exit (2);

  /* run the main loop for 2 s: more than six times the call's timeout */
  deadline = now_ms () + 2000;
  while (now_ms () < deadline && res.n_notified == 0)
    {
      test_main_context_iterate (ctx, FALSE);
      _dbus_sleep_milliseconds (5);
    }
  /* ... and a little longer, to catch a second notification */
  deadline = now_ms () + 200;
  while (now_ms () < deadline)
    test_main_context_iterate (ctx, FALSE);

  printf ("# %s: call serial %u, peer's signal serial %u\n",
          label, call_serial, noise_serial);

  if (res.n_notified != 1 || !dbus_pending_call_get_completed (pc))
    {
      printf ("not ok - %s: notified %d time(s), completed=%d (expected exactly one completion)\n",
              label, res.n_notified, dbus_pending_call_get_completed (pc));
      failed = 1;
    }
  else if (any_error && res.error[0] != 0 && res.reply_serial == call_serial)
    printf ("ok - %s: completed once with %s\n", label, res.error);
  else if (strcmp (res.error, expect_error) != 0 || res.reply_serial != call_serial)
    {
      printf ("not ok - %s: completed with '%s' reply_serial %u, expected '%s' reply_serial %u\n",
              label, res.error, res.reply_serial, expect_error, call_serial);
      failed = 1;
    }
  else
    printf ("ok - %s: completed once with %s\n", label,
            res.error[0] ? res.error : "the method return");

  if (!failed)
    dbus_pending_call_unref (pc);
  else
    dbus_pending_call_cancel (pc);
  test_connection_shutdown (ctx, c);
  dbus_connection_close (c);
  dbus_connection_unref (c);
  return failed;
}

int
main (void)
{
  DBusError e = DBUS_ERROR_INIT;
  DBusServer *server;
  const char *address;
  int failed = 0;

  setvbuf (stdout, NULL, _IOLBF, 0);
  ctx = test_main_context_get ();
  server = dbus_server_listen ("unix:tmpdir=/tmp", &e);
  if (server == NULL) { printf ("Bail out! listen: %s\n", e.message); return 2; }
  dbus_server_set_new_connection_function (server, new_conn_cb, NULL, NULL);
  test_server_setup (ctx, server);
  address = dbus_server_get_address (server);

  failed |= scenario (address, "reply arrives", "Echo", 0, "");
  any_error = 1;
  call_timeout_ms = 30000;
  failed |= scenario (address, "peer closes, 30 s timeout", "Vanish", 0, DBUS_ERROR_NO_REPLY);
  call_timeout_ms = DBUS_TIMEOUT_INFINITE;
  failed |= scenario (address, "peer closes, no timeout", "Vanish", 0, DBUS_ERROR_NO_REPLY);

  printf ("%s\n", failed ? "RESULT: REPRODUCED - an asynchronous call was never completed after the connection was lost" : "RESULT: not reproduced");
  return failed ? 1 : 0;
}
