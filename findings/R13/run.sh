#!/bin/sh
# usage: run.sh <path of a built dbus tree, e.g. /tmp/w2-C17>
# The tree must have been built with cmake into <tree>/_build (embedded + modular tests on).
# exit 0 = property holds, non-zero = violated (or could not build/run)
set -e
B=$(cd "$1" && pwd) || exit 2; T=$(sed -n "s/^CMAKE_HOME_DIRECTORY:INTERNAL=//p" "$B/CMakeCache.txt")

HERE=$(cd "$(dirname "$0")" && pwd)
OUT=$(mktemp -d)
trap 'rm -rf "$OUT"' EXIT
gcc -g -O0 -w -DDBUS_COMPILATION -DHAVE_CONFIG_H -D_GNU_SOURCE \
    -I"$T" -I"$B" -I"$T/test" "$HERE/r13.c" -o "$OUT/r13" \
    "$B/lib/libdbus-testutils.a" "$B/lib/libdbus-internal.a" \
    -L"$B/lib" -Wl,-rpath,"$B/lib" -ldbus-1 -lsystemd -lpthread
set +e
timeout 120 "$OUT/r13"
rc=$?
echo "exit status: $rc"
exit $rc
