#!/bin/sh
b=${1:-/repo/_build}; here=$(cd "$(dirname "$0")" && pwd); src=$(sed -n 's/^CMAKE_HOME_DIRECTORY:INTERNAL=//p' "$b/CMakeCache.txt")
out=$(mktemp -d /tmp/R19.XXXXXX); trap 'kill $pid 2>/dev/null; rm -rf "$out"' EXIT
cc -g -O1 -I"$src" -I"$b" "$here/r19.c" -o "$out/demo" -L"$b/lib" -ldbus-1 -Wl,-rpath,"$b/lib" || exit 2
cat > "$out/bus.conf" <<C
<!DOCTYPE busconfig PUBLIC "-//freedesktop//DTD D-Bus Bus Configuration 1.0//EN" "http://www.freedesktop.org/standards/dbus/1.0/busconfig.dtd">
<busconfig><type>session</type><listen>unix:dir=$out</listen>
<policy context="default"><allow send_destination="*" eavesdrop="true"/><allow eavesdrop="true"/><allow own="*"/></policy></busconfig>
C
"$b/bin/dbus-daemon" --config-file="$out/bus.conf" --print-address --nofork > "$out/addr" 2>/dev/null &
pid=$!
for i in 1 2 3 4 5 6 7 8 9 10; do [ -s "$out/addr" ] && break; sleep 0.2; done
"$out/demo" "$(head -1 "$out/addr")"
