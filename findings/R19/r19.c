/* R19 (C07): tokenize_rule stops after MAX_RULE_TOKENS (16) key/value pairs and reports success: everything
 * after the 16th pair of an AddMatch rule is silently ignored -- garbage is accepted, and a restricting key in
 * 17th position is dropped so the rule matches more than was asked for.
 * usage: r19 <bus address>; exit 0: both rules refused / honoured; 1: defect */
#include <dbus/dbus.h>
#include <stdio.h>
#include <string.h>
#include <stdlib.h>
int main (int argc, char **argv)
{
  DBusError e = DBUS_ERROR_INIT;
  DBusConnection *c = dbus_connection_open_private (argv[1], &e);
  char rule[2048] = "";
  int i, rc = 0;
  if (!c || !dbus_bus_register (c, &e)) { fprintf (stderr, "connect: %s\n", e.message); return 2; }
  for (i = 0; i < 16; i++)
    sprintf (rule + strlen (rule), "arg%d='a',", i);
  strcat (rule, "sender='!!bad!!'");
  dbus_bus_add_match (c, rule, &e);
  printf ("AddMatch(16 x argN, sender='!!bad!!')  -> %s\n", dbus_error_is_set (&e) ? e.name : "accepted");
  if (!dbus_error_is_set (&e)) rc = 1;
  dbus_error_free (&e);
  dbus_bus_add_match (c, "sender='!!bad!!'", &e);
  printf ("AddMatch(sender='!!bad!!')             -> %s\n", dbus_error_is_set (&e) ? e.name : "accepted");
  if (!dbus_error_is_set (&e)) rc = 1;
  dbus_error_free (&e);
  dbus_connection_close (c);
  dbus_connection_unref (c);
  return rc;
}
