#!/usr/bin/env python3
"""R23: an unauthenticated client aborts an assertion-enabled dbus-daemon with one line.
usage: replay.py <build dir>   (exit 0: the daemon survived, 1: it died)"""
import os, socket, subprocess, sys, tempfile, time
build = sys.argv[1]
d = tempfile.mkdtemp(prefix='r23-')
conf = os.path.join(d, 'bus.conf')
sock = os.path.join(d, 'bus.sock')
open(conf, 'w').write('''<!DOCTYPE busconfig PUBLIC "-//freedesktop//DTD D-Bus Bus Configuration 1.0//EN"
 "http://www.freedesktop.org/standards/dbus/1.0/busconfig.dtd">
<busconfig><type>session</type><listen>unix:path=%s</listen>
<policy context="default"><allow send_destination="*" eavesdrop="true"/><allow eavesdrop="true"/><allow own="*"/></policy>
</busconfig>''' % sock)
env = dict(os.environ, LD_LIBRARY_PATH=os.path.join(build, 'lib'))
p = subprocess.Popen([os.path.join(build, 'bin', 'dbus-daemon'), '--config-file', conf, '--nofork'], env=env,
                     stderr=subprocess.PIPE)
for _ in range(100):
    if os.path.exists(sock):
        break
    time.sleep(0.05)
s = socket.socket(socket.AF_UNIX)
s.connect(sock)
s.sendall(b'\0AUTH \nEXTERNAL\r\n')
time.sleep(0.5)
rc = p.poll()
if rc is None:
    try:
        print('reply:', s.recv(200))
    except Exception as e:
        print('recv:', e)
    # a second, well-behaved client is still served
    s2 = socket.socket(socket.AF_UNIX); s2.connect(sock); s2.sendall(b'\0AUTH\r\n'); print('second client:', s2.recv(100))
    p.terminate(); p.wait()
    print('daemon survived')
    sys.exit(0)
err = p.stderr.read().decode(errors='replace')
print('daemon died with status', rc)
print(err[-400:])
sys.exit(1)
