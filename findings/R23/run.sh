#!/bin/sh
# usage: run.sh <build dir of the tree to test>; exit 0 = the bus survives the line, 1 = it aborts
exec python3 "$(dirname "$0")/replay.py" "${1:-/repo/_build}"
