#!/bin/sh
# R22: restore_ownership asserts d->hash_entry == NULL although the entry is always preallocated; reuses the R10
# harness (RequestName(REPLACE_EXISTING) with a queue, one failing allocation per run).
# exit 1: some fault index aborts the bus with that assertion; 0: none
HERE=$(cd "$(dirname "$0")" && pwd)
out=$(sh "$HERE/../R10/run.sh" "$1" 2>&1)
echo "$out" | grep -E "bus aborted|assertion failed" | head -6
echo "$out" | grep -q 'assertion failed "d->hash_entry == NULL"' && exit 1
exit 0
