#!/usr/bin/env python3
"""Tiny raw D-Bus client (little-endian, EXTERNAL auth over a unix socket).

Only what the C18 demonstrations need: build simple messages, parse headers
of incoming messages, start/stop a private dbus-daemon.
No third-party modules.
"""
import os
import socket
import struct
import subprocess
import tempfile
import time
import shutil

METHOD_CALL, METHOD_RETURN, ERROR, SIGNAL = 1, 2, 3, 4
TYPE_NAMES = {1: "method_call", 2: "method_return", 3: "error", 4: "signal"}

F_PATH, F_INTERFACE, F_MEMBER, F_ERROR_NAME, F_REPLY_SERIAL, F_DESTINATION, \
    F_SENDER, F_SIGNATURE = range(1, 9)

FLAG_NO_REPLY = 0x1
FLAG_NO_AUTO_START = 0x2


def _pad(buf, n):
    r = len(buf) % n
    if r:
        buf += b"\0" * (n - r)
    return buf


def m_string(buf, s):
    buf = _pad(buf, 4)
    b = s.encode()
    return buf + struct.pack("<I", len(b)) + b + b"\0"


def m_sig(buf, s):
    b = s.encode()
    return buf + bytes([len(b)]) + b + b"\0"


def m_u32(buf, v):
    buf = _pad(buf, 4)
    return buf + struct.pack("<I", v)


def m_array_of_strings(buf, strings):
    buf = _pad(buf, 4)
    body = b""
    # element alignment is 4, the array data starts right after the length
    for s in strings:
        body = m_string(body, s)
    return buf + struct.pack("<I", len(body)) + body


def build_message(mtype, serial, path=None, interface=None, member=None,
                  destination=None, signature="", body=b"", flags=0,
                  reply_serial=None, error_name=None):
    fields = b""

    def add_field(code, sig, marshal, value):
        nonlocal fields
        fields = _pad(fields, 8)
        fields += bytes([code])
        fields = m_sig(fields, sig)
        fields = marshal(fields, value)

    if path is not None:
        add_field(F_PATH, "o", m_string, path)
    if interface is not None:
        add_field(F_INTERFACE, "s", m_string, interface)
    if member is not None:
        add_field(F_MEMBER, "s", m_string, member)
    if error_name is not None:
        add_field(F_ERROR_NAME, "s", m_string, error_name)
    if reply_serial is not None:
        add_field(F_REPLY_SERIAL, "u", m_u32, reply_serial)
    if destination is not None:
        add_field(F_DESTINATION, "s", m_string, destination)
    if signature:
        add_field(F_SIGNATURE, "g", m_sig, signature)

    hdr = struct.pack("<cBBBII", b"l", mtype, flags, 1, len(body), serial)
    hdr += struct.pack("<I", len(fields)) + fields
    hdr = _pad(hdr, 8)
    return hdr + body


class Message(object):
    def __init__(self):
        self.type = 0
        self.flags = 0
        self.serial = 0
        self.fields = {}
        self.body = b""

    path = property(lambda s: s.fields.get(F_PATH))
    interface = property(lambda s: s.fields.get(F_INTERFACE))
    member = property(lambda s: s.fields.get(F_MEMBER))
    error_name = property(lambda s: s.fields.get(F_ERROR_NAME))
    reply_serial = property(lambda s: s.fields.get(F_REPLY_SERIAL))
    destination = property(lambda s: s.fields.get(F_DESTINATION))
    sender = property(lambda s: s.fields.get(F_SENDER))
    signature = property(lambda s: s.fields.get(F_SIGNATURE, ""))

    def first_string(self):
        """First body argument if it is a string, else None."""
        if not self.signature.startswith("s"):
            return None
        (n,) = struct.unpack_from(self.endian + "I", self.body, 0)
        return self.body[4:4 + n].decode()

    def __repr__(self):
        return ("<%s serial=%d sender=%s dest=%s path=%s iface=%s member=%s "
                "error=%s reply_serial=%s sig='%s'>" % (
                    TYPE_NAMES.get(self.type, self.type), self.serial,
                    self.sender, self.destination, self.path, self.interface,
                    self.member, self.error_name, self.reply_serial,
                    self.signature))


def _parse_fields(data, endian):
    fields = {}
    pos = 0
    while pos < len(data):
        pos = (pos + 7) & ~7
        if pos >= len(data):
            break
        code = data[pos]
        pos += 1
        siglen = data[pos]
        sig = data[pos + 1:pos + 1 + siglen].decode()
        pos += 1 + siglen + 1
        if sig in ("s", "o"):
            pos = (pos + 3) & ~3
            (n,) = struct.unpack_from(endian + "I", data, pos)
            fields[code] = data[pos + 4:pos + 4 + n].decode()
            pos += 4 + n + 1
        elif sig == "g":
            n = data[pos]
            fields[code] = data[pos + 1:pos + 1 + n].decode()
            pos += 1 + n + 1
        elif sig == "u":
            pos = (pos + 3) & ~3
            (fields[code],) = struct.unpack_from(endian + "I", data, pos)
            pos += 4
        else:
            raise ValueError("unsupported header field signature %r" % sig)
    return fields


class Connection(object):
    def __init__(self, path, label="conn"):
        self.label = label
        self.sock = socket.socket(socket.AF_UNIX, socket.SOCK_STREAM)
        self.sock.connect(path)
        self.buf = b""
        self.serial = 0
        self.unique_name = None
        self.closed = False
        self._auth()

    def _auth(self):
        uid = str(os.getuid()).encode().hex().encode()
        self.sock.sendall(b"\0AUTH EXTERNAL " + uid + b"\r\n")
        line = b""
        while not line.endswith(b"\r\n"):
            c = self.sock.recv(1)
            if not c:
                raise IOError("EOF during auth")
            line += c
        if not line.startswith(b"OK"):
            raise IOError("auth failed: %r" % line)
        self.sock.sendall(b"BEGIN\r\n")

    def next_serial(self):
        self.serial += 1
        return self.serial

    def send(self, mtype, **kw):
        serial = self.next_serial()
        self.sock.sendall(build_message(mtype, serial, **kw))
        return serial

    def call(self, destination, path, interface, member, signature="",
             body=b"", flags=0):
        return self.send(METHOD_CALL, destination=destination, path=path,
                         interface=interface, member=member,
                         signature=signature, body=body, flags=flags)

    def emit(self, path, interface, member, destination=None, signature="",
             body=b""):
        return self.send(SIGNAL, path=path, interface=interface,
                         member=member, destination=destination,
                         signature=signature, body=body)

    def _try_parse(self):
        if len(self.buf) < 16:
            return None
        endian = "<" if self.buf[0:1] == b"l" else ">"
        mtype, flags = self.buf[1], self.buf[2]
        body_len, serial, fields_len = struct.unpack_from(endian + "III",
                                                          self.buf, 4)
        hdr_len = (16 + fields_len + 7) & ~7
        total = hdr_len + body_len
        if len(self.buf) < total:
            return None
        m = Message()
        m.endian = endian
        m.type, m.flags, m.serial = mtype, flags, serial
        m.fields = _parse_fields(self.buf[16:16 + fields_len], endian)
        m.body = self.buf[hdr_len:total]
        self.buf = self.buf[total:]
        return m

    def recv(self, timeout=5.0):
        """Next message, or None on timeout / EOF (sets self.closed on EOF)."""
        deadline = time.time() + timeout
        while True:
            m = self._try_parse()
            if m is not None:
                return m
            remaining = deadline - time.time()
            if remaining <= 0:
                return None
            self.sock.settimeout(remaining)
            try:
                data = self.sock.recv(65536)
            except socket.timeout:
                return None
            except (ConnectionResetError, BrokenPipeError):
                self.closed = True
                return None
            if not data:
                self.closed = True
                return None
            self.buf += data

    def wait_reply(self, serial, timeout=5.0, stash=None):
        """Read until the reply/error to `serial`; other messages go to stash."""
        deadline = time.time() + timeout
        while True:
            m = self.recv(max(0.0, deadline - time.time()))
            if m is None:
                raise IOError("%s: no reply to serial %d" % (self.label, serial))
            if m.type in (METHOD_RETURN, ERROR) and m.reply_serial == serial:
                return m
            if stash is not None:
                stash.append(m)

    def hello(self):
        s = self.call("org.freedesktop.DBus", "/org/freedesktop/DBus",
                      "org.freedesktop.DBus", "Hello")
        r = self.wait_reply(s)
        if r.type != METHOD_RETURN:
            raise IOError("Hello failed: %r" % r)
        self.unique_name = r.first_string()
        return self.unique_name

    def request_name(self, name, flags=0, stash=None):
        body = m_u32(m_string(b"", name), flags)
        s = self.call("org.freedesktop.DBus", "/org/freedesktop/DBus",
                      "org.freedesktop.DBus", "RequestName", "su", body)
        r = self.wait_reply(s, stash=stash)
        if r.type != METHOD_RETURN:
            raise IOError("RequestName failed: %r" % r)
        return struct.unpack_from("<I", r.body, 0)[0]

    def add_match(self, rule, stash=None):
        s = self.call("org.freedesktop.DBus", "/org/freedesktop/DBus",
                      "org.freedesktop.DBus", "AddMatch", "s",
                      m_string(b"", rule))
        r = self.wait_reply(s, stash=stash)
        if r.type != METHOD_RETURN:
            raise IOError("AddMatch failed: %r" % r)

    def become_monitor(self, rules, stash=None):
        body = m_u32(m_array_of_strings(b"", rules), 0)
        s = self.call("org.freedesktop.DBus", "/org/freedesktop/DBus",
                      "org.freedesktop.DBus.Monitoring", "BecomeMonitor",
                      "asu", body)
        r = self.wait_reply(s, stash=stash)
        return r

    def close(self):
        try:
            self.sock.close()
        except Exception:
            pass


CONFIG = """<!DOCTYPE busconfig PUBLIC "-//freedesktop//DTD D-Bus Bus Configuration 1.0//EN"
 "http://www.freedesktop.org/standards/dbus/1.0/busconfig.dtd">
<busconfig>
  <type>session</type>
  <listen>unix:path=%(sock)s</listen>
  <policy context="default">
    <allow send_destination="*" eavesdrop="true"/>
    <allow eavesdrop="true"/>
    <allow own="*"/>
  </policy>
%(extra)s
</busconfig>
"""


class Daemon(object):
    def __init__(self, daemon_binary, extra_config=""):
        self.dir = tempfile.mkdtemp(prefix="c18-demo-")
        self.sock = os.path.join(self.dir, "bus.sock")
        conf = os.path.join(self.dir, "bus.conf")
        with open(conf, "w") as f:
            f.write(CONFIG % {"sock": self.sock, "extra": extra_config})
        self.log = open(os.path.join(self.dir, "daemon.log"), "w")
        env = dict(os.environ)
        env.pop("DBUS_VERBOSE", None)
        self.proc = subprocess.Popen(
            [daemon_binary, "--config-file=" + conf, "--nofork",
             "--nopidfile", "--nosyslog"],
            stdout=self.log, stderr=subprocess.STDOUT, env=env)
        deadline = time.time() + 10
        while not os.path.exists(self.sock):
            if self.proc.poll() is not None:
                raise IOError("dbus-daemon exited early, see %s" % self.dir)
            if time.time() > deadline:
                raise IOError("dbus-daemon did not create its socket")
            time.sleep(0.02)

    def connect(self, label):
        return Connection(self.sock, label)

    def alive(self):
        return self.proc.poll() is None

    def stop(self):
        if self.proc.poll() is None:
            self.proc.terminate()
            try:
                self.proc.wait(5)
            except subprocess.TimeoutExpired:
                self.proc.kill()
        self.log.close()
        shutil.rmtree(self.dir, ignore_errors=True)
