#!/usr/bin/env python3
"""R14: a connection with an outstanding auto-start call becomes a monitor; when the activation fails,
the bus sends the activation error addressed to the monitor (a monitor must never be the addressee of a
delivery, it only gets copies that match its filter)."""
import os
import sys
import time

HERE = os.path.dirname(os.path.abspath(__file__))
sys.path.insert(0, HERE)
import rawdbus as rd   # noqa

svc = sys.argv[2]
d = rd.Daemon(sys.argv[1], extra_config="<servicedir>%s</servicedir>" % svc)
bad = []
try:
    m = d.connect("m")
    m.hello()
    me = m.unique if hasattr(m, 'unique') else None
    m.call("com.example.R14.Slow", "/x", "com.example.R14", "Foo")
    time.sleep(0.2)
    st = []
    r = m.become_monitor(["type='signal',member='Sentinel'"], stash=st)
    print("# BecomeMonitor ->", r)
    a = d.connect("a")
    a.hello()
    time.sleep(2.5)
    a.emit("/x", "com.example.R14", "Sentinel")
    while True:
        x = m.recv(5)
        if x is None:
            break
        print("# monitor received:", x)
        if getattr(x, 'member', None) == "Sentinel":
            break
        # NameLost / NameOwnerChanged for the names the new monitor gave up belong to BecomeMonitor itself
        # (test/monitor.c expects them); a *reply* addressed to the monitor afterwards does not
        if getattr(x, 'destination', None) and str(x.destination).startswith(':') and \
                getattr(x, 'reply_serial', None) is not None:
            bad.append(x)
finally:
    d.stop()
if bad:
    print("RESULT: REPRODUCED - the monitor was the addressee of %d message(s) outside its filter" % len(bad))
    sys.exit(1)
print("RESULT: not reproduced")
sys.exit(0)
