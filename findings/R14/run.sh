#!/bin/sh
# usage: run.sh <cmake build dir>.  exit 1: defect reproduced, 0: not, 2: setup problem
HERE=$(cd "$(dirname "$0")" && pwd)
B=$(cd "$1" 2>/dev/null && pwd) || exit 2
OUT=$(mktemp -d); trap 'rm -rf "$OUT"' EXIT
mkdir -p "$OUT/services"
cat > "$OUT/services/slow.service" <<EOF
[D-BUS Service]
Name=com.example.R14.Slow
Exec=/bin/sh -c "sleep 1; exit 3"
EOF
python3 "$HERE/r14.py" "$B/bin/dbus-daemon" "$OUT/services"
