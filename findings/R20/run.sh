#!/bin/sh
exec python3 "$(dirname "$0")/r20.py" "${1:-/repo/_build}"
