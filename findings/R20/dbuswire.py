"""Minimal raw D-Bus wire client used by the demonstrations (no libdbus)."""
import array
import os
import socket
import struct


def _pad(buf, n):
    while len(buf) % n:
        buf += b"\0"
    return buf


def _field(buf, code, sig, val):
    buf = _pad(buf, 8)
    buf += bytes([code, len(sig)]) + sig.encode() + b"\0"
    if sig in ("s", "o"):
        buf = _pad(buf, 4)
        buf += struct.pack("<I", len(val)) + val.encode() + b"\0"
    elif sig == "g":
        buf += bytes([len(val)]) + val.encode() + b"\0"
    elif sig == "u":
        buf = _pad(buf, 4)
        buf += struct.pack("<I", val)
    else:
        raise ValueError(sig)
    return buf


def message(mtype, serial, path=None, iface=None, member=None, dest=None,
            signature=None, unix_fds=None, body=b"", flags=0):
    """Marshal one little-endian message.  mtype: 1=call 4=signal."""
    # The header field array starts at offset 16, which is 8-aligned, so the
    # alignment of the fields can be computed relative to the array start.
    fields = b""
    if path is not None:
        fields = _field(fields, 1, "o", path)
    if iface is not None:
        fields = _field(fields, 2, "s", iface)
    if member is not None:
        fields = _field(fields, 3, "s", member)
    if dest is not None:
        fields = _field(fields, 6, "s", dest)
    if signature is not None:
        fields = _field(fields, 8, "g", signature)
    if unix_fds is not None:
        fields = _field(fields, 9, "u", unix_fds)
    hdr = b"l" + bytes([mtype, flags, 1])
    hdr += struct.pack("<III", len(body), serial, len(fields))
    hdr += fields
    hdr = _pad(hdr, 8)
    return hdr + body


class RawClient:
    def __init__(self, path, negotiate_fds=True):
        self.sock = socket.socket(socket.AF_UNIX, socket.SOCK_STREAM)
        self.sock.connect(path)
        self.serial = 0
        self.fd_passing = False
        self._auth(negotiate_fds)

    def _readline(self):
        line = b""
        while not line.endswith(b"\r\n"):
            c = self.sock.recv(1)
            if not c:
                raise EOFError("EOF during auth, got %r" % line)
            line += c
        return line

    def _auth(self, negotiate_fds):
        uid = str(os.getuid()).encode().hex().encode()
        self.sock.sendall(b"\0AUTH EXTERNAL " + uid + b"\r\n")
        line = self._readline()
        if not line.startswith(b"OK "):
            raise RuntimeError("auth failed: %r" % line)
        if negotiate_fds:
            self.sock.sendall(b"NEGOTIATE_UNIX_FD\r\n")
            line = self._readline()
            self.fd_passing = line.startswith(b"AGREE_UNIX_FD")
        self.sock.sendall(b"BEGIN\r\n")

    def next_serial(self):
        self.serial += 1
        return self.serial

    def send(self, data, fds=()):
        """Send data; the fds (if any) ride on the first byte, as libdbus does."""
        if fds:
            anc = [(socket.SOL_SOCKET, socket.SCM_RIGHTS,
                    array.array("i", list(fds)).tobytes())]
            n = self.sock.sendmsg([data], anc)
            data = data[n:]
        if data:
            self.sock.sendall(data)

    def hello(self):
        self.send(message(1, self.next_serial(),
                          path="/org/freedesktop/DBus",
                          iface="org.freedesktop.DBus",
                          member="Hello",
                          dest="org.freedesktop.DBus"))
        # wait for (at least the beginning of) the reply so that we know the
        # bus has processed Hello
        self.sock.settimeout(5)
        data = self.sock.recv(4096)
        if not data:
            raise EOFError("bus closed the connection after Hello")
        return data

    def is_closed_by_peer(self):
        """True if the peer has closed the connection (drains pending data)."""
        self.sock.setblocking(False)
        try:
            while True:
                try:
                    d = self.sock.recv(65536)
                except (BlockingIOError, InterruptedError):
                    return False
                except ConnectionResetError:
                    return True
                if d == b"":
                    return True
        finally:
            self.sock.setblocking(True)

    def close(self):
        self.sock.close()


def count_fds(pid):
    return len(os.listdir("/proc/%d/fd" % pid))
