#!/usr/bin/env python3
"""R20 (C09/C13): bus_dispatch_matches refuses a descriptor-carrying call to a recipient that cannot take
descriptors (NotSupported) AFTER the policy gate recorded the expected reply.  Non-OOM refusals execute the
transaction, so the recorded pending reply stays: the caller, who was told the call was refused, has one
pending-reply slot taken (and would later get NoReply for the same serial).
usage: r20.py <build dir>; exit 0: the refused call leaves no slot behind; 1: defect"""
import os, subprocess, sys, tempfile, time, socket
sys.path.insert(0, os.path.dirname(os.path.abspath(__file__)))
from dbuswire import RawClient, message
build = sys.argv[1] if len(sys.argv) > 1 else '/repo/_build'
d = tempfile.mkdtemp(prefix='r20-')
conf = os.path.join(d, 'bus.conf')
open(conf, 'w').write('''<!DOCTYPE busconfig PUBLIC "-//freedesktop//DTD D-Bus Bus Configuration 1.0//EN"
 "http://www.freedesktop.org/standards/dbus/1.0/busconfig.dtd">
<busconfig><type>session</type><listen>unix:dir=%s</listen>
<policy context="default"><allow send_destination="*" eavesdrop="true"/><allow eavesdrop="true"/><allow own="*"/></policy>
<limit name="max_replies_per_connection">1</limit><limit name="reply_timeout">30000</limit></busconfig>''' % d)
p = subprocess.Popen([os.path.join(build, 'bin', 'dbus-daemon'), '--config-file=' + conf, '--print-address', '--nofork'],
                     stdout=subprocess.PIPE, stderr=subprocess.DEVNULL, text=True)
def names(data):
    out = []
    for n in (b'org.freedesktop.DBus.Error.NotSupported', b'org.freedesktop.DBus.Error.LimitsExceeded',
              b'org.freedesktop.DBus.Error.AccessDenied'):
        if n in data:
            out.append(n.decode().rsplit('.', 1)[1])
    return out
try:
    addr = p.stdout.readline().strip()
    path = [kv.split('=', 1)[1] for kv in addr.split(':', 1)[1].split(',') if kv.startswith('path=')][0]
    b = RawClient(path, negotiate_fds=False); hb = b.hello()
    bname = hb[hb.index(b':1.'):].split(b'\0')[0].decode()
    a = RawClient(path, negotiate_fds=True); a.hello()
    assert a.fd_passing
    r, w = os.pipe()
    s1 = a.next_serial()
    a.send(message(1, s1, path='/x', iface='com.example.T', member='WithFd', dest=bname, signature='h',
                   unix_fds=1, body=b'\0\0\0\0'), fds=[r])
    a.sock.settimeout(3)
    time.sleep(0.5)
    got1 = names(a.sock.recv(65536))
    print('call with a descriptor to a peer without descriptor passing -> %s' % (got1 or 'no error'))
    s2 = a.next_serial()
    a.send(message(1, s2, path='/x', iface='com.example.T', member='Plain', dest=bname))
    time.sleep(0.5)
    a.sock.setblocking(False)
    try:
        got2 = names(a.sock.recv(65536))
    except BlockingIOError:
        got2 = []
    print('next ordinary call to the same peer (max_replies_per_connection=1) -> %s' % (got2 or 'delivered (no error)'))
    sys.exit(1 if 'LimitsExceeded' in got2 else 0)
finally:
    p.kill()
