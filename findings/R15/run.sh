#!/bin/sh
# usage: run.sh <build dir>   exit 0: behaviour as the property states; 1: defect reproduced
b=${1:-/repo/_build}; here=$(cd "$(dirname "$0")" && pwd); src=$(sed -n 's/^CMAKE_HOME_DIRECTORY:INTERNAL=//p' "$b/CMakeCache.txt")
out=$(mktemp -d /tmp/R15.XXXXXX); trap 'rm -rf "$out"' EXIT
cc -g -O1 -Wno-unused-function -Wno-unused-variable -I"$src" -I"$b" -I"$here" "$here/r15.c" -o "$out/demo" -L"$b/lib" -ldbus-1 -Wl,-rpath,"$b/lib" || exit 2
"$out/demo"
