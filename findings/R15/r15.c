/* R15: a call to a path that is not registered, is not an ancestor of a registered path and is not
 * below any fallback registration must be answered UnknownObject (property C20).  The root node of
 * the object tree is created with invoke_as_fallback = TRUE although nothing is registered on "/",
 * so the lookup always finds "a covering node" and the answer is UnknownMethod. */
#include "harness.h"
int main (void)
{
  const char *a;
  h_setup ();
  a = h_call ("/nowhere");
  printf ("nothing registered, call /nowhere          -> %s\n", a);
  CHECK (strcmp (a, "err:org.freedesktop.DBus.Error.UnknownObject") == 0, "expected UnknownObject, got %s", a);
  h_register ("/obj", 0, 0, NULL);
  a = h_call ("/elsewhere/deep");
  printf ("/obj registered (plain), call /elsewhere/deep -> %s\n", a);
  CHECK (strcmp (a, "err:org.freedesktop.DBus.Error.UnknownObject") == 0, "expected UnknownObject, got %s", a);
  a = h_call ("/obj");
  printf ("call /obj                                   -> %s\n", a);
  CHECK (strcmp (a, "ret:/obj") == 0, "expected the /obj handler, got %s", a);
  a = h_call ("/");
  printf ("call / (ancestor of a registered path)      -> %s\n", a);
  CHECK (strcmp (a, "err:org.freedesktop.DBus.Error.UnknownMethod") == 0, "expected UnknownMethod, got %s", a);
  h_teardown ();
  return failures ? 1 : 0;
}
