/* R11: a Hello that fails with NoMemory inside bus_connection_complete() after
 * adjust_connections_for_uid(+1) leaves the per-user connection count incremented. */
#include "harness.h"

int
main (int argc, char **argv)
{
  int k, done = 0, n_oom = 0, bad_k = -1;

  if (argc < 2) return 2;
  verbose = argc > 2;
  setvbuf (stdout, NULL, _IONBF, 0);
  start_bus (argv[1], "r11.conf");          /* max_connections_per_user = 2 */

  for (k = getenv ("ONLY_K") ? atoi (getenv ("ONLY_K")) : 0; !done && k < 3000; k++)
    {
      DBusConnection *c = open_client ();
      Replies r, r2, r3;
      const char *o;

      call_with_oom (c, driver_call ("Hello"), k, &r);
      if (!r.oom_hit || getenv ("ONLY_K"))
        done = 1;
      o = replies_outcome (&r);
      if (strcmp (o, DBUS_ERROR_NO_MEMORY) == 0)
        {
          n_oom++;
          call_with_oom (c, driver_call ("Hello"), -1, &r2);
          if (strcmp (replies_outcome (&r2), "ok") == 0)
            {
              /* exactly one active connection of this user exists; the limit is 2 */
              DBusConnection *c2 = open_client ();
              const char *o3;
              call_with_oom (c2, driver_call ("Hello"), -1, &r3);
              o3 = replies_outcome (&r3);
              if (strcmp (o3, "ok") != 0)
                {
                  const char *msg = NULL;
                  if (r3.err)
                    dbus_message_get_args (r3.err, NULL, DBUS_TYPE_STRING, &msg, DBUS_TYPE_INVALID);
                  printf ("  fail alloc #%d: Hello -> NoMemory, retried Hello -> ok; a 2nd connection "
                          "(limit 2 per user) -> %s (\"%s\")\n", k, o3, msg ? msg : "");
                  bad_k = k;
                  done = 1;
                }
              else if (verbose)
                printf ("  fail alloc #%d: NoMemory, retry ok, 2nd connection ok\n", k);
              replies_free (&r3);
              dbus_connection_close (c2);
              bus_test_run_everything (context);
              drain (c2);
              dbus_connection_unref (c2);
            }
          replies_free (&r2);
        }
      replies_free (&r);
      dbus_connection_close (c);
      bus_test_run_everything (context);
      drain (c);
      dbus_connection_unref (c);
      bus_test_run_everything (context);
    }

  printf ("# swept failing allocation #0..#%d: %d NoMemory outcomes\n", k - 1, n_oom);
  if (bad_k >= 0)
    {
      printf ("RESULT: REPRODUCED - per-user count drifted at failing allocation #%d\n", bad_k);
      return 1;
    }
  printf ("RESULT: not reproduced - the per-user count is restored after every failed Hello\n");
  return 0;
}
