#!/bin/sh
# usage: run.sh <cmake build dir>.  exit 1: defect reproduced, 0: not, 2: setup problem
HERE=$(cd "$(dirname "$0")" && pwd)
B=$(cd "$1" 2>/dev/null && pwd) || exit 2
. "$HERE/build.sh"
OUT=$(mktemp -d); trap 'rm -rf "$OUT"' EXIT
build_harness "$B" "$HERE/r11.c" "$OUT/r11" || exit 2
cat > "$OUT/r11.conf" <<EOF
<!DOCTYPE busconfig PUBLIC "-//freedesktop//DTD D-BUS Bus Configuration 1.0//EN"
 "http://www.freedesktop.org/standards/dbus/1.0/busconfig.dtd">
<busconfig>
  <listen>debug-pipe:name=test-server</listen>
  <policy context="default">
    <allow send_interface="*"/>
    <allow receive_interface="*"/>
    <allow own="*"/>
    <allow user="*"/>
  </policy>
  <limit name="max_connections_per_user">2</limit>
</busconfig>
EOF
DBUS_DISABLE_MEM_POOLS=1; export DBUS_DISABLE_MEM_POOLS
"$OUT/r11" "$OUT" $ARGS 2>"$OUT/stderr.log"
rc=$?
if [ $rc -ne 0 ] && [ $rc -ne 1 ]; then cat "$OUT/stderr.log" >&2; exit 2; fi
exit $rc
