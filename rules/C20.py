"""C20 - object-path handlers are chosen by exact path, then nearest fallback.
Structural clauses only (DESIGN.md section 10.8): the selection itself is a function of a trie built at run
time and is not decided; what is decided is the shape of the code that walks, edits and reports on that trie."""
from engine.cfg import (Explorer, estr, is_call, is_int, is_member, is_ref, same_expr, strip_addr, walk,
                        written_lvalues, event_expr, norm_cond)
from engine.facts import AnalysisBroken
from engine import lib

OT = 'dbus/dbus-object-tree.c'
CONN = 'dbus/dbus-connection.c'
NODE = 'DBusObjectSubtree'
NYH = 1          # DBUS_HANDLER_RESULT_NOT_YET_HANDLED, re-read from the enumerators below
INSERT = {'_dbus_list_append': 'tail', '_dbus_list_prepend': 'head'}


# ---------------------------------------------------------------------------
# helpers

def loop_of(fn, pred):
    """(head, body) of the innermost natural loop containing an event for which pred(ev) holds."""
    hit = [b for b, i, ev in fn.events() if pred(ev)]
    if not hit:
        return None
    cands = [(h, body) for h, body in lib.natural_loops(fn) if all(b in body for b in hit)]
    if not cands:
        return None
    return min(cands, key=lambda x: len(x[1]))


def single_defs(fn):
    """local id -> defining expression, for locals written exactly once (decl-init or one assignment)."""
    defs, count = {}, {}
    for b, i, ev in fn.events():
        for lhs, how, rhs in written_lvalues(ev):
            if is_ref(lhs) and lhs.get('kind') in ('local',) and 'id' in lhs:
                if how == 'decl' and rhs is None:
                    continue
                count[lhs['id']] = count.get(lhs['id'], 0) + 1
                defs[lhs['id']] = rhs if how in ('=', 'decl') else None
            elif how == 'decl' and isinstance(lhs, dict) and lhs.get('kind') == 'local' and rhs is not None:
                count[lhs['id']] = count.get(lhs['id'], 0) + 1
                defs[lhs['id']] = rhs
    return {i: d for i, d in defs.items() if count.get(i) == 1 and d is not None}


def lin(e, defs, depth=0):
    """Linear form {symbol: coeff, '': const} of e over +,-,* const; single-definition locals are expanded,
    anything else (members, parameters, loop variables) is a symbol named by its spelling."""
    if e is None or depth > 8:
        return None
    if is_int(e):
        return {'': e['v']}
    if is_ref(e):
        if e.get('id') in defs:
            return lin(defs[e['id']], defs, depth + 1)
        return {e['name']: 1}
    k = e.get('k')
    if k == 'member':
        return {estr(e): 1}
    if k == 'bin' and e['op'] in ('+', '-'):
        a, b = lin(e['l'], defs, depth + 1), lin(e['r'], defs, depth + 1)
        if a is None or b is None:
            return None
        out = dict(a)
        for s, v in b.items():
            out[s] = out.get(s, 0) + (v if e['op'] == '+' else -v)
        return {s: v for s, v in out.items() if v}
    if k == 'bin' and e['op'] == '*':
        a, b = lin(e['l'], defs, depth + 1), lin(e['r'], defs, depth + 1)
        if a is None or b is None:
            return None
        if set(a) <= {''}:
            a, b = b, a
        if set(b) <= {''}:
            c = b.get('', 0)
            return {s: v * c for s, v in a.items() if v * c}
        return None
    return None


def lin_sub(a, b):
    out = dict(a)
    for s, v in b.items():
        out[s] = out.get(s, 0) - v
    return {s: v for s, v in out.items() if v}


def elem_index(e):
    """&base[idx] or base + idx  ->  (base expr, idx expr)"""
    inner = strip_addr(e)
    if inner is not None and inner.get('k') == 'sub':
        return inner['base'], inner['idx']
    if e is not None and e.get('k') == 'bin' and e['op'] == '+':
        return e['l'], e['r']
    return None, None


def assert_branches(fn):
    """callback for symbolic_walk: a branch that only evaluates the argument of an assertion is taken on its
    'assertion holds' side (asserts are preconditions of the function, not part of the decision)"""
    texts = {}
    for b, i, c in fn.calls(('_dbus_real_assert',)):
        for x in walk(c['args'][0]):
            texts.setdefault(c['line'], set()).add(estr(x))
    lines = {}
    for b, i, c in fn.calls(('_dbus_real_assert',)):
        lines[c['line']] = True

    def unknown(blk):
        t = blk.get('term') or {}
        c = t.get('cond')
        if c is None:
            return None
        for ln, tx in texts.items():
            if estr(c) in tx and abs(t.get('line', -99) - ln) <= 3:
                return 1
        return None
    return unknown


def param_id(fn, idx):
    return fn.params[idx]['id'] if len(fn.params) > idx else None


def member_of(e, field, base_id=None):
    return is_member(e, field, NODE) and (base_id is None or (is_ref(e['base']) and e['base'].get('id') == base_id))


# ---------------------------------------------------------------------------
# C20.1 which nodes are offered the message

def c20_1(ck, prog):
    r = ck.rule('C20.1', 'the handlers offered a message are collected on the walk from the deepest covering node '
                'to the root through ->parent; a node is included exactly when it has a handler and is either the '
                'exact match or a fallback registration, and only the first node of the walk can count as exact',
                'DEC', breaks='a non-fallback handler of an ancestor path is offered messages for its descendants, '
                'or a fallback / exact handler is skipped', floor=10)
    fn = prog.fn('_dbus_object_tree_dispatch_and_unlock', OT)
    fh = [c for b, i, c in fn.calls('find_handler')]
    if len(fh) != 1 or len(fh[0]['args']) < 3:
        raise AnalysisBroken('dispatch: expected one find_handler call')
    em = strip_addr(fh[0]['args'][2])
    if em is None or not is_ref(em):
        raise AnalysisBroken('dispatch: exact-match out-parameter of find_handler not a local')
    em_id = em['id']
    # the walk: node = node->parent
    steps = []
    for b, i, ev in fn.events():
        for lhs, how, rhs in written_lvalues(ev):
            if is_ref(lhs) and how == '=' and rhs is not None and is_member(rhs, 'parent', NODE) \
                    and is_ref(rhs['base']) and rhs['base'].get('id') == lhs.get('id'):
                steps.append((b, ev, lhs['id']))
    if len(steps) != 1:
        raise AnalysisBroken('dispatch: expected one "node = node->parent" step, found %d' % len(steps))
    sb, sev, node_id = steps[0]
    lp = loop_of(fn, lambda ev: ev is sev)
    if lp is None:
        raise AnalysisBroken('dispatch: the ->parent step is not inside a loop')
    head, body = lp
    # the node is the result of find_handler
    ok_origin = any(is_ref(lhs) and lhs.get('id') == node_id and is_call(rhs, 'find_handler')
                    for b, i, ev in fn.events() for lhs, how, rhs in written_lvalues(ev) if rhs is not None)
    if ok_origin:
        r.ok('dispatch:walk-starts-at-find_handler-result')
    else:
        r.violation('dispatch:walk-starts-at-find_handler-result', fn.name, OT, sev['line'],
                    'the walk towards the root does not start at the node find_handler returned')
    # every other write of the node variable inside the loop
    for b, i, ev in fn.events():
        if b not in body:
            continue
        for lhs, how, rhs in written_lvalues(ev):
            if is_ref(lhs) and lhs.get('id') == node_id and ev is not sev:
                r.violation('dispatch:walk-step', fn.name, OT, ev['line'],
                            'inside the collecting loop the node variable is also set to %s: the walk no longer '
                            'follows ->parent only' % estr(rhs))
    ins = [(b, c) for b, i, c in fn.calls(tuple(INSERT)) if b in body
           and len(c['args']) > 1 and is_ref(c['args'][1]) and c['args'][1].get('id') == node_id]
    if len(ins) < 1:
        raise AnalysisBroken('dispatch: no list insertion of the node inside the collecting loop')
    ins_ids = {c['id'] for b, c in ins}
    first_body = [s for s in fn.blocks[head]['succs'] if s in body and s != head]
    if not first_body:
        raise AnalysisBroken('dispatch: collecting loop has no body')
    start = first_body[0]
    table = []
    for h in (0, 1):
        for e in (0, 1):
            for f in (0, 1):
                def val(x, h=h, e=e, f=f):
                    if member_of(x, 'message_function', node_id):
                        return h
                    if member_of(x, 'invoke_as_fallback', node_id):
                        return f
                    if is_ref(x) and x.get('id') == em_id:
                        return e
                    if is_call(x) and x['id'] in ins_ids:
                        return 1
                    if is_call(x, ('_dbus_object_subtree_ref',)):
                        return 1
                    return None

                def stop(blk, ev):
                    if ev is sev:
                        return 'step'
                    if ev is None and blk['id'] not in body:
                        return 'left'
                    return None
                seen, lab = lib.symbolic_walk(fn, start, val, stop)
                got = any(x['ev'] == 'call' and x['e']['id'] in ins_ids for x in seen)
                want = bool(h and (e or f))
                table.append({'has_handler': h, 'exact': e, 'fallback': f, 'offered': got})
                key = 'dispatch:include[h=%d,exact=%d,fallback=%d]' % (h, e, f)
                if lab != 'step':
                    r.violation(key, fn.name, OT, sev['line'], 'with a successful insertion the loop body does not '
                                'reach the ->parent step (ended at %s)' % lab)
                elif got != want:
                    r.violation(key, fn.name, OT, ins[0][1]['line'],
                                'a node with handler=%d, exact-match=%d, fallback=%d is %s the list of handlers to '
                                'offer the message to; the rule is handler && (exact || fallback)'
                                % (h, e, f, 'put on' if got else 'left off'))
                else:
                    r.ok(key)
    r.note('inclusion table extracted from the loop body: %s' % table)

    # only the first node can be the exact match: the flag is FALSE on every back edge
    bad = {}

    def on_transfer(user, frm, to, ctx):
        if frm in body and to == head:
            v = ctx.env.get(('v', em_id))
            if not (v and v[0] == 'c' and v[1] == 0):
                bad[frm] = ctx.trace()
    Explorer(fn, on_transfer=on_transfer, track={em['name']}, cap=200000).run()
    if bad:
        for frm, path in bad.items():
            r.violation('dispatch:exact-only-first@%d' % frm, fn.name, OT, sev['line'],
                        'the exact-match flag can still be set when the walk moves on to an ancestor: a non-fallback '
                        'handler registered on an ancestor path would be offered the message', path)
    else:
        r.ok('dispatch:exact-only-first')


# ---------------------------------------------------------------------------
# C20.2 offering order and stop condition

def c20_2(ck, prog):
    r = ck.rule('C20.2', 'the collected handlers are invoked deepest first, each with its own user data, and the '
                'offering stops exactly when a handler answers something other than NOT_YET_HANDLED', 'DEC',
                breaks='an ancestor fallback sees the message before the exact handler, a handler is called with '
                'another registration\'s data, a later handler runs after one handled the message, or the '
                'remaining fallbacks are skipped after a handler declined', floor=6)
    fn = prog.fn('_dbus_object_tree_dispatch_and_unlock', OT)
    nyh = prog.enums.get('DBUS_HANDLER_RESULT_NOT_YET_HANDLED', NYH)
    ind = [(b, ev) for b, i, ev in fn.events() if ev['ev'] == 'call' and not ev['e'].get('callee')
           and ev['e'].get('fn') is not None]
    if len(ind) != 1:
        raise AnalysisBroken('dispatch: expected one call through a handler pointer, found %d' % len(ind))
    ib, iev = ind[0]
    call = iev['e']
    lp = loop_of(fn, lambda ev: ev is iev)
    if lp is None:
        raise AnalysisBroken('dispatch: the handler invocation is not inside a loop')
    head, body = lp
    # the variable receiving the handler's answer
    res = [lhs for b, i, ev in fn.events() for lhs, how, rhs in written_lvalues(ev)
           if rhs is not None and rhs.get('k') == 'call' and rhs.get('id') == call['id'] and is_ref(lhs)]
    if len(res) != 1:
        r.violation('dispatch:answer-kept', fn.name, OT, call['line'],
                    'the handler\'s answer is not stored in a variable: it cannot decide whether to go on')
        return
    res_id = res[0]['id']
    r.ok('dispatch:answer-kept')
    # the answer is what the function returns
    rets = [ev for b, i, ev in fn.events() if ev['ev'] == 'return' and b not in body]
    final = [ev for ev in rets if is_ref(ev.get('e')) and ev['e'].get('id') == res_id]
    if final:
        r.ok('dispatch:answer-returned')
    else:
        r.violation('dispatch:answer-returned', fn.name, OT, fn.line,
                    'the function does not return the variable holding the handlers\' answer')
    # stop condition, decided over the three values of DBusHandlerResult
    after = None
    blk = fn.blocks[ib]
    idx = [k for k, ev in enumerate(blk['events']) if ev is iev][0]
    for v in (0, 1, 2):
        def val(x, v=v):
            if is_ref(x) and x.get('id') == res_id:
                return v
            if is_member(x, 'connection', 'DBusObjectTree'):
                return 1
            return None
        state = {'started': False}

        def stop(b2, ev, state=state):
            if ev is None and state['started']:
                if b2['id'] == head:
                    return 'next-handler'
                if b2['id'] not in body:
                    return 'stopped'
            if ev is iev:
                state['started'] = True
            return None
        # walk from the invoking block; events before the invocation are harmless re-evaluations
        seen, lab = lib.symbolic_walk(fn, ib, val, stop)
        want = 'next-handler' if v == nyh else 'stopped'
        key = 'dispatch:after-answer=%d' % v
        if lab == want:
            r.ok(key)
        else:
            r.violation(key, fn.name, OT, call['line'],
                        'after a handler answered %d (%s) the loop %s' % (
                            v, {0: 'HANDLED', 1: 'NOT_YET_HANDLED', 2: 'NEED_MEMORY'}.get(v, '?'),
                            'goes on to the next handler' if lab == 'next-handler' else
                            'stops offering the message' if lab == 'stopped' else 'ends at ' + lab))
    # pointer and data come from the same node, which is the current link's data
    fexpr = call['fn']
    while fexpr is not None and fexpr.get('k') == 'un' and fexpr['op'] == '*':
        fexpr = fexpr['e']
    defs_in_loop = {}
    for b, i, ev in fn.events():
        if b not in body:
            continue
        for lhs, how, rhs in written_lvalues(ev):
            if is_ref(lhs) and 'id' in lhs and rhs is not None and how in ('=', 'decl'):
                defs_in_loop.setdefault(lhs['id'], []).append(rhs)
            elif how == 'decl' and isinstance(lhs, dict) and 'id' in lhs and rhs is not None:
                defs_in_loop.setdefault(lhs['id'], []).append(rhs)

    def resolve(e):
        if is_ref(e) and e.get('id') in defs_in_loop and len(defs_in_loop[e['id']]) == 1:
            return defs_in_loop[e['id']][0]
        return e
    fsrc = resolve(fexpr)
    usrc = resolve(call['args'][2]) if len(call['args']) > 2 else None
    if is_member(fsrc, 'message_function', NODE) and is_member(usrc, 'user_data', NODE) \
            and same_expr(fsrc['base'], usrc['base']):
        node = resolve(fsrc['base'])
        if is_member(node, 'data', 'DBusList'):
            r.ok('dispatch:own-user-data')
        else:
            r.violation('dispatch:own-user-data', fn.name, OT, call['line'],
                        'the invoked node (%s) is not the data of the current list link' % estr(node))
    else:
        r.violation('dispatch:own-user-data', fn.name, OT, call['line'],
                    'the handler %s is invoked with user data %s: not the message_function / user_data of one node'
                    % (estr(fsrc), estr(usrc)))
    if len(call['args']) > 1 and is_ref(call['args'][1]) and call['args'][1].get('id') == param_id(fn, 1):
        r.ok('dispatch:same-message')
    else:
        r.violation('dispatch:same-message', fn.name, OT, call['line'], 'the handler is not given the incoming message')
    # deepest first: insertion end and traversal direction agree
    ins = {INSERT[c['callee']] for b, i, c in fn.calls(tuple(INSERT))}
    starts = set()
    for b, i, ev in fn.events():
        if b in body:
            continue
        for lhs, how, rhs in written_lvalues(ev):
            if rhs is not None and is_call(rhs, ('_dbus_list_get_first_link', '_dbus_list_get_last_link')):
                starts.add('first' if rhs['callee'].endswith('first_link') else 'last')
    stepdir = set()
    for b, i, ev in fn.events():
        if b not in body:
            continue
        for x in walk(event_expr(ev)):
            if is_member(x, 'next', 'DBusList') or is_call(x, '_dbus_list_get_next_link'):
                stepdir.add('next')
            if is_member(x, 'prev', 'DBusList') or is_call(x, '_dbus_list_get_prev_link'):
                stepdir.add('prev')
    for bid in body:
        t = fn.blocks[bid].get('term')
        if t and t.get('cond') is not None:
            for x in walk(t['cond']):
                if is_member(x, 'next', 'DBusList'):
                    stepdir.add('next')
                if is_member(x, 'prev', 'DBusList'):
                    stepdir.add('prev')
    # the clean-up loop also fetches the first link; it is outside `body` and only frees: accept 'first' there
    combo = (tuple(sorted(ins)), tuple(sorted(stepdir)))
    good = combo in ((('tail',), ('next',)), (('head',), ('prev',)))
    if good and (('first' in starts) if combo[0] == ('tail',) else ('last' in starts)):
        r.ok('dispatch:deepest-first')
    else:
        r.violation('dispatch:deepest-first', fn.name, OT, call['line'],
                    'nodes are collected deepest first by inserting at the %s of the list, but the invoking loop '
                    'starts at %s and steps by %s: ancestors would be offered the message before the deeper handler'
                    % ('/'.join(sorted(ins)), '/'.join(sorted(starts)) or '?', '/'.join(sorted(stepdir)) or '?'))


# ---------------------------------------------------------------------------
# C20.3 UnknownMethod / UnknownObject

def sel_str(e, val):
    """evaluate a string-valued selection (?:) under val; returns the literal or None"""
    if e is None:
        return None
    if e.get('k') == 'str':
        return e['v']
    if e.get('k') == 'cond':
        t = lib.eval_expr(e['c'], val)
        if t is None:
            return None
        return sel_str(e['a'] if t else e['b'], val)
    return None


def c20_3(ck, prog):
    r = ck.rule('C20.3', 'the "an object exists here" answer is exactly "the lookup found a covering node", and the '
                'automatic error for an unhandled call is UnknownMethod when it is set and UnknownObject otherwise',
                'DEC', breaks='callers get UnknownObject for existing objects (or UnknownMethod for paths nobody '
                'registered)', floor=3)
    fn = prog.fn('_dbus_object_tree_dispatch_and_unlock', OT)
    fo = param_id(fn, 2)
    writes = []

    def on_event(user, ev, ctx):
        for lhs, how, rhs in written_lvalues(ev):
            if lhs.get('k') == 'un' and lhs['op'] == '*' and is_ref(lhs['e']) and lhs['e'].get('id') == fo:
                a, s = norm_cond(rhs)
                okv = False
                if a is not None and a[0] == 'truthy' and s is True:
                    o = ctx.origin_call(a[1])
                    if o is not None and o[1] == 'result' and ctx.ex.call_names.get(o[0]) == 'find_handler':
                        okv = True
                writes.append((ev['line'], okv, estr(rhs)))
                if not okv:
                    ctx.report('*found_object is set to %s, which is not "find_handler returned a node"' % estr(rhs),
                               ev['line'], key=('found', ev['line']))
        return user
    nodes = {lhs['name'] for b, i, ev in fn.events() for lhs, how, rhs in written_lvalues(ev)
             if is_ref(lhs) and rhs is not None and is_call(rhs, 'find_handler')}
    ex = Explorer(fn, on_event=on_event, track=nodes or None, calls={'find_handler'}, cap=200000).run()
    if not writes:
        r.violation('dispatch:found_object', fn.name, OT, fn.line, 'found_object is never written')
    elif ex.reports:
        r.from_reports(ex.reports, keyfn=lambda k, rep: 'dispatch:found_object')
    else:
        r.ok('dispatch:found_object', {'value': writes[0][2]})
    # find_handler asks for the deepest covering node, never creates
    fh = prog.fn('find_handler', OT)
    calls = [c for b, i, c in fh.calls('find_subtree_recurse')]
    okc = len(calls) == 1 and len(calls[0]['args']) == 5 and is_int(calls[0]['args'][2], 0) \
        and is_ref(calls[0]['args'][4]) and calls[0]['args'][4].get('id') == param_id(fh, 2) \
        and is_member(calls[0]['args'][0], 'root', 'DBusObjectTree') \
        and is_ref(calls[0]['args'][1]) and calls[0]['args'][1].get('id') == param_id(fh, 1)
    (r.ok('find_handler:deepest-match-from-root') if okc else
     r.violation('find_handler:deepest-match-from-root', fh.name, OT, fh.line,
                 'find_handler no longer looks the path up from the root in deepest-match, non-creating mode'))
    # error selection in dbus_connection_dispatch
    d = prog.fn('dbus_connection_dispatch', CONN)
    tc = [c for b, i, c in d.calls('_dbus_object_tree_dispatch_and_unlock')]
    if len(tc) != 1:
        raise AnalysisBroken('dbus_connection_dispatch: expected one object-tree dispatch call')
    fv = strip_addr(tc[0]['args'][2]) if len(tc[0]['args']) > 2 else None
    if fv is None or not is_ref(fv):
        r.violation('dispatch:error-selection', d.name, CONN, tc[0]['line'],
                    'the object tree is not asked whether an object was found')
        return
    fid = fv['id']
    for b, i, ev in d.events():
        for lhs, how, rhs in written_lvalues(ev):
            if is_ref(lhs) and lhs.get('id') == fid and not (how == '&arg' and rhs is tc[0]) and how != 'decl':
                if how == '=' and is_int(rhs):
                    continue
                r.violation('dispatch:found-flag-rewritten', d.name, CONN, ev['line'],
                            'the found-object flag is overwritten (%s) outside the object tree' % how)
    errs = {c['id'] for b, i, c in d.calls('dbus_message_new_error')}
    if not errs:
        raise AnalysisBroken('dbus_connection_dispatch: no dbus_message_new_error call')
    want = {True: 'org.freedesktop.DBus.Error.UnknownMethod', False: 'org.freedesktop.DBus.Error.UnknownObject'}
    names = set()
    for b, i, c in d.calls('dbus_message_new_error'):
        if len(c['args']) > 1 and is_ref(c['args'][1]):
            names.add(c['args'][1]['name'])
    seen = {}

    def akey(atom, resolve):
        if atom[0] == 'truthy' and is_ref(atom[1]) and atom[1].get('id') == fid:
            return 'found'
        return None

    def on_event(user, ev, ctx):
        if ev['ev'] == 'call' and ev['e']['id'] in errs:
            c = ev['e']
            found = ctx.atom('found')
            name = c['args'][1] if len(c['args']) > 1 else None
            got = None
            if name is not None and name.get('k') == 'str':
                got = name['v']
            elif name is not None and name.get('k') == 'cond':
                got = sel_str(name, lambda x: (None if found is None else int(found))
                              if (is_ref(x) and x.get('id') == fid) else None)
            elif is_ref(name):
                v = ctx.var(name)
                if v and v[0] == 'nz' and len(v) > 1:
                    got = v[1]
            if found is None and name is not None and name.get('k') == 'str':
                ctx.report('the automatic error is %s whatever the object tree found' % got, c['line'],
                           key=('constant', c['line']))
            elif found is None or got is None:
                ctx.report('cannot relate the error name %s to the found-object flag on this path' % estr(name),
                           c['line'], key=('undecided', c['line']))
            else:
                seen[found] = got
                if got != want[found]:
                    ctx.report('object %s -> error name %s; the specified choice is %s' % (
                        'found' if found else 'not found', got, want[found]), c['line'], key=('wrong', found))
        return user
    ex = Explorer(d, on_event=on_event, atom_key=akey, track=names or None, cap=600000).run()
    if ex.reports:
        bad = [k for k in ex.reports if k[0] == 'undecided']
        if bad and len(bad) == len(ex.reports):
            raise AnalysisBroken('dbus_connection_dispatch: error-name selection not recognised')
        r.from_reports(ex.reports, keyfn=lambda k, rep: 'dispatch:error-selection')
    elif set(seen) == {True, False}:
        r.ok('dispatch:error-selection', {'table': {str(k): v for k, v in seen.items()}})
    else:
        raise AnalysisBroken('dbus_connection_dispatch: the error reply is not built for both answers of the tree')


# ---------------------------------------------------------------------------
# C20.4 what the lookup may return

def c20_4(ck, prog):
    r = ck.rule('C20.4', 'the lookup returns a node other than the one the whole path leads to only in '
                'deepest-match mode and only if that node is a fallback registration; it reports "exact" only when '
                'the path was exhausted', 'TS',
                breaks='a plain (non-fallback) registration captures calls to paths below it, or a call to an '
                'unregistered child of a fallback is treated as an exact match', floor=3)
    fn = prog.fn('find_subtree_recurse', OT)
    me, pth, emp = param_id(fn, 0), param_id(fn, 1), param_id(fn, 4)
    rdm_names = set()
    for b, i, ev in fn.events():
        for lhs, how, rhs in written_lvalues(ev):
            if is_ref(lhs) and lhs.get('kind') == 'local' and rhs is not None and how in ('=', 'decl'):
                a0, s0 = norm_cond(rhs)
                if a0 is not None and a0[0] == 'truthy' and is_ref(a0[1]) and a0[1].get('id') == emp:
                    rdm_names.add(lhs['name'])
    for blk in fn.blocks.values():
        t = blk.get('term')
        if t and t.get('split_bool'):
            tb = fn.blocks[blk['succs'][0]]
            if tb['events'] and is_ref(tb['events'][0]['e']['l']):
                a0, s0 = norm_cond(t['cond'])
                if a0 is not None and a0[0] == 'truthy' and is_ref(a0[1]) and a0[1].get('id') == emp:
                    rdm_names.add(tb['events'][0]['e']['l']['name'])

    def akey(atom, resolve):
        if atom[0] == 'truthy':
            e = atom[1]
            if e.get('k') == 'sub' and is_ref(e['base']) and e['base'].get('id') == pth and is_int(e['idx'], 0):
                return 'more-path'
            if is_ref(e) and (e.get('id') == emp or (e.get('kind') == 'local' and e.get('name') in rdm_names)):
                return ('deepest-mode', frozenset())
            if member_of(e, 'invoke_as_fallback', me):
                return 'is-fallback'
        return None
    nret = [0]

    def on_event(user, ev, ctx):
        for lhs, how, rhs in written_lvalues(ev):
            if lhs.get('k') == 'un' and lhs['op'] == '*' and is_ref(lhs['e']) and lhs['e'].get('id') == emp:
                return ('em', rhs['v'] if is_int(rhs) else '?')
        return user

    def truth(ctx, x):
        if is_ref(x) and x.get('id') == me:
            return None
        a, s = norm_cond(x)
        if a is None:
            return None
        k = akey(a, None)
        if k is not None:
            v = ctx.atom(k)
            if isinstance(v, bool):
                return int(v == s)
        t = ctx.truth_of(x)
        return None if t is None else int(t)

    def on_exit(user, ctx, ret, ev):
        if ret is None:
            return
        own = None
        if is_ref(ret) and ret.get('id') == me:
            own = True
        elif ret.get('k') == 'cond':
            t = lib.eval_expr(ret['c'], lambda x: truth(ctx, x) if x.get('k') in ('ref', 'member', 'sub') else None)
            if t is None:
                ctx.report('cannot decide which node %s returns' % estr(ret), ev['line'], key=('undecided', ev['line']))
                return
            pick = ret['a'] if t else ret['b']
            own = is_ref(pick) and pick.get('id') == me
        if not own:
            return
        nret[0] += 1
        more = ctx.atom('more-path')
        mode = ctx.atom(('deepest-mode', frozenset()))
        if mode is None:
            for nm in rdm_names:
                for k, v in ctx.env.items():
                    if k[0] == 'v' and ctx.ex.tracked.get(k[1]) == nm and v[0] == 'c':
                        mode = bool(v[1])
        fb = ctx.atom('is-fallback')
        lastw = user[1] if user else None
        if more is False:
            if mode is not False and lastw != 1:
                ctx.report('the node the whole path leads to is returned without reporting an exact match',
                           ev['line'], key=('exact-not-set', ev['line']))
            return
        if mode is not True:
            ctx.report('a node that only covers part of the path is returned outside deepest-match mode',
                       ev['line'], key=('partial-outside-mode', ev['line']))
        if fb is not True:
            ctx.report('a node that only covers part of the path is returned although it was not found to be a '
                       'fallback registration: a plain handler would capture calls below its path', ev['line'],
                       key=('partial-not-fallback', ev['line']))
        if lastw != 0:
            ctx.report('a node that only covers part of the path is returned while the exact-match answer is %s'
                       % ('TRUE' if lastw == 1 else 'left unset'), ev['line'], key=('partial-exact', ev['line']))
    ex = Explorer(fn, on_event=on_event, on_exit=on_exit, atom_key=akey, track=rdm_names | {'next'},
                  calls={'find_subtree_recurse'}, cap=400000).run()
    if nret[0] < 3:
        raise AnalysisBroken('find_subtree_recurse: fewer than three exits returning the current node were seen '
                             '(%d)' % nret[0])
    if ex.reports:
        r.from_reports(ex.reports, keyfn=lambda k, rep: 'find_subtree_recurse:%s@%s' % (k[0], rep['line']))
    else:
        r.ok('find_subtree_recurse:exhausted-is-exact')
        r.ok('find_subtree_recurse:partial-needs-fallback')
        r.ok('find_subtree_recurse:partial-is-not-exact')
    # recursion descends one element: child k, &path[1]
    rec = [c for b, i, c in fn.calls('find_subtree_recurse')]
    for c in rec:
        a1 = strip_addr(c['args'][1]) if len(c['args']) > 1 else None
        ok1 = a1 is not None and a1.get('k') == 'sub' and is_ref(a1['base']) and a1['base'].get('id') == pth \
            and is_int(a1['idx'], 1)
        ok_rest = all(is_ref(c['args'][j]) and c['args'][j].get('id') == param_id(fn, j) for j in (2, 3, 4))
        key = 'find_subtree_recurse:descend@%d' % c['line']
        if ok1 and ok_rest:
            r.ok(key)
        else:
            r.violation(key, fn.name, OT, c['line'], 'the recursive lookup %s does not pass the rest of the path '
                        '(&path[1]) and the unchanged mode arguments' % estr(c)[:140])


# ---------------------------------------------------------------------------
# C20.5 sorted children: search, insertion, removal agree

def search_shape(fn, r, tag):
    """binary search over subtree->subtrees by strcmp (path[0], child->name)"""
    me, pth = param_id(fn, 0), param_id(fn, 1)
    sc = [(b, c) for b, i, c in fn.calls('strcmp')]
    if len(sc) != 1:
        raise AnalysisBroken('%s: expected one strcmp, found %d' % (fn.name, len(sc)))
    sb, c = sc[0]
    a0, a1 = c['args'][0], c['args'][1]
    ok0 = a0.get('k') == 'sub' and is_ref(a0['base']) and a0['base'].get('id') == pth and is_int(a0['idx'], 0)
    kvar = None
    ok1 = False
    if is_member(a1, 'name', NODE) and a1['base'].get('k') == 'sub' and member_of(a1['base']['base'], 'subtrees', me) \
            and is_ref(a1['base']['idx']):
        ok1 = True
        kvar = a1['base']['idx']
    key = '%s:compare' % tag
    if ok0 and ok1:
        r.ok(key)
    else:
        r.violation(key, fn.name, OT, c['line'], 'children are sorted by strcmp (element, child->name); the search '
                    'compares %s' % estr(c))
        return None
    vvar = [lhs for b, i, ev in fn.events() for lhs, how, rhs in written_lvalues(ev)
            if rhs is not None and rhs.get('k') == 'call' and rhs.get('id') == c['id'] and is_ref(lhs)]
    if len(vvar) != 1:
        raise AnalysisBroken('%s: strcmp result not stored' % fn.name)
    vid = vvar[0]['id']
    lp = loop_of(fn, lambda ev: ev.get('e') is c)
    if lp is None:
        raise AnalysisBroken('%s: strcmp not inside a loop' % fn.name)
    head, body = lp
    hc = (fn.blocks[head].get('term') or {}).get('cond')
    a, s = norm_cond(hc)
    if not (a and a[0] == 'cmp' and a[1] == '<' and s is True and is_ref(a[2]) and is_ref(a[3])):
        r.violation('%s:loop-condition' % tag, fn.name, OT, fn.blocks[head]['term']['line'],
                    'the search loop runs while %s, not while lo < hi' % estr(hc))
        return None
    lo, hi = a[2], a[3]
    r.ok('%s:loop-condition' % tag)
    # initial bounds
    init = {}
    for b, i, ev in fn.events():
        if b in body:
            continue
        for lhs, how, rhs in written_lvalues(ev):
            if is_ref(lhs) and lhs.get('id') in (lo['id'], hi['id']) and rhs is not None:
                init.setdefault(lhs['id'], []).append(rhs)
    oki = init.get(lo['id']) and all(is_int(x, 0) for x in init[lo['id']]) and init.get(hi['id']) \
        and all(member_of(x, 'n_subtrees', me) for x in init[hi['id']])
    (r.ok('%s:bounds' % tag) if oki else
     r.violation('%s:bounds' % tag, fn.name, OT, fn.line, 'the search does not start with lo = 0, hi = n_subtrees'))
    # midpoint
    kd = [rhs for b, i, ev in fn.events() for lhs, how, rhs in written_lvalues(ev)
          if is_ref(lhs) and lhs.get('id') == kvar['id'] and rhs is not None]
    okm = len(kd) == 1 and kd[0].get('k') == 'bin' and kd[0]['op'] == '/' and is_int(kd[0]['r'], 2) \
        and lin(kd[0]['l'], {}) == {lo['name']: 1, hi['name']: 1}
    (r.ok('%s:midpoint' % tag) if okm else
     r.violation('%s:midpoint' % tag, fn.name, OT, c['line'], 'the probe index is not (lo + hi) / 2'))
    # three-way decision
    for v in (-1, 0, 1):
        def val(x, v=v):
            if is_ref(x) and x.get('id') == vid:
                return v
            if is_ref(x) and x.get('kind') == 'param':
                return 0
            if is_ref(x) and x.get('kind') == 'local' and x.get('id') not in (lo['id'], hi['id'], kvar['id']):
                return 0
            return None
        st = {'go': False}

        def stop(b2, ev, st=st):
            if ev is None:
                if st['go'] and b2['id'] == head:
                    return 'again'
                return None
            if ev.get('e') is c:
                st['go'] = True
                return None
            if st['go'] and ev['ev'] == 'call' and ev['e'].get('callee') == fn.name:
                return 'found'
            return None
        try:
            seen, lab = lib.symbolic_walk(fn, sb, val, stop, unknown=assert_branches(fn))
        except AnalysisBroken:
            seen, lab = [], 'undecidable'
        wr = []
        for ev in seen:
            for lhs, how, rhs in written_lvalues(ev):
                if is_ref(lhs) and lhs.get('id') in (lo['id'], hi['id']):
                    wr.append((lhs['name'], lin(rhs, {}) if rhs is not None else None))
        key = '%s:cmp%s0' % (tag, '<' if v < 0 else '=' if v == 0 else '>')
        if v == 0:
            good = lab == 'found' and not wr
            why = 'on an equal name the search must descend into that child'
        elif v < 0:
            good = lab == 'again' and wr == [(hi['name'], {kvar['name']: 1})]
            why = 'when the element sorts before child k the search continues with hi = k'
        else:
            good = lab == 'again' and wr == [(lo['name'], {kvar['name']: 1, '': 1})]
            why = 'when the element sorts after child k the search continues with lo = k + 1'
        if good:
            r.ok(key)
        else:
            r.violation(key, fn.name, OT, c['line'], '%s; found: %s, bounds written %s' % (why, lab, wr))
    return {'lo': lo, 'hi': hi, 'k': kvar, 'head': head, 'body': body}


def c20_5(ck, prog):
    r = ck.rule('C20.5', 'children are kept sorted by name: lookup and removal use the same binary search, a new '
                'child is inserted at the position where the search ended, and insertion / removal shift exactly '
                'the tail of the array', 'DEC',
                breaks='sibling names that sort adjacently are lost, duplicated or found in the wrong node; '
                'registration or unregistration corrupts a neighbour', floor=16)
    f = prog.fn('find_subtree_recurse', OT)
    u = prog.fn('unregister_and_free_path_recurse', OT)
    sf = search_shape(f, r, 'lookup')
    su = search_shape(u, r, 'remove')
    me = param_id(f, 0)
    defs = single_defs(f)
    if sf:
        mm = [c for b, i, c in f.calls(('memmove', 'memcpy'))]
        if len(mm) != 1:
            raise AnalysisBroken('find_subtree_recurse: expected one memmove')
        c = mm[0]
        db, di = elem_index(c['args'][0])
        sbb, si = elem_index(c['args'][1])
        ld, ls, ln = lin(di, defs), lin(si, defs), lin(c['args'][2], defs)
        lo = sf['lo']['name']
        nsub = 'subtree->n_subtrees'
        okm = c['callee'] == 'memmove' and db is not None and sbb is not None and member_of(db, 'subtrees', me) \
            and member_of(sbb, 'subtrees', me) and ls == {lo: 1} and ld == {lo: 1, '': 1}
        (r.ok('insert:shift-from-search-position') if okm else
         r.violation('insert:shift-from-search-position', f.name, OT, c['line'],
                     'the tail must move from index lo (where the search ended) to lo + 1 with memmove; found %s'
                     % estr(c)[:160]))
        want = {k: 8 * v for k, v in {nsub: 1, lo: -1}.items()}
        if ln is not None and (ln == want or ln == {k: v // 8 for k, v in want.items()}):
            r.ok('insert:shift-count')
        else:
            r.violation('insert:shift-count', f.name, OT, c['line'],
                        'the number of shifted children must be n_subtrees - lo (old count); found %s' % estr(c['args'][2]))
        # store, count, parent
        st = [(lhs, rhs, ev) for b, i, ev in f.events() for lhs, how, rhs in written_lvalues(ev)
              if lhs.get('k') == 'sub' and member_of(lhs['base'], 'subtrees', me) and how == '=']
        oks = len(st) == 1 and lin(st[0][0]['idx'], defs) == {lo: 1} and is_ref(st[0][1]) \
            and any(is_call(d, '_dbus_object_subtree_new') for d in [defs.get(st[0][1].get('id'))] if d is not None)
        if not oks and len(st) == 1 and is_ref(st[0][1]):
            # child is assigned once from _dbus_object_subtree_new but tested in between: look at all writes
            cw = [rhs for b, i, ev in f.events() for lhs, how, rhs in written_lvalues(ev)
                  if is_ref(lhs) and lhs.get('id') == st[0][1].get('id') and rhs is not None]
            oks = lin(st[0][0]['idx'], defs) == {lo: 1} and cw and all(is_call(x, '_dbus_object_subtree_new') for x in cw)
        (r.ok('insert:store-at-search-position') if oks else
         r.violation('insert:store-at-search-position', f.name, OT, st[0][2]['line'] if st else f.line,
                     'the new child must be stored at index lo'))
        cnt = [(rhs, ev) for b, i, ev in f.events() for lhs, how, rhs in written_lvalues(ev)
               if member_of(lhs, 'n_subtrees', me) and how != '&arg']
        okc = len(cnt) == 1 and ((cnt[0][1]['ev'] == 'assign' and cnt[0][1]['e']['op'] == '=' and
                                  lin(cnt[0][0], defs) == {nsub: 1, '': 1}) or
                                 (cnt[0][1]['ev'] == 'incdec' and cnt[0][1]['e']['op'] == '++') or
                                 (cnt[0][1]['ev'] == 'assign' and cnt[0][1]['e']['op'] == '+=' and is_int(cnt[0][0], 1)))
        (r.ok('insert:count+1') if okc else
         r.violation('insert:count+1', f.name, OT, cnt[0][1]['line'] if cnt else f.line,
                     'inserting a child must increase n_subtrees by exactly one'))
        par = [(lhs, rhs, ev) for b, i, ev in f.events() for lhs, how, rhs in written_lvalues(ev)
               if is_member(lhs, 'parent', NODE) and how == '=']
        okp = len(par) == 1 and is_ref(par[0][1]) and par[0][1].get('id') == me and st and is_ref(st[0][1]) \
            and is_ref(par[0][0]['base']) and par[0][0]['base'].get('id') == st[0][1].get('id')
        (r.ok('insert:parent-link') if okp else
         r.violation('insert:parent-link', f.name, OT, par[0][2]['line'] if par else f.line,
                     'the new child\'s parent must be the node it was inserted under (the dispatch walk follows '
                     '->parent)'))
        # the name of the new node is the path element searched for
        nw = [c2 for b, i, c2 in f.calls('_dbus_object_subtree_new')]
        okn = nw and all(c2['args'][0].get('k') == 'sub' and is_ref(c2['args'][0]['base'])
                         and c2['args'][0]['base'].get('id') == param_id(f, 1) and is_int(c2['args'][0]['idx'], 0)
                         for c2 in nw)
        (r.ok('insert:name-is-element') if okn else
         r.violation('insert:name-is-element', f.name, OT, nw[0]['line'] if nw else f.line,
                     'the new child is not named after the path element that was searched for'))
    # removal
    a = prog.fn('attempt_child_removal', OT)
    par_id, idx_id = param_id(a, 0), param_id(a, 1)
    adefs = single_defs(a)
    mm = [c for b, i, c in a.calls(('memmove', 'memcpy'))]
    if len(mm) != 1:
        raise AnalysisBroken('attempt_child_removal: expected one memmove')
    c = mm[0]
    db, di = elem_index(c['args'][0])
    sbb, si = elem_index(c['args'][1])
    iname = a.params[1]['name']
    nsub = '%s->n_subtrees' % a.params[0]['name']
    okm = c['callee'] == 'memmove' and db is not None and sbb is not None and member_of(db, 'subtrees', par_id) \
        and member_of(sbb, 'subtrees', par_id) and lin(di, adefs) == {iname: 1} and lin(si, adefs) == {iname: 1, '': 1}
    (r.ok('remove:shift-over-removed') if okm else
     r.violation('remove:shift-over-removed', a.name, OT, c['line'],
                 'the tail must move from index + 1 to index with memmove; found %s' % estr(c)[:160]))
    ln = lin(c['args'][2], adefs)
    want = {nsub: 8, iname: -8, '': -8}
    (r.ok('remove:shift-count') if ln == want else
     r.violation('remove:shift-count', a.name, OT, c['line'],
                 'the number of shifted children must be n_subtrees - index - 1; found %s' % estr(c['args'][2])))
    cnt = [(rhs, ev) for b, i, ev in a.events() for lhs, how, rhs in written_lvalues(ev)
           if member_of(lhs, 'n_subtrees', par_id) and how != '&arg']
    okc = len(cnt) == 1 and ((cnt[0][1]['ev'] == 'assign' and cnt[0][1]['e']['op'] == '-=' and is_int(cnt[0][0], 1)) or
                             (cnt[0][1]['ev'] == 'incdec' and cnt[0][1]['e']['op'] == '--') or
                             (cnt[0][1]['ev'] == 'assign' and cnt[0][1]['e']['op'] == '=' and
                              lin(cnt[0][0], adefs) == {nsub: 1, '': -1}))
    (r.ok('remove:count-1') if okc else
     r.violation('remove:count-1', a.name, OT, cnt[0][1]['line'] if cnt else a.line,
                 'removing a child must decrease n_subtrees by exactly one'))
    # the candidate is the child at the index
    cd = [rhs for b, i, ev in a.events() for lhs, how, rhs in written_lvalues(ev)
          if is_ref(lhs) and lhs.get('kind') == 'local' and rhs is not None and rhs.get('k') == 'sub']
    okcand = cd and all(member_of(x['base'], 'subtrees', par_id) and is_ref(x['idx']) and x['idx'].get('id') == idx_id
                        for x in cd)
    (r.ok('remove:candidate-is-child-at-index') if okcand else
     r.violation('remove:candidate-is-child-at-index', a.name, OT, a.line,
                 'the node examined for removal is not parent->subtrees[child_index]'))
    # the caller passes the node searched and the index found
    if su:
        ac = [c2 for b, i, c2 in u.calls('attempt_child_removal')]
        okac = ac and all(is_ref(c2['args'][0]) and c2['args'][0].get('id') == param_id(u, 0)
                          and is_ref(c2['args'][1]) and c2['args'][1].get('id') == su['k']['id'] for c2 in ac)
        (r.ok('remove:called-with-found-index') if okac else
         r.violation('remove:called-with-found-index', u.name, OT, ac[0]['line'] if ac else u.line,
                     'attempt_child_removal must be given the searched node and the index the search found'))
        rec = [c2 for b, i, c2 in u.calls(u.name)]
        okr = rec and all(c2['args'][0].get('k') == 'sub' and member_of(c2['args'][0]['base'], 'subtrees', param_id(u, 0))
                          and is_ref(c2['args'][0]['idx']) and c2['args'][0]['idx'].get('id') == su['k']['id']
                          and strip_addr(c2['args'][1]) is not None and strip_addr(c2['args'][1]).get('k') == 'sub'
                          and is_int(strip_addr(c2['args'][1])['idx'], 1) for c2 in rec)
        (r.ok('remove:descend') if okr else
         r.violation('remove:descend', u.name, OT, rec[0]['line'] if rec else u.line,
                     'the removal does not descend into child k with the rest of the path'))


# ---------------------------------------------------------------------------
# C20.6 registration

def c20_6(ck, prog):
    r = ck.rule('C20.6', 'registering on an occupied path fails before anything is written; a successful '
                'registration stores the caller\'s handler, data and fallback flag on the node of exactly that path; '
                'the four public entry points pass the fallback flag their name promises', 'DOM',
                breaks='a second registration silently replaces the first handler (or changes its fallback flag), '
                'or a plain registration behaves as a fallback', floor=10)
    fn = prog.fn('_dbus_object_tree_register', OT)
    en = [c for b, i, c in fn.calls('ensure_subtree')]
    if len(en) != 1:
        raise AnalysisBroken('_dbus_object_tree_register: expected one ensure_subtree call')
    node = [lhs for b, i, ev in fn.events() for lhs, how, rhs in written_lvalues(ev)
            if rhs is not None and rhs.get('k') == 'call' and rhs.get('id') == en[0]['id'] and is_ref(lhs)]
    if len(node) != 1:
        raise AnalysisBroken('_dbus_object_tree_register: node variable not found')
    nid = node[0]['id']
    okp = is_ref(en[0]['args'][1]) and en[0]['args'][1].get('id') == param_id(fn, 2)
    (r.ok('register:node-of-the-path') if okp else
     r.violation('register:node-of-the-path', fn.name, OT, en[0]['line'], 'the node is not looked up by the given path'))
    es = prog.fn('ensure_subtree', OT)
    ec = [c for b, i, c in es.calls('find_subtree_recurse')]
    oke = len(ec) == 1 and is_int(ec[0]['args'][2], 1) and is_int(ec[0]['args'][4], 0) \
        and is_member(ec[0]['args'][0], 'root', 'DBusObjectTree')
    (r.ok('ensure_subtree:exact-creating-lookup') if oke else
     r.violation('ensure_subtree:exact-creating-lookup', es.name, OT, es.line,
                 'ensure_subtree must look the path up from the root in creating, exact (not deepest-match) mode'))
    FIELDS = ('message_function', 'unregister_function', 'user_data', 'invoke_as_fallback')
    nw = [0]

    def akey(atom, resolve):
        if atom[0] == 'truthy' and member_of(atom[1], 'message_function', nid):
            return 'occupied'
        return None

    def on_event(user, ev, ctx):
        for lhs, how, rhs in written_lvalues(ev):
            if is_member(lhs, None, NODE) and lhs['field'] in FIELDS:
                nw[0] += 1
                if ctx.atom('occupied') is not False:
                    ctx.report('%s is written although the node was not found to be free' % estr(lhs), ev['line'],
                               key=('write-occupied', lhs['field']))
                return (user or frozenset()) | {lhs['field']}
        return user

    def on_exit(user, ctx, ret, ev):
        st = ctx.ret_status(ret)
        if ctx.atom('occupied') is True and st != 'fail':
            ctx.report('registering on an occupied path does not fail', ev['line'], key=('occupied-ok',))
        if st == 'ok' and ctx.atom('occupied') is False and not {'message_function', 'invoke_as_fallback',
                                                                   'user_data'} <= (user or frozenset()):
            ctx.report('a successful registration leaves %s unset' % ', '.join(sorted(
                {'message_function', 'invoke_as_fallback', 'user_data'} - (user or frozenset()))), ev['line'],
                key=('incomplete',))
    ex = Explorer(fn, init=None, on_event=on_event, on_exit=on_exit, atom_key=akey, track='auto',
                  calls={'ensure_subtree'}, cap=200000).run()
    if nw[0] < 4:
        raise AnalysisBroken('_dbus_object_tree_register: registration stores not found')
    if ex.reports:
        r.from_reports(ex.reports, keyfn=lambda k, rep: 'register:%s' % '/'.join(k))
    else:
        r.ok('register:occupied-fails-first')
        r.ok('register:complete')
    # what is stored
    vt = param_id(fn, 3)
    want = {'message_function': lambda x: is_member(x, 'message_function', 'DBusObjectPathVTable') and is_ref(x['base']) and x['base'].get('id') == vt,
            'unregister_function': lambda x: is_member(x, 'unregister_function', 'DBusObjectPathVTable') and is_ref(x['base']) and x['base'].get('id') == vt,
            'user_data': lambda x: is_ref(x) and x.get('id') == param_id(fn, 4)}
    for b, i, ev in fn.events():
        for lhs, how, rhs in written_lvalues(ev):
            if is_member(lhs, None, NODE) and lhs['field'] in want:
                key = 'register:stores-%s' % lhs['field']
                if is_ref(lhs['base']) and lhs['base'].get('id') == nid and want[lhs['field']](rhs):
                    r.ok(key)
                else:
                    r.violation(key, fn.name, OT, ev['line'], '%s is set to %s' % (estr(lhs), estr(rhs)))
            if is_member(lhs, 'invoke_as_fallback', NODE):
                a, s = norm_cond(rhs)
                okf = a is not None and a[0] == 'truthy' and s is True and is_ref(a[1]) and a[1].get('id') == param_id(fn, 1) \
                    and is_ref(lhs['base']) and lhs['base'].get('id') == nid
                (r.ok('register:stores-fallback-flag') if okf else
                 r.violation('register:stores-fallback-flag', fn.name, OT, ev['line'],
                             'the node\'s fallback flag is set to %s, not to the truth value of the fallback argument'
                             % estr(rhs)))
    # public entry points
    W = '_dbus_connection_register_object_path'
    w = prog.fn(W, CONN)
    rc = [c for b, i, c in w.calls('_dbus_object_tree_register')]
    widx = None
    if len(rc) == 1 and is_ref(rc[0]['args'][1]) and rc[0]['args'][1].get('kind') == 'param':
        for k, prm in enumerate(w.params):
            if prm['id'] == rc[0]['args'][1].get('id'):
                widx = k
    # ... and the other arguments go to their own places
    okrest = len(rc) == 1 and is_member(rc[0]['args'][0], 'objects', 'DBusConnection') and \
        all(is_ref(rc[0]['args'][k]) and rc[0]['args'][k].get('kind') == 'param' for k in (3, 4, 5))
    if widx is not None and okrest:
        r.ok('wrapper:forwards-fallback')
    else:
        r.violation('wrapper:forwards-fallback', W, CONN, w.line, 'the fallback argument is not forwarded unchanged')
        return
    TABLE = {'dbus_connection_try_register_object_path': 0, 'dbus_connection_register_object_path': 0,
             'dbus_connection_try_register_fallback': 1, 'dbus_connection_register_fallback': 1}
    for name, flag in TABLE.items():
        pf = prog.fn(name, CONN)
        cs = [c for b, i, c in pf.calls(W)]
        key = 'entry:%s' % name
        if not cs:
            r.violation(key, name, CONN, pf.line, 'does not register through %s' % W)
            continue
        for c in cs:
            if is_int(c['args'][widx], flag):
                r.ok(key)
            else:
                r.violation(key, name, CONN, c['line'], '%s passes fallback = %s; its contract is %s' % (
                    name, estr(c['args'][widx]), 'TRUE' if flag else 'FALSE'))


# ---------------------------------------------------------------------------
# C20.7 unregistration

def c20_7(ck, prog):
    r = ck.rule('C20.7', 'unregistering clears the handler of exactly the registered node, hands its unregister '
                'function and data to the caller, and prunes a node only when it has neither children nor a '
                'handler, bottom-up and only while the previous removal succeeded', 'DEC',
                breaks='a still-registered ancestor or a node with other children disappears from the tree (or '
                'empty nodes linger and turn UnknownObject into UnknownMethod)', floor=8)
    a = prog.fn('attempt_child_removal', OT)
    cand = [lhs for b, i, ev in a.events() for lhs, how, rhs in written_lvalues(ev)
            if is_ref(lhs) and lhs.get('kind') == 'local' and rhs is not None and rhs.get('k') == 'sub']
    if len(cand) != 1:
        raise AnalysisBroken('attempt_child_removal: candidate variable not found')
    cid = cand[0]['id']
    rem = [ev for b, i, ev in a.events() if ev['ev'] == 'call' and ev['e'].get('callee') in ('memmove', '_dbus_object_subtree_unref')]
    for nc in (0, 1):
        for h in (0, 1):
            def val(x, nc=nc, h=h):
                if member_of(x, 'n_subtrees', cid):
                    return nc
                if member_of(x, 'message_function', cid):
                    return h
                if is_call(x, '_dbus_real_assert'):
                    return 1
                return None
            seen, lab = lib.symbolic_walk(a, a.entry, val, lambda b, ev: None, unknown=assert_branches(a))
            removed = any(ev['ev'] == 'call' and ev['e'].get('callee') == 'memmove' for ev in seen)
            freed = any(ev['ev'] == 'call' and ev['e'].get('callee') == '_dbus_object_subtree_unref' for ev in seen)
            retv = [ev for ev in seen if ev['ev'] == 'return']
            rv = retv[-1]['e']['v'] if retv and is_int(retv[-1].get('e')) else None
            want = (nc == 0 and h == 0)
            key = 'prune[children=%d,handler=%d]' % (nc, h)
            if removed == want and freed == want and rv == int(want):
                r.ok(key)
            else:
                r.violation(key, a.name, OT, a.line,
                            'a node with %s children and %s handler: removed=%s freed=%s returns %s; a node may be '
                            'pruned (and TRUE returned) only when it has no children and no handler' % (
                                'no' if nc == 0 else 'some', 'no' if h == 0 else 'a', removed, freed, rv))
    # unregister_subtree
    us = prog.fn('unregister_subtree', OT)
    me = param_id(us, 0)
    for h in (0, 1):
        def val(x, h=h):
            if member_of(x, 'message_function', me):
                return h
            if is_call(x, '_dbus_real_assert'):
                return 1
            return None
        seen, lab = lib.symbolic_walk(us, us.entry, val, lambda b, ev: None, unknown=assert_branches(us))
        cleared = False
        outs = {}
        order_ok = True
        for ev in seen:
            for lhs, how, rhs in written_lvalues(ev):
                if member_of(lhs, 'message_function', me) and how == '=' and is_int(rhs, 0):
                    cleared = True
                if lhs.get('k') == 'un' and lhs['op'] == '*' and is_ref(lhs['e']) and rhs is not None and is_member(rhs, None, NODE):
                    outs[lhs['e']['name']] = rhs['field']
                    if rhs['field'] in [f for f in ('unregister_function', 'user_data') if f in outs.get('_cleared', ())]:
                        order_ok = False
                if is_member(lhs, None, NODE) and lhs['field'] in ('unregister_function', 'user_data') and is_int(rhs, 0):
                    outs.setdefault('_cleared', [])
                    outs['_cleared'] = list(outs['_cleared']) + [lhs['field']]
        retv = [ev for ev in seen if ev['ev'] == 'return']
        rv = retv[-1]['e']['v'] if retv and is_int(retv[-1].get('e')) else None
        key = 'unregister_subtree[registered=%d]' % h
        p2, p3 = us.params[1]['name'], us.params[2]['name']
        if h:
            good = cleared and rv == 1 and outs.get(p2) == 'unregister_function' and outs.get(p3) == 'user_data' and order_ok
            why = 'a registered node must lose its handler, report TRUE and hand out its unregister function and data ' \
                  '(read before they are cleared)'
        else:
            good = (not cleared) and rv == 0 and p2 not in outs and p3 not in outs
            why = 'an unregistered node must be left alone and FALSE returned'
        if good:
            r.ok(key)
        else:
            r.violation(key, us.name, OT, us.line, '%s; found cleared=%s returns=%s outputs=%s' % (
                why, cleared, rv, {k: v for k, v in outs.items() if k != '_cleared'}))
    # pruning continues only after a successful unregistration and while removals succeed
    u = prog.fn('unregister_and_free_path_recurse', OT)
    cont = param_id(u, 2)
    rec_ids = {c['id'] for b, i, c in u.calls(u.name)}
    ac = [c for b, i, c in u.calls('attempt_child_removal')]
    if not ac:
        raise AnalysisBroken('unregister_and_free_path_recurse: no attempt_child_removal call')

    def akey(atom, resolve):
        if atom[0] == 'truthy' and atom[1].get('k') == 'un' and atom[1]['op'] == '*' and is_ref(atom[1]['e']) \
                and atom[1]['e'].get('id') == cont:
            return 'continue'
        return None

    def on_event(user, ev, ctx):
        if ev['ev'] == 'call' and ev['e'].get('callee') == 'attempt_child_removal':
            okf = any(ctx.result_known(i) is True for i in rec_ids)
            if not okf:
                ctx.report('a parent is considered for pruning although the deeper unregistration did not succeed',
                           ev['line'], key=('prune-without-success',))
            if ctx.atom('continue') is not True:
                ctx.report('a parent is considered for pruning although an earlier removal attempt failed (the '
                           'child below is still there)', ev['line'], key=('prune-after-stop',))
        return user
    ex = Explorer(u, on_event=on_event, atom_key=akey, track='auto', calls={u.name}, cap=200000).run()
    if ex.reports:
        r.from_reports(ex.reports, keyfn=lambda k, rep: 'unregister:%s' % k[0])
    else:
        r.ok('unregister:prune-gated')
    # the stop flag is updated from the removal's result
    upd = [rhs for b, i, ev in u.events() for lhs, how, rhs in written_lvalues(ev)
           if lhs.get('k') == 'un' and lhs['op'] == '*' and is_ref(lhs['e']) and lhs['e'].get('id') == cont]
    oku = upd and all(is_call(x, 'attempt_child_removal') for x in upd)
    (r.ok('unregister:stop-flag-from-removal') if oku else
     r.violation('unregister:stop-flag-from-removal', u.name, OT, u.line,
                 'the continue-removal flag is not the result of attempt_child_removal'))
    # the path-exhausted case unregisters this very node
    uc = [c for b, i, c in u.calls('unregister_subtree')]
    okx = uc and all(is_ref(c['args'][0]) and c['args'][0].get('id') == param_id(u, 0) for c in uc)
    (r.ok('unregister:exact-node') if okx else
     r.violation('unregister:exact-node', u.name, OT, u.line, 'unregister_subtree is not applied to the node the '
                 'whole path leads to'))
    top = prog.fn('_dbus_object_tree_unregister_and_unlock', OT)
    tcs = [c for b, i, c in top.calls(u.name)]
    okt = len(tcs) == 1 and is_member(tcs[0]['args'][0], 'root', 'DBusObjectTree') \
        and is_ref(tcs[0]['args'][1]) and tcs[0]['args'][1].get('id') == param_id(top, 1)
    (r.ok('unregister:from-root') if okt else
     r.violation('unregister:from-root', top.name, OT, top.line, 'unregistration does not start at the root with the '
                 'given path'))


# ---------------------------------------------------------------------------
# C20.8 child listing

def c20_8(ck, prog):
    r = ck.rule('C20.8', 'the child listing copies the name of every child of the node the exact path leads to, in '
                'array order, into a NULL-terminated array with one slot more than there are children', 'ABS',
                breaks='the listing omits the last child, reads past the child array or is not terminated', floor=4)
    fn = prog.fn('_dbus_object_tree_list_registered_unlocked', OT)
    lk = [c for b, i, c in fn.calls('lookup_subtree')]
    if len(lk) != 1:
        raise AnalysisBroken('list_registered: expected one lookup_subtree call')
    node = [lhs for b, i, ev in fn.events() for lhs, how, rhs in written_lvalues(ev)
            if rhs is not None and rhs.get('k') == 'call' and rhs.get('id') == lk[0]['id'] and is_ref(lhs)]
    if len(node) != 1:
        raise AnalysisBroken('list_registered: node variable not found')
    nid = node[0]['id']
    ls = prog.fn('lookup_subtree', OT)
    lc = [c for b, i, c in ls.calls('find_subtree_recurse')]
    okl = len(lc) == 1 and is_int(lc[0]['args'][2], 0) and is_int(lc[0]['args'][4], 0) \
        and is_member(lc[0]['args'][0], 'root', 'DBusObjectTree')
    (r.ok('lookup_subtree:exact-non-creating') if okl else
     r.violation('lookup_subtree:exact-non-creating', ls.name, OT, ls.line,
                 'lookup_subtree must look up the exact node without creating it (no deepest match)'))
    nname = '%s->n_subtrees' % node[0]['name']
    allocs = [c for b, i, c in fn.calls(('dbus_malloc0', 'dbus_malloc', 'dbus_realloc'))
              if any(member_of(x, 'n_subtrees', nid) for a in c['args'] for x in walk(a))]
    oka = allocs and all(lin(c['args'][0], {}) in ({nname: 8, '': 8},) for c in allocs) and \
        all(c['callee'] == 'dbus_malloc0' for c in allocs)
    (r.ok('list:slots=children+1') if oka else
     r.violation('list:slots=children+1', fn.name, OT, allocs[0]['line'] if allocs else fn.line,
                 'the result array must be zero-filled with n_subtrees + 1 slots; found %s' % (
                     estr(allocs[0]) if allocs else 'no allocation sized by n_subtrees')))
    copies = [(lhs, rhs, ev, b) for b, i, ev in fn.events() for lhs, how, rhs in written_lvalues(ev)
              if lhs.get('k') == 'sub' and rhs is not None and is_call(rhs, '_dbus_strdup')]
    if len(copies) != 1:
        raise AnalysisBroken('list_registered: expected one name copy')
    lhs, rhs, cev, cb = copies[0]
    src = rhs['args'][0]
    okc = is_member(src, 'name', NODE) and src['base'].get('k') == 'sub' and member_of(src['base']['base'], 'subtrees', nid) \
        and same_expr(src['base']['idx'], lhs['idx']) and is_ref(lhs['idx'])
    (r.ok('list:copies-child-i-to-slot-i') if okc else
     r.violation('list:copies-child-i-to-slot-i', fn.name, OT, cev['line'],
                 'slot and child index differ or the copied string is not the child\'s name: %s = %s' % (estr(lhs), estr(rhs))))
    if okc:
        ivar = lhs['idx']
        lp = loop_of(fn, lambda ev: ev is cev)
        if lp is None:
            raise AnalysisBroken('list_registered: name copy not inside a loop')
        head, body = lp
        hc = (fn.blocks[head].get('term') or {}).get('cond')
        a, s = norm_cond(hc)
        okh = a and a[0] == 'cmp' and a[1] == '<' and s is True and is_ref(a[2]) and a[2].get('id') == ivar['id'] \
            and member_of(a[3], 'n_subtrees', nid)
        (r.ok('list:loop-bound') if okh else
         r.violation('list:loop-bound', fn.name, OT, fn.blocks[head]['term']['line'],
                     'the copy loop must run while i < n_subtrees; found %s' % estr(hc)))
        ini = [rhs2 for b, i, ev in fn.events() if b not in body for l2, how, rhs2 in written_lvalues(ev)
               if is_ref(l2) and l2.get('id') == ivar['id'] and rhs2 is not None]
        steps = [(how, rhs2) for b, i, ev in fn.events() if b in body for l2, how, rhs2 in written_lvalues(ev)
                 if is_ref(l2) and l2.get('id') == ivar['id']]
        oks = ini and all(is_int(x, 0) for x in ini) and len(steps) == 1 and (
            steps[0][0] == '++' or (steps[0][0] == '+=' and is_int(steps[0][1], 1)))
        (r.ok('list:from-zero-step-one') if oks else
         r.violation('list:from-zero-step-one', fn.name, OT, cev['line'],
                     'the copy loop must start at 0 and advance by one per child'))


# ---------------------------------------------------------------------------
# C20.9 life cycle of the fallback flag

def c20_9(ck, prog):
    r = ck.rule('C20.9', 'a node carries the fallback flag only while a fallback handler is registered on it: the flag '
                'is set from a registration\'s fallback argument only, starts FALSE, and unregistering resets it '
                'together with the other registration fields', 'WHO',
                breaks='paths below a node that has no fallback registration (any more) are still treated as "below a '
                'fallback": callers get UnknownMethod instead of UnknownObject, and a later lookup stops at that node',
                floor=3)
    for f, line, how, rhs, lhs in lib.field_writes(prog, NODE, 'invoke_as_fallback'):
        key = '%s:invoke_as_fallback=%s' % (f.name, estr(rhs) if rhs is not None else how)
        if how == '=' and is_int(rhs, 0):
            r.ok(key)
            continue
        if f.name == '_dbus_object_tree_register':
            a, s = norm_cond(rhs)
            if how == '=' and a is not None and a[0] == 'truthy' and is_ref(a[1]) and a[1].get('id') == param_id(f, 1):
                r.ok(key)
                continue
        r.violation('%s:flag-without-registration' % f.name, f.name, f.file, line,
                    'the fallback flag is set (%s %s) outside a registration: the node is treated as a fallback '
                    'registration although no fallback handler is registered on it' % (how, estr(rhs)))
    us = prog.fn('unregister_subtree', OT)
    me = param_id(us, 0)

    def val(x):
        if member_of(x, 'message_function', me):
            return 1
        return None
    seen, lab = lib.symbolic_walk(us, us.entry, val, lambda b, ev: None, unknown=assert_branches(us))
    reset = {}
    for ev in seen:
        for lhs, how, rhs in written_lvalues(ev):
            if is_member(lhs, None, NODE) and is_ref(lhs['base']) and lhs['base'].get('id') == me and how == '=' \
                    and is_int(rhs, 0):
                reset[lhs['field']] = True
    for fld in ('message_function', 'unregister_function', 'user_data', 'invoke_as_fallback'):
        key = 'unregister_subtree:resets-%s' % fld
        if reset.get(fld):
            r.ok(key)
        elif fld == 'invoke_as_fallback':
            r.violation('unregister_subtree:fallback-flag-not-cleared', us.name, OT, us.line,
                        'unregistering leaves invoke_as_fallback as it was: a node that stays in the tree (it has '
                        'children) keeps acting as a fallback registration')
        else:
            r.violation(key, us.name, OT, us.line, 'unregistering does not reset %s' % fld)


# ---------------------------------------------------------------------------
# C20.10 an unhandled method call is answered or retried, never swallowed

def c20_10(ck, prog):
    r = ck.rule('C20.10', 'after the object tree declined a method call, dbus_connection_dispatch either sends the '
                'automatic error reply or leaves with NEED_MEMORY (which puts the message back to be dispatched '
                'again); no exit consumes the call without an answer', 'TS',
                breaks='with no taker the caller receives neither UnknownMethod nor UnknownObject: the call is '
                'silently dropped (e.g. when one allocation fails while the error is being built)', floor=1)
    d = prog.fn('dbus_connection_dispatch', CONN)
    need = prog.enums.get('DBUS_HANDLER_RESULT_NEED_MEMORY', 2)
    tc = [c for b, i, c in d.calls('_dbus_object_tree_dispatch_and_unlock')]
    if len(tc) != 1:
        raise AnalysisBroken('dbus_connection_dispatch: expected one object-tree dispatch call')
    resv = [lhs for b, i, ev in d.events() for lhs, how, rhs in written_lvalues(ev)
            if rhs is not None and how == '=' and rhs.get('k') == 'call' and rhs.get('id') == tc[0]['id']
            and is_ref(lhs)]
    if len(resv) != 1:
        raise AnalysisBroken('dbus_connection_dispatch: result variable of the object-tree dispatch not found')
    rid, rname = resv[0]['id'], resv[0]['name']
    SEND = {'_dbus_connection_send_preallocated_unlocked_no_update', '_dbus_connection_send_unlocked_no_update',
            '_dbus_connection_send_preallocated_and_unlock', '_dbus_connection_send_and_unlock'}
    errs = {c['id'] for b, i, c in d.calls('dbus_message_new_error')}
    puts = [c for b, i, c in d.calls('_dbus_connection_putback_message_link_unlocked')]
    if not puts or not errs:
        raise AnalysisBroken('dbus_connection_dispatch: error reply / put-back not found')
    nchecked = [0]

    def on_event(user, ev, ctx):
        tree, call, sent = user
        if ev['ev'] == 'call':
            c = ev['e']
            if c['id'] == tc[0]['id']:
                return (True, call, sent)
            if tree and c.get('callee') in SEND and len(c['args']) > 2:
                o = ctx.origin_call(c['args'][2]) if c['callee'].startswith('_dbus_connection_send_prealloc') \
                    else ctx.origin_call(c['args'][1])
                if o is not None and o[0] in errs:
                    return (tree, call, True)
        return user

    def on_edge(user, bid, idx, atom, sense, ctx):
        tree, call, sent = user
        if not tree or atom is None:
            return user
        if atom[0] == 'cmp' and atom[1] == '==' and is_call(atom[2], 'dbus_message_get_type') and is_int(atom[3], 1):
            return (tree, bool(sense), sent)
        if atom[0] == 'cmp' and atom[1] == '==' and is_ref(atom[2]) and atom[2].get('id') == rid \
                and is_int(atom[3], need) and call and not sent:
            nchecked[0] += 1
            if sense is False:
                v = ctx.env.get(('v', rid))
                ctx.report('a method call that no handler took leaves dispatch with %s = %s and without the error '
                           'reply having been sent: it is neither answered nor put back' % (
                               rname, v[1] if v and v[0] == 'c' else 'the tree\'s NOT_YET_HANDLED'),
                           d.blocks[bid]['term']['line'], key=('swallowed', d.blocks[bid]['term']['line']))
        return user
    ex = Explorer(d, init=(False, False, False), on_event=on_event, on_edge=on_edge, track={rname, 'reply'},
                  calls={'dbus_message_new_error'}, cap=600000).run()
    if not nchecked[0]:
        raise AnalysisBroken('dbus_connection_dispatch: the NEED_MEMORY test after the unhandled-call block was '
                             'not reached')
    if ex.reports:
        r.from_reports(ex.reports, keyfn=lambda k, rep: 'dispatch:%s' % k[0])
    else:
        r.ok('dispatch:unhandled-call-answered-or-retried')


def c20_11(ck, prog):
    """A refused registration only warns: the warning helper decides about aborting by its own switch."""
    I = 'dbus/dbus-internals.c'
    r = ck.rule('C20.11', 'a refused registration (occupied path) and an unregister of a path that is not registered only '
                'warn: _dbus_warn decides everything by its own switch `fatal_warnings` and _dbus_warn_check_failed by '
                '`fatal_warnings_on_check_failed` (each function reads exactly the flag it is named for)', 'TAB',
                breaks='with the library defaults (warnings not fatal, failed checks fatal) registering a handler on an '
                'occupied path aborts the process that owns all the handlers instead of returning FALSE', floor=2)
    want = {'_dbus_warn': 'fatal_warnings', '_dbus_warn_check_failed': 'fatal_warnings_on_check_failed'}
    for fname, flag in want.items():
        fn = prog.fn(fname, I)
        read = set()
        for blk in fn.blocks.values():
            t = blk.get('term')
            tops = [t['cond']] if t and isinstance(t.get('cond'), dict) else []
            for ev in blk['events']:
                tops += [x for x in (ev.get('e'), ev.get('init')) if isinstance(x, dict)]
            for top in tops:
                for x in walk(top):
                    if is_ref(x) and x.get('kind') in ('global', 'slocal') and x.get('name', '').startswith('fatal_warnings'):
                        read.add(x['name'])
        key = '%s:own-switch' % fname
        if read != {flag}:
            r.violation(key, fname, I, fn.line, '%s consults %s; its own switch is %s' % (
                fname, ', '.join(sorted(read)) or 'no switch', flag))
        else:
            r.ok(key)


def run(ck):
    ck.explanation = (
        'Static rules over dbus/dbus-object-tree.c and the dispatch / registration entry points of '
        'dbus/dbus-connection.c.  (DEC) the inclusion test of the handler-collecting loop is pushed through all 8 '
        'assignments of (has handler, exact match, fallback) and must equal handler && (exact || fallback); the '
        'exact flag is constant FALSE on every back edge; the walk follows ->parent from find_handler\'s result. '
        '(DEC) the invoking loop continues exactly for NOT_YET_HANDLED over the three values of DBusHandlerResult, '
        'invokes message_function with the user_data of the same node, and list insertion end and traversal '
        'direction agree.  (DEC) found_object is the truth value of find_handler\'s result and selects '
        'UnknownMethod / UnknownObject.  (TS) find_subtree_recurse returns a node that covers only part of the path '
        'solely in deepest-match mode, when that node was found to be a fallback, with exact = FALSE.  (DEC) both '
        'binary searches (lookup, removal) have the same three-way shape over strcmp (element, child->name); '
        'insertion stores at the final search position and shifts n - lo children; removal shifts n - index - 1. '
        '(DOM) registration writes nothing and fails on an occupied node; the four public entry points pass their '
        'fallback constant.  (DEC) pruning removes a node only with no children and no handler.  (ABS) the child '
        'listing allocates n + 1 zeroed slots and copies child i to slot i for i in [0, n).')
    ck.not_decided = ('which handler is selected for a given history of registrations (a function of the run-time '
                      'trie); that strcmp order equals the order used when the children were inserted is decided only '
                      'as agreement between the three code sites; re-entrancy (handlers that register or unregister '
                      'while being dispatched) and the locking of the callbacks; the built-in Introspect XML')
    for v, prog in ck.programs(thorough_variants=('B',)):
        c20_11(ck, prog)
        c20_1(ck, prog)
        c20_2(ck, prog)
        c20_3(ck, prog)
        c20_4(ck, prog)
        c20_5(ck, prog)
        c20_6(ck, prog)
        c20_7(ck, prog)
        c20_8(ck, prog)
        c20_9(ck, prog)
        c20_10(ck, prog)
