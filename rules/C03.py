"""C03 - the bus stamps the true sender; unique names are unique forever.
DESIGN.md section 3, C03.1 - C03.5."""
import re

from engine.cfg import (Explorer, estr, is_call, is_int, is_member, is_ref, strip_addr, walk,
                        written_lvalues, event_expr)
from engine.facts import AnalysisBroken
from engine import lib

# Calls in bus_dispatch through which the incoming message can be seen by
# anybody other than its sender (callee -> index of the message argument).
ROUTING_SINKS = {
    'bus_transaction_capture': 3,
    'bus_context_check_security_policy': 5,
    'bus_driver_handle_message': 2,
    'bus_activation_activate_service': 4,
    'bus_dispatch_matches': 3,
    'bus_transaction_send': 3,
    'bus_transaction_send_from_driver': 2,
    'send_one_message': 1,
    'bus_matchmaker_get_recipients': 4,
}

MESSAGE_CTORS = {'dbus_message_new', 'dbus_message_new_method_call', 'dbus_message_new_method_return',
                 'dbus_message_new_signal', 'dbus_message_new_error', 'dbus_message_new_error_printf',
                 'dbus_message_copy', '_dbus_asv_new_method_return'}


def c03_1(ck, prog):
    r = ck.rule('C03.1', 'every routing sink in bus_dispatch is behind strip-unknown-fields, '
                'clear-container-instance and stamp-sender (success edges)', 'DOM',
                breaks='a client-chosen sender / unknown header field / container-instance field '
                       'reaches a receiver or a monitor', floor=8)
    fn = prog.fn('bus_dispatch', 'bus/dispatch.c')
    msg = fn.param('message')
    if msg is None:
        raise AnalysisBroken('bus_dispatch has no parameter "message"')

    def sinks(ev, ctx):
        if ev['ev'] != 'call':
            return None
        c = ev['e']
        idx = ROUTING_SINKS.get(c.get('callee'))
        if idx is None:
            return None
        if lib.arg_is_param(c, idx, 'message'):
            return c['callee']
        return None

    guards = [
        lib.guard_call('remove_unknown_fields', '_dbus_message_remove_unknown_fields', 0, 'message'),
        lib.guard_call('clear_container_instance', 'dbus_message_set_container_instance', 0, 'message',
                       extra=lambda c, ctx: is_int(c['args'][1], 0)),
        lib.guard_call('set_sender', 'dbus_message_set_sender', 0, 'message'),
    ]
    n, ex = lib.must_precede(fn, r, sinks, guards)
    r.note('%d sink call sites, %d path states explored' % (n, ex.nstates))
    # any other callee that receives `message` must be on the reviewed list of
    # non-routing uses (readers, error replies to the sender itself)
    r2 = ck.rule('C03.1b', 'every use of the incoming message in bus_dispatch is classified '
                 '(routing sink or reviewed reader)', 'WHO', floor=10)
    readers = {
        'dbus_message_is_signal', 'dbus_message_get_type', 'dbus_message_get_interface',
        'dbus_message_get_member', 'dbus_message_get_error_name', 'dbus_message_get_destination',
        'dbus_message_get_auto_start', 'dbus_message_type_to_string',
        # replies addressed to the sender itself (reply_serial only)
        'bus_connection_send_oom_error', 'bus_transaction_send_error_reply',
        '_dbus_message_remove_unknown_fields', 'dbus_message_set_container_instance',
        'dbus_message_set_sender',
    }
    for b, i, c in fn.calls():
        for ai, a in enumerate(c['args']):
            if is_ref(a, 'message') and a.get('kind') == 'param':
                cal = c.get('callee')
                key = 'bus_dispatch:%s' % cal
                if cal in ROUTING_SINKS and ROUTING_SINKS[cal] == ai:
                    r2.ok(key)
                elif cal in readers:
                    r2.ok(key)
                else:
                    r2.violation(key, fn.name, fn.file, c['line'],
                                 'bus_dispatch passes the incoming message to %s, which is neither a '
                                 'listed routing sink nor a reviewed reader' % cal)


def c03_2(ck, prog):
    r = ck.rule('C03.2', 'the sender stamped in bus_dispatch is the connection\'s own unique name '
                '(or the fixed not-active placeholder)', 'TS',
                breaks='a message is stamped with another connection\'s name', floor=1)
    fn = prog.fn('bus_dispatch', 'bus/dispatch.c')
    id2call = {c['id']: c for b, i, c in fn.calls()}
    seen = {}

    def on_event(user, ev, ctx):
        if ev['ev'] != 'call':
            return user
        c = ev['e']
        if c.get('callee') != 'dbus_message_set_sender' or not lib.arg_is_param(c, 0, 'message'):
            return user
        a = c['args'][1]
        key = 'bus_dispatch:set_sender@%s' % estr(a)[:40]
        ok = False
        why = ''

        def literal_ok(s):
            return s.startswith(':') and not re.match(r'^:\d+\.\d+$', s)
        if a.get('k') == 'str':
            s = a['v']
            if literal_ok(s):
                ok = True
            else:
                why = 'literal sender %r is not a reserved non-minted unique-name form' % s
        elif is_ref(a) and ctx.var(a) is not None and ctx.var(a)[0] == 'nz' and len(ctx.var(a)) > 1 \
                and isinstance(ctx.var(a)[1], str):
            # the variable holds a string literal on this path
            if literal_ok(ctx.var(a)[1]):
                ok = True
            else:
                why = 'literal sender %r is not a reserved non-minted unique-name form' % ctx.var(a)[1]
        elif is_ref(a) and ctx.origin_call(a) is None and a.get('kind') == 'local':
            # a variable that may hold the placeholder literal: every definition of it must be one of the
            # two accepted forms
            defs = [rhs for b, i, ev2 in fn.events() for l, h, rhs in written_lvalues(ev2)
                    if is_ref(l) and l.get('id') == a.get('id') and rhs is not None]
            ok = bool(defs) and all(
                d.get('k') == 'str' and literal_ok(d['v']) or
                is_call(d, 'bus_connection_get_name') and lib.arg_is_param(d, 0, 'connection') for d in defs)
            if not ok:
                why = 'sender variable %s has a definition that is neither bus_connection_get_name(connection) ' \
                      'nor the reserved placeholder' % estr(a)
        else:
            o = ctx.origin_call(a)
            if o and o[1] == 'result':
                oc = id2call.get(o[0])
                if oc and oc.get('callee') == 'bus_connection_get_name' and lib.arg_is_param(oc, 0, 'connection'):
                    ok = True
                else:
                    why = 'sender comes from %s' % (estr(oc) if oc else '?')
            else:
                why = 'sender expression %s is not the result of bus_connection_get_name(connection)' % estr(a)
        if ok:
            seen.setdefault((key, c['line']), True)
        else:
            seen[(key, c['line'])] = False
            ctx.report(why, c['line'], key=(key, c['line']))
        return user

    ex = Explorer(fn, on_event=on_event, track={'sender'}).run()
    for (key, line), ok in seen.items():
        if ok:
            r.ok(key, {'site': 'bus/dispatch.c:%d' % line})
    r.from_reports(ex.reports, keyfn=lambda k, rep: k[0])


def c03_3(ck, prog):
    r = ck.rule('C03.3a', 'who may hand a message to a client connection', 'WHO',
                breaks='a message reaches a client without passing the transaction/stamping layer',
                floor=6)
    busfiles = {f.file for f in prog.funcs.values() if f.file.startswith('bus/')}
    lib.who_calls(prog, r, 'dbus_connection_send_preallocated',
                  {'connection_execute_transaction': 'executes a transaction',
                   'bus_connection_send_oom_error': 'preallocated OOM reply'}, files=busfiles)
    for cal in ('dbus_connection_send', 'dbus_connection_send_with_reply',
                'dbus_connection_send_with_reply_and_block'):
        lib.who_calls(prog, r, cal, {}, files=busfiles,
                      why='the bus must send through a BusTransaction')
    lib.who_calls(prog, r, 'bus_transaction_send',
                  {'send_one_message': 'broadcast recipient', 'bus_dispatch_matches': 'addressed recipient',
                   'bus_transaction_capture': 'monitor copy',
                   'bus_transaction_send_from_driver': 'bus-originated'}, files=busfiles)

    r2 = ck.rule('C03.3b', 'bus_transaction_send_from_driver stamps org.freedesktop.DBus before '
                 'capture, policy gate and send', 'DOM', floor=3)
    fn = prog.fn('bus_transaction_send_from_driver', 'bus/connection.c')

    def sinks(ev, ctx):
        if ev['ev'] != 'call':
            return None
        c = ev['e']
        idx = {'bus_transaction_send': 3, 'bus_transaction_capture': 3,
               'bus_context_check_security_policy': 5}.get(c.get('callee'))
        if idx is not None and lib.arg_is_param(c, idx, 'message'):
            return c['callee']
        return None
    g = lib.guard_call('set_sender(DBUS_SERVICE_DBUS)', 'dbus_message_set_sender', 0, 'message',
                       extra=lambda c, ctx: c['args'][1].get('k') == 'str'
                       and c['args'][1]['v'] == 'org.freedesktop.DBus')
    lib.must_precede(fn, r2, sinks, [g])

    # provenance of every message handed to the send family
    r3 = ck.rule('C03.3c', 'every message handed to the send family is the stamped incoming message, '
                 'a held activation message, or bus-created and stamped org.freedesktop.DBus', 'SUM',
                 breaks='a bus-created or replayed message reaches a client with a missing/forged sender',
                 floor=25)
    provenance(ck, prog, r3)


# reviewed non-local sources of a message expression
FIELD_SOURCES = {
    ('BusPendingActivationEntry', 'activation_message'):
        'held auto-activation message: stored by bus_activation_activate_service from its '
        'activation_message parameter, whose callers are traced in turn',
}

# address-taken entry points whose message parameter is the incoming message
# handed over by libdbus' dispatcher
CALLBACK_ROOTS = {
    'bus_dispatch_message_filter': 'DBusHandleMessageFunction registered with '
                                   'dbus_connection_add_filter; calls bus_dispatch',
}


def provenance(ck, prog, r):
    done = set()
    # (function name, index of the message parameter, callee stamps itself?)
    work = [('bus_transaction_send', 3), ('bus_dispatch_matches', 3), ('bus_transaction_capture', 3),
            ('bus_transaction_send_from_driver', 2),
            ('send_one_message', lib.param_index_of_type(prog.fn('send_one_message', 'bus/dispatch.c'), 'DBusMessage', 4))]
    stamped_by_callee = {'bus_transaction_send_from_driver'}
    field_obl = set()

    def sites_of(name):
        out = []
        for f, b, i, c in prog.call_sites(name):
            if prog.is_production(f) and f.file.startswith('bus/'):
                out.append((f, c))
        for g in prog.by_name.get(name, []):
            for f, c in prog.indirect_sites(g.key):
                if prog.is_production(f) and f.file.startswith('bus/'):
                    out.append((f, c))
        return out

    def classify(f, a, c, callee, key):
        if is_ref(a) and a.get('kind') == 'param':
            pidx = [p['name'] for p in f.params].index(a['name'])
            if f.name == 'bus_dispatch':
                r.ok(key, 'incoming message, stamped per C03.1')
            elif f.name in CALLBACK_ROOTS:
                r.ok(key, CALLBACK_ROOTS[f.name])
            else:
                r.ok(key, 'parameter of %s: obligation moves to its callers' % f.name)
                work.append((f.name, pidx))
            return
        if is_ref(a) and a.get('kind') == 'local':
            res = local_message_provenance(prog, f, a, c, callee in stamped_by_callee)
            if res is True:
                r.ok(key, 'fresh message, stamped before the call')
            elif isinstance(res, tuple) and res[0] == 'field':
                rf = res[1]
                if rf in FIELD_SOURCES:
                    r.ok(key, FIELD_SOURCES[rf])
                    field_obl.add(rf)
                else:
                    r.violation(key, f.name, f.file, c['line'],
                                'message comes from field %s.%s, not a reviewed source' % rf)
            elif isinstance(res, tuple) and res[0] == 'param':
                r.ok(key, 'alias of parameter %s: obligation moves to callers' % res[1])
                work.append((f.name, [p['name'] for p in f.params].index(res[1])))
            else:
                r.violation(key, f.name, f.file, c['line'], res)
            return
        if is_member(a):
            rf = (a.get('rec'), a['field'])
            if rf in FIELD_SOURCES:
                r.ok(key, FIELD_SOURCES[rf])
                field_obl.add(rf)
            else:
                r.violation(key, f.name, f.file, c['line'],
                            'message comes from field %s.%s, not a reviewed source' % rf)
            return
        r.violation(key, f.name, f.file, c['line'],
                    'cannot classify the provenance of message expression %s' % estr(a))

    fields_done = set()
    while work or (field_obl - fields_done):
        while work:
            callee, idx = work.pop()
            if (callee, idx) in done:
                continue
            done.add((callee, idx))
            sites = sites_of(callee)
            if not sites and callee not in CALLBACK_ROOTS:
                # no production caller: nothing can flow in
                continue
            for f, c in sites:
                if len(c['args']) <= idx:
                    continue
                a = c['args'][idx]
                key = '%s<-%s@%s' % (callee, f.name, estr(a)[:30])
                classify(f, a, c, callee, key)
        for rf in sorted(field_obl - fields_done):
            fields_done.add(rf)
            rec, field = rf
            for f, line, how, rhs, lhs in lib.field_writes(prog, rec, field):
                key = 'store:%s.%s<-%s' % (rec, field, f.name)
                if how != '=':
                    r.violation(key, f.name, f.file, line, 'unexpected write form %s' % how)
                elif is_int(rhs, 0):
                    r.ok(key, 'cleared')
                elif is_ref(rhs) and rhs.get('kind') == 'param':
                    r.ok(key, 'stored from parameter %s' % rhs['name'])
                    work.append((f.name, [p['name'] for p in f.params].index(rhs['name'])))
                else:
                    r.violation(key, f.name, f.file, line,
                                'held message stored from %s, not from a traced parameter' % estr(rhs))


def local_message_provenance(prog, f, var, sendcall, callee_stamps):
    """How local `var` obtained its message on paths reaching `sendcall`.
    True if on every path it is a fresh message (constructor result) that was
    stamped with the bus name (or the callee stamps it); ('field', (rec, f)) if
    it is loaded from a record field; ('param', name); else a reason string."""
    vid = var['id']
    verdict = {}

    def on_event(user, ev, ctx):
        src, st = user
        for lhs, how, rhs in written_lvalues(ev):
            if is_ref(lhs) and lhs.get('id') == vid and how in ('=', 'decl'):
                if rhs is None:
                    src, st = 'undef', None
                elif is_call(rhs, MESSAGE_CTORS):
                    src, st = 'fresh', None
                elif is_int(rhs, 0):
                    src, st = 'null', None
                elif is_member(rhs):
                    src, st = ('field', (rhs.get('rec'), rhs['field'])), None
                elif is_ref(rhs) and rhs.get('kind') == 'param':
                    src, st = ('param', rhs['name']), None
                elif rhs.get('k') == 'call':
                    src, st = ('call', rhs.get('callee')), None
                else:
                    src, st = ('expr', estr(rhs)[:60]), None
        if ev['ev'] == 'call':
            c = ev['e']
            if (c.get('callee') == 'dbus_message_set_sender' and is_ref(c['args'][0]) and
                    c['args'][0].get('id') == vid and c['args'][1].get('k') == 'str'
                    and c['args'][1]['v'] == 'org.freedesktop.DBus'):
                st = c['id']
            if c['id'] == sendcall['id']:
                if src == 'fresh':
                    if callee_stamps or (st is not None and ctx.result_known(st) is True):
                        verdict['ok'] = verdict.get('ok', 0) + 1
                    else:
                        verdict['bad'] = ('fresh message %s reaches %s without a successful '
                                          'dbus_message_set_sender(.., "org.freedesktop.DBus")'
                                          % (var['name'], sendcall.get('callee')))
                elif isinstance(src, tuple) and src[0] in ('field', 'param'):
                    verdict[src[0]] = src
                else:
                    verdict['bad'] = 'message %s has unreviewed source %s' % (var['name'], src)
        return (src, st)

    Explorer(f, init=('undef', None), on_event=on_event,
             calls={'dbus_message_set_sender'} | MESSAGE_CTORS, track={var['name']}).run()
    if 'bad' in verdict:
        return verdict['bad']
    if 'field' in verdict and 'ok' not in verdict and 'param' not in verdict:
        return verdict['field']
    if 'param' in verdict and 'ok' not in verdict and 'field' not in verdict:
        return verdict['param']
    if verdict.get('ok') and 'field' not in verdict and 'param' not in verdict:
        return True
    if not verdict:
        return 'send call unreachable in CFG'
    return 'message %s has mixed sources %s' % (var['name'], sorted(verdict))


def c03_4(ck, prog):
    r = ck.rule('C03.4', 'a connection gets its unique name once, in bus_connection_complete, '
                'reached only from a not-yet-active Hello', 'WHO',
                breaks='a connection is renamed, or a second Hello mints a second name', floor=5)

    def value_ok(f, how, rhs):
        if f.name == 'bus_connection_complete':
            if how == '&arg' and is_call(rhs, '_dbus_string_copy_data'):
                return None
            if how == '=' and is_int(rhs, 0):
                return None
            return 'unexpected write of BusConnectionData.name in bus_connection_complete: %s %s' % (how, estr(rhs))
        if how == '=' and is_int(rhs, 0):
            return None
        return 'BusConnectionData.name may only be cleared here, found %s %s' % (how, estr(rhs))
    lib.who_writes_field(prog, r, 'BusConnectionData', 'name',
                         {'bus_connection_complete', 'free_connection_data', 'bus_connection_disconnected'},
                         value_ok=value_ok)
    lib.who_calls(prog, r, 'create_unique_client_name', {'bus_driver_handle_hello'})
    lib.who_calls(prog, r, 'bus_connection_complete', {'bus_driver_handle_hello'})

    r2 = ck.rule('C03.4b', 'Hello mints a name only for a connection that is not yet active', 'DOM',
                 floor=2)
    fn = prog.fn('bus_driver_handle_hello', 'bus/driver.c')

    def sinks(ev, ctx):
        if ev['ev'] == 'call' and ev['e'].get('callee') in ('create_unique_client_name',
                                                           'bus_connection_complete'):
            return ev['e']['callee']
        return None
    g = lib.guard_call('!bus_connection_is_active(connection)', 'bus_connection_is_active', 0,
                       'connection', expect=False)
    lib.must_precede(fn, r2, sinks, [g])

    # in bus_connection_complete the name is set only when it was NULL before?  the
    # function asserts it; what we decide: d->name is assigned from the `name`
    # parameter and from nothing else
    fn = prog.fn('bus_connection_complete', 'bus/connection.c')
    r3 = ck.rule('C03.4c', 'bus_connection_complete copies its name parameter into the connection',
                 'TS', floor=1)
    for b, i, c in fn.calls('_dbus_string_copy_data'):
        dst = strip_addr(c['args'][1]) if len(c['args']) > 1 else None
        if dst is not None and is_member(dst, 'name', 'BusConnectionData'):
            if is_ref(c['args'][0], 'name') and c['args'][0].get('kind') == 'param':
                r3.ok('bus_connection_complete:copy_data(name)')
            else:
                r3.violation('bus_connection_complete:copy_data', fn.name, fn.file, c['line'],
                             'unique name copied from %s, not from the name parameter' % estr(c['args'][0]))


def counter_names(fn):
    """The two static counters a unique name is minted from: the variables given to the first and the second
    _dbus_string_append_int of create_unique_client_name (":<major>.<minor>"), whatever they are called."""
    calls = sorted([c for b, i, c in fn.calls('_dbus_string_append_int') if len(c['args']) > 1 and is_ref(c['args'][1])
                    and c['args'][1].get('kind') in ('global', 'slocal')], key=lambda c: (c['line'], c['id']))
    names = []
    for c in calls:
        if c['args'][1]['name'] not in names:
            names.append(c['args'][1]['name'])
    if len(names) != 2:
        raise AnalysisBroken('create_unique_client_name: the major / minor counters were not recognised')
    return names[0], names[1]


def c03_5(ck, prog):
    r = ck.rule('C03.5', 'the unique-name counters only move forward and are private to '
                'create_unique_client_name; minted names start with ":"', 'ABS',
                breaks='a unique name is handed out twice', floor=3)
    fn = prog.fn('create_unique_client_name', 'bus/driver.c')
    # a counter that is an automatic variable starts again on every call: that is a violation of the property,
    # not an unrecognised shape
    auto = [c for b, i, c in fn.calls('_dbus_string_append_int') if len(c['args']) > 1 and is_ref(c['args'][1])
            and c['args'][1].get('kind') == 'local']
    if auto:
        for c in auto:
            nm = c['args'][1]['name']
            r.violation('%s:static' % nm, fn.name, fn.file, c['line'],
                        'the unique name is minted from %s, an automatic variable that starts again on every call: '
                        'the same unique name can be handed out twice' % nm)
        return
    MAJOR, MINOR = counter_names(fn)
    for name in (MAJOR, MINOR):
        ws = lib.global_writes(prog, name)
        if not ws:
            raise AnalysisBroken('counter %s has no writers' % name)
        for f, line, how, rhs, lhs in ws:
            key = '%s:%s%s' % (name, how, estr(rhs) if isinstance(rhs, dict) and rhs.get('k') == 'int' else '')
            if f.key != fn.key:
                r.violation(key, f.name, f.file, line, '%s written outside create_unique_client_name' % name)
            elif how == '+=' and is_int(rhs) and rhs['v'] > 0:
                r.ok(key, {'line': line})
            elif how == '++':
                r.ok(key, {'line': line})
            elif name == MINOR and how == '=' and is_int(rhs, 0):
                # reset allowed only right after major was incremented on the same path
                if minor_reset_after_major_inc(fn, line):
                    r.ok(key, {'line': line, 'note': 'reset only after major += 1'})
                else:
                    r.violation(key, f.name, f.file, line,
                                'next_minor_number reset on a path that did not increment next_major_number')
            elif how == 'decl' and is_int(rhs):
                r.ok(key, {'line': line, 'note': 'static initialiser'})
            else:
                r.violation(key, f.name, f.file, line,
                            '%s written with %s %s: counters may only move forward' % (name, how, estr(rhs)))
    # first text appended to str on each loop iteration is ":"
    r2 = ck.rule('C03.5b', 'the first append to the name string is ":" and the minor counter is '
                 'bumped before the name can be returned', 'TS', floor=1)

    def on_event(user, ev, ctx):
        first, bumped = user
        if ev['ev'] == 'call':
            c = ev['e']
            cal = c.get('callee') or ''
            if cal.startswith('_dbus_string_append') and is_ref(c['args'][0], 'str'):
                if first is None:
                    a = c['args'][1]
                    first = 'ok' if (cal == '_dbus_string_append' and a.get('k') == 'str' and a['v'] == ':') else 'bad'
                    if first == 'bad':
                        ctx.report('first append to the unique name is %s, not ":"' % estr(c)[:60], c['line'])
            if cal == '_dbus_string_set_length' and is_ref(c['args'][0], 'str'):
                first = None
                bumped = False
        for lhs, how, rhs in written_lvalues(ev):
            if is_ref(lhs, MINOR) and how in ('+=', '++'):
                bumped = True
        return (first, bumped)

    def on_exit(user, ctx, ret, ev):
        first, bumped = user
        if ret is not None and is_int(ret) and ret['v'] != 0:
            if first != 'ok':
                ctx.report('returns TRUE without having appended ":" first', ev['line'], key='ret-nocolon')
            if not bumped:
                ctx.report('returns TRUE without bumping next_minor_number (name would be reused)',
                           ev['line'], key='ret-nobump')
    ex = Explorer(fn, init=(None, False), on_event=on_event, on_exit=on_exit, track=None).run()
    if not ex.reports:
        r2.ok('create_unique_client_name:colon-first+bump', {'states': ex.nstates})
    r2.from_reports(ex.reports, keyfn=lambda k, rep: 'create_unique_client_name:%s' % (k if isinstance(k, str) else k[0][:40]))

    # acquire refuses names starting with ':' and the bus name before mutating
    r3 = ck.rule('C03.5c', 'RequestName refuses unique-form names and the bus name before any '
                 'registry mutation', 'DOM', floor=2)
    acq = prog.fn('bus_registry_acquire_service', 'bus/services.c')

    def sinks(ev, ctx):
        if ev['ev'] == 'call' and ev['e'].get('callee') in ('bus_registry_ensure', 'bus_service_add_owner',
                                                           'bus_service_swap_owner',
                                                           'bus_service_remove_owner',
                                                           'bus_owner_set_flags'):
            return ev['e']['callee']
        return None
    guards = [
        lib.Guard('first byte != ":"', lambda c, ctx: c.get('callee') == '_dbus_string_get_byte'
                  and is_int(c['args'][1], 0), expect=('ne', ord(':'))),
        lib.Guard('!= org.freedesktop.DBus', lambda c, ctx: c.get('callee') == '_dbus_string_equal_c_str'
                  and c['args'][1].get('k') == 'str' and c['args'][1]['v'] == 'org.freedesktop.DBus',
                  expect=False),
    ]
    lib.must_precede(acq, r3, sinks, guards)


def field_last_comparisons(prog, r):
    """Every comparison of a header-field code with DBUS_HEADER_FIELD_LAST treats LAST itself as a known
    field: `code > LAST` (unknown) or `code <= LAST` (known), in either operand order."""
    hdr = 'dbus/dbus-marshal-header.c'
    n = 0
    for f in lib.prod_funcs(prog, {hdr}):
        tops = []
        for b, i, ev in f.events():
            if ev['ev'] == 'decl':
                tops.append((ev.get('init'), ev['line']))
            else:
                tops.append((ev.get('e'), ev['line']))
        for blk in f.blocks.values():
            t = blk.get('term')
            if t and t.get('cond') is not None:
                tops.append((t['cond'], t['line']))
        seen = set()
        for top, line in tops:
            if not isinstance(top, dict):
                continue
            for x in walk(top):
                if x.get('k') != 'bin' or x['op'] not in ('<', '>', '<=', '>=', '==', '!='):
                    continue
                li = is_int(x['l']) and x['l'].get('name') == 'DBUS_HEADER_FIELD_LAST'
                ri = is_int(x['r']) and x['r'].get('name') == 'DBUS_HEADER_FIELD_LAST'
                if li == ri:
                    continue
                op = x['op'] if ri else {'<': '>', '>': '<', '<=': '>=', '>=': '<=', '==': '==', '!=': '!='}[x['op']]
                sig = (f.name, line, op)
                if sig in seen:
                    continue
                seen.add(sig)
                n += 1
                key = '%s:code%sLAST' % (f.name, op)
                if op in ('>', '<='):
                    r.ok(key, {'site': '%s:%d' % (hdr, line)})
                else:
                    r.violation(key, f.name, hdr, line,
                                '%s compares a field code with DBUS_HEADER_FIELD_LAST using `%s`: the last known '
                                'field is treated as unknown (or an unknown one as known); every sibling uses '
                                '`> LAST` / `<= LAST`' % (f.name, op))
    if n < 5:
        raise AnalysisBroken('only %d comparisons with DBUS_HEADER_FIELD_LAST found' % n)


def c03_6(ck, prog):
    r = ck.rule('C03.6', 'unknown-field stripping covers every code above the last known one: the field '
                'code is held in an unsigned char, codes > DBUS_HEADER_FIELD_LAST are deleted and the rest '
                'stepped over', 'TS', breaks='unknown header fields in part of the code range 11..255 reach '
                'receivers', floor=3)
    field_last_comparisons(prog, r)
    last = prog.macro_int('DBUS_HEADER_FIELD_LAST')
    hdr = 'dbus/dbus-marshal-header.c'
    nvars = 0
    for f in lib.prod_funcs(prog, {hdr}):
        got = {}
        for b, i, c in f.calls('_dbus_type_reader_read_basic'):
            v = strip_addr(c['args'][1]) if len(c['args']) > 1 else None
            if v is not None and is_ref(v) and 'id' in v:
                got[v['id']] = v
        if not got:
            continue
        used = set()
        for b, i, ev in f.events():
            for x in walk(event_expr(ev)):
                if x.get('k') == 'sub' and is_ref(x['idx']) and x['idx'].get('id') in got:
                    used.add(x['idx']['id'])
        for bid, blk in f.blocks.items():
            t = blk.get('term')
            if t and t.get('cond') is not None:
                c = t['cond']
                if c.get('k') == 'bin' and c['op'] in ('<', '>', '<=', '>=', '==', '!='):
                    for a, b2 in ((c['l'], c['r']), (c['r'], c['l'])):
                        if is_ref(a) and a.get('id') in got and (is_int(b2, last) or is_ref(b2, 'field')):
                            used.add(a['id'])
        for vid in used:
            v = got[vid]
            nvars += 1
            key = '%s:%s:unsigned-char' % (f.name, v['name'])
            if v['t'] == 'unsigned char':
                r.ok(key, {'type': v['t']})
            else:
                r.violation(key, f.name, f.file, f.line,
                            'header field code variable %s has type %s; codes 128..255 compare as negative '
                            '(must be unsigned char)' % (v['name'], v['t']))
    if nvars < 2:
        raise AnalysisBroken('only %d field-code variables found in %s' % (nvars, hdr))
    fn = prog.fn('_dbus_header_remove_unknown_fields', hdr)
    seen = {'delete': 0, 'next': 0}

    def atom_key(atom, resolve):
        if atom[0] == 'cmp' and atom[1] == '<=' and is_ref(atom[2]) and is_int(atom[3], last):
            return ('known', frozenset([atom[2]['id']]))
        if atom[0] == 'cmp' and atom[1] == '<' and is_ref(atom[2]) and is_int(atom[3], last + 1):
            return ('known', frozenset([atom[2]['id']]))
        return None

    def known(ctx):
        for k, v in ctx.atoms().items():
            if k[0] == 'known':
                return v
        return None

    def on_event(user, ev, ctx):
        if ev['ev'] == 'call':
            cal = ev['e'].get('callee')
            if cal == '_dbus_type_reader_read_basic':
                return 'read'
            if cal == '_dbus_type_reader_delete':
                seen['delete'] += 1
                if known(ctx) is not False or user != 'read':
                    ctx.report('a field is deleted although its code is not known to be > DBUS_HEADER_FIELD_LAST',
                               ev['line'], key='delete-known')
                return 'done'
            if cal == '_dbus_type_reader_next' and is_ref(strip_addr(ev['e']['args'][0]) or {}, 'array'):
                seen['next'] += 1
                if known(ctx) is not True or user != 'read':
                    ctx.report('a field is kept although its code is not known to be <= DBUS_HEADER_FIELD_LAST',
                               ev['line'], key='keep-unknown')
                return 'done'
        return user
    ex = Explorer(fn, init='idle', on_event=on_event, atom_key=atom_key, track='auto').run()
    if not seen['delete'] or not seen['next']:
        raise AnalysisBroken('_dbus_header_remove_unknown_fields: delete/next anchors vanished')
    if ex.reports:
        r.from_reports(ex.reports, keyfn=lambda k, rep: '_dbus_header_remove_unknown_fields:%s' % k)
    else:
        r.ok('_dbus_header_remove_unknown_fields:delete-iff-code>LAST', {'LAST': last})
    m = prog.fn('_dbus_message_remove_unknown_fields', 'dbus/dbus-message.c')
    if any(is_member(strip_addr(c['args'][0]) or {}, 'header', 'DBusMessage')
           for b, i, c in m.calls('_dbus_header_remove_unknown_fields')):
        r.ok('_dbus_message_remove_unknown_fields:delegates')
    else:
        r.violation('_dbus_message_remove_unknown_fields:delegates', m.name, m.file, m.line,
                    'no longer strips the message\'s own header')


def minor_reset_after_major_inc(fn, reset_line):
    MAJOR, MINOR = counter_names(fn)
    """Every path to the reset crosses `next_major_number += 1` after the last
    loop-head (i.e. in the same iteration)."""
    bad = []

    def on_event(user, ev, ctx):
        for lhs, how, rhs in written_lvalues(ev):
            if is_ref(lhs, MAJOR) and how in ('+=', '++'):
                user = True
            if is_ref(lhs, MINOR) and how == '=':
                if not user:
                    bad.append(ev['line'])
                user = False
        return user
    Explorer(fn, init=False, on_event=on_event, track=None).run()
    return not bad


def run(ck):
    ck.explanation = (
        'Static must-pass-through (DOM), who-may-call/write (WHO), path-sensitive typestate (TS) and '
        'interprocedural provenance (SUM) rules over the clang CFGs of bus/dispatch.c, bus/driver.c, '
        'bus/connection.c, bus/services.c, bus/activation.c: on every path of bus_dispatch the incoming '
        'message is stripped of unknown fields, of the container-instance field and re-stamped with the '
        'connection\'s own name before any routing sink; every message handed to the send family is that '
        'message, a held activation message, or bus-created and stamped org.freedesktop.DBus; unique '
        'names are minted in one place from forward-only counters.')
    ck.not_decided = ('that _dbus_message_remove_unknown_fields removes every unknown field for every '
                      'byte layout (C12 behaviour); runtime uniqueness across counter wrap-around')
    for v, prog in ck.programs(thorough_variants=('B',)):
        c03_1(ck, prog)
        c03_2(ck, prog)
        c03_3(ck, prog)
        c03_4(ck, prog)
        c03_5(ck, prog)
        c03_6(ck, prog)
