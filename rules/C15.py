"""C15 - passed file descriptors arrive intact and are never leaked.
DESIGN.md C15.1 - C15.4 (structural clauses)."""
from engine.cfg import (Explorer, estr, is_call, is_int, is_member, is_ref, strip_addr, walk,
                        written_lvalues, event_expr)
from engine.facts import AnalysisBroken
from engine import lib

MSG = 'dbus/dbus-message.c'
SYS = 'dbus/dbus-sysdeps-unix.c'
TS = 'dbus/dbus-transport-socket.c'


def mentions(e, pred):
    return any(pred(x) for x in walk(e))


def c15_1(ck, prog):
    r = ck.rule('C15.1', 'receive path: descriptors copied out of the control message are closed on every error '
                'return, surplus ones are closed, kept ones get close-on-exec', 'TS',
                breaks='a peer leaks descriptors into the bus by provoking truncated control data '
                       '(CVE-2020-12049 shape)', floor=3)
    fn = prog.fn('_dbus_read_socket_with_unix_fds', SYS)
    from engine.cfg import reach_from
    # block that copies the received descriptors into fds[]
    M = [b for b, i, c in fn.calls() if c.get('callee') in ('memcpy', '__builtin_memcpy', '__builtin___memcpy_chk')
         and c['args'] and is_ref(c['args'][0], 'fds')]
    if not M:
        raise AnalysisBroken('_dbus_read_socket_with_unix_fds: the copy into fds[] was not found')
    loops = lib.natural_loops(fn)

    def loop_headers_with(pred):
        hs = set()
        for h, body in loops:
            for bb in body:
                for ev in fn.blocks[bb]['events']:
                    if ev['ev'] == 'call' and pred(ev['e']):
                        hs.add(h)
        return hs
    h_close = loop_headers_with(lambda c: c.get('callee') == 'close' and c['args'] and c['args'][0].get('k') == 'sub'
                                and is_ref(c['args'][0]['base'], 'fds'))
    h_cloexec = loop_headers_with(lambda c: c.get('callee') == '_dbus_fd_set_close_on_exec' and c['args']
                                  and c['args'][0].get('k') == 'sub' and is_ref(c['args'][0]['base'], 'fds'))
    zero = {b for b, i, ev in fn.events() for lhs, how, rhs in written_lvalues(ev)
            if lhs.get('k') == 'un' and lhs['op'] == '*' and is_ref(lhs['e'], 'n_fds') and how == '=' and is_int(rhs, 0)}
    rets = [(b, ev) for b, i, ev in fn.events() if ev['ev'] == 'return']
    after = reach_from(fn, M)
    nerr = 0
    for b, ev in rets:
        if b not in after:
            continue
        neg = is_int(ev['e']) and ev['e']['v'] < 0
        if neg:
            nerr += 1
            key = 'read_socket_with_unix_fds:error-return@close'
            if not h_close or b in reach_from(fn, M, stop=h_close):
                r.violation(key, fn.name, SYS, ev['line'],
                            'an error return is reachable after descriptors were received without passing the loop '
                            'that closes fds[0..*n_fds)')
            elif b in reach_from(fn, M, stop=zero):
                r.violation(key, fn.name, SYS, ev['line'],
                            'an error return is reachable after descriptors were received without resetting *n_fds')
            else:
                r.ok(key, {'line': ev['line']})
        else:
            key = 'read_socket_with_unix_fds:kept-fds-cloexec'
            if not h_cloexec or b in reach_from(fn, M, stop=h_cloexec):
                r.violation(key, fn.name, SYS, ev['line'],
                            'received descriptors can be kept without close-on-exec being set on each of them')
            else:
                r.ok(key)
    if nerr < 1:
        raise AnalysisBroken('_dbus_read_socket_with_unix_fds: no error return after the copy found')
    # surplus descriptors closed in the truncation branch
    surplus = [c for b, i, c in fn.calls('close') if c['args'] and c['args'][0].get('k') == 'sub'
               and is_ref(c['args'][0]['base'], 'payload')]
    if surplus:
        r.ok('read_socket_with_unix_fds:surplus-closed')
    else:
        r.violation('read_socket_with_unix_fds:surplus-closed', fn.name, SYS, fn.line,
                    'descriptors beyond the caller\'s capacity are no longer closed')
    # the kernel is told the exact capacity (no room for extra fds in the padding)
    oklen = False
    for b, i, ev in fn.events():
        for lhs, how, rhs in written_lvalues(ev):
            if is_member(lhs, 'msg_controllen') and how == '=' and rhs is not None:
                oklen = True
    if oklen:
        r.ok('read_socket_with_unix_fds:controllen-set')
    else:
        r.violation('read_socket_with_unix_fds:controllen-set', fn.name, SYS, fn.line, 'msg_controllen not set')


def c15_2(ck, prog):
    r = ck.rule('C15.2', 'descriptor arrays are closed before they are freed, counts move consistently from '
                'loader to message, and byte sizes are count * sizeof(int)', 'DOM',
                breaks='descriptors leak or are closed twice; a message receives the wrong descriptors', floor=8)
    # close before free
    for fname in ('_dbus_message_loader_unref', 'dbus_message_finalize', 'dbus_message_copy'):
        fn = prog.fn(fname, MSG)
        frees = [(b, i, c) for b, i, c in fn.calls('dbus_free') if is_member(c['args'][0], 'unix_fds')]
        if not frees:
            raise AnalysisBroken('%s no longer frees a unix_fds array' % fname)

        def sinks(ev, ctx):
            if ev['ev'] == 'call' and ev['e'].get('callee') == 'dbus_free' and is_member(ev['e']['args'][0], 'unix_fds'):
                return 'dbus_free(%s)' % estr(ev['e']['args'][0])
            return None
        g = lib.Guard('close_unix_fds(same array)', lambda c, ctx: c.get('callee') == 'close_unix_fds'
                      and is_member(c['args'][0], 'unix_fds'), untested=True)
        lib.must_precede(fn, r, sinks, [g])
    # recycled messages reach the cache only after their descriptors were closed
    cf = prog.fn('dbus_message_cache_or_finalize', MSG)

    def sinks2(ev, ctx):
        for lhs, how, rhs in written_lvalues(ev):
            if lhs.get('k') == 'sub' and is_ref(lhs['base'], 'message_cache') and is_ref(rhs or {}, 'message'):
                return 'message_cache[i] = message'
        return None
    lib.must_precede(cf, r, sinks2, [lib.Guard('close_unix_fds(message->unix_fds)',
                                               lambda c, ctx: c.get('callee') == 'close_unix_fds'
                                               and is_member(c['args'][0], 'unix_fds', 'DBusMessage'), untested=True)])
    # close_unix_fds closes every element and zeroes the count
    cu = prog.fn('close_unix_fds', MSG)
    okc = any(c['args'][0].get('k') == 'sub' and is_ref(c['args'][0]['base'], 'fds') for b, i, c in cu.calls('_dbus_close'))
    okz = any(lhs.get('k') == 'un' and is_ref(lhs['e'], 'n_fds') and is_int(rhs, 0)
              for b, i, ev in cu.events() for lhs, how, rhs in written_lvalues(ev))
    if okc and okz:
        r.ok('close_unix_fds:closes-all-and-zeroes')
    else:
        r.violation('close_unix_fds:closes-all-and-zeroes', cu.name, MSG, cu.line,
                    'close_unix_fds no longer closes fds[i] for all i and resets *n_fds')
    # load_message: counts
    lm = prog.fn('load_message', MSG)

    def akey(atom, resolve):
        # n_unix_fds > loader->n_unix_fds   ==  not (n_unix_fds <= loader->n_unix_fds)
        if atom[0] == 'cmp' and atom[1] == '<=' and is_ref(atom[2], 'n_unix_fds') \
                and is_member(atom[3], 'n_unix_fds', 'DBusMessageLoader'):
            return ('enough', frozenset([atom[2]['id']]))
        return None
    st = {'dup': 0, 'dec': 0, 'move': 0, 'give': 0}

    def on_event(user, ev, ctx):
        if ev['ev'] == 'call':
            c = ev['e']
            if c.get('callee') == '_dbus_memdup' and mentions(c['args'][0], lambda x: is_member(x, 'unix_fds', 'DBusMessageLoader')):
                st['dup'] += 1
                if not any(k[0] == 'enough' and v is True for k, v in ctx.atoms().items()):
                    ctx.report('descriptors are taken from the loader without checking that it holds as many as '
                               'the header announces', c['line'], key='unchecked')
        return user
    ex = Explorer(lm, on_event=on_event, atom_key=akey, track='auto', cap=300000).run()
    for b, i, ev in lm.events():
        for lhs, how, rhs in written_lvalues(ev):
            if is_member(lhs, 'n_unix_fds', 'DBusMessageLoader') and how == '-=' and is_ref(rhs or {}, 'n_unix_fds'):
                st['dec'] += 1
            if is_member(lhs, 'n_unix_fds', 'DBusMessage') and how == '=' and is_ref(rhs or {}, 'n_unix_fds'):
                st['give'] += 1
            if is_member(lhs, 'n_unix_fds_allocated', 'DBusMessage') and how == '=' and rhs is not None \
                    and rhs.get('k') == 'assign' and is_ref(rhs.get('r') or {}, 'n_unix_fds'):
                st['give'] += 1
    if not st['dup']:
        raise AnalysisBroken('load_message: the copy of loader->unix_fds vanished')
    if ex.reports:
        r.from_reports(ex.reports, keyfn=lambda k, rep: 'load_message:%s' % k)
    else:
        r.ok('load_message:count-checked-before-move')
    if st['dec'] == 1 and st['give'] >= 1:
        r.ok('load_message:same-count-leaves-loader-and-enters-message')
    else:
        r.violation('load_message:same-count-leaves-loader-and-enters-message', lm.name, MSG, lm.line,
                    'the number of descriptors removed from the loader (%d sites) and given to the message '
                    '(%d sites) is no longer the single variable n_unix_fds' % (st['dec'], st['give']))
    # what stays in the loader is what follows the descriptors just taken
    mv = [c for b, i, c in lm.calls(('memmove', '__builtin_memmove', '__builtin___memmove_chk'))
          if mentions(c['args'][0], lambda x: is_member(x, 'unix_fds', 'DBusMessageLoader'))]
    for c in mv:
        src = c['args'][1]
        while src is not None and src.get('k') in ('cast', 'paren'):
            src = src.get('e')
        inner = strip_addr(src)
        if inner is not None and inner.get('k') == 'sub':
            base, off = inner['base'], inner['idx']
        elif src is not None and src.get('k') == 'bin' and src['op'] == '+':
            base, off = src['l'], src['r']
        else:
            base, off = None, None
        cnt = c['args'][2]
        okm = base is not None and is_member(base, 'unix_fds', 'DBusMessageLoader') and is_ref(off, 'n_unix_fds') \
            and is_member(c['args'][0], 'unix_fds', 'DBusMessageLoader') \
            and mentions(cnt, lambda x: is_member(x, 'n_unix_fds', 'DBusMessageLoader'))
        key = 'load_message:surplus-compacted-from-after-the-taken-ones'
        if okm:
            r.ok(key)
        else:
            r.violation(key, lm.name, MSG, c['line'],
                        'the descriptors that stay in the loader must be moved from unix_fds + <number just taken> '
                        '(the local count given to the message) to the front, loader->n_unix_fds entries; found %s'
                        % estr(c)[:200])
    # byte sizes of descriptor array operations
    n = 0
    for fn in lib.prod_funcs(prog, {MSG, SYS, TS}):
        for b, i, c in fn.calls():
            cal = c.get('callee') or ''
            if cal in ('memmove', 'memcpy', '_dbus_memdup', 'dbus_realloc', '__builtin_memcpy', '__builtin_memmove',
                       '__builtin___memmove_chk', '__builtin___memcpy_chk'):
                ptrs = c['args'][:2] if cal not in ('_dbus_memdup', 'dbus_realloc') else c['args'][:1]
                if not any(mentions(p, lambda x: is_member(x, 'unix_fds') or is_ref(x, 'fds')) for p in ptrs):
                    continue
                size = c['args'][2] if cal not in ('_dbus_memdup', 'dbus_realloc') else c['args'][1]
                n += 1
                key = '%s:%s-size' % (fn.name, cal)
                if size.get('k') == 'bin' and size['op'] == '*' and (is_int(size['l'], 4) or is_int(size['r'], 4)):
                    r.ok(key, {'size': estr(size)})
                else:
                    r.violation(key, fn.name, fn.file, c['line'],
                                '%s on a descriptor array is given the size %s, which is not a count multiplied '
                                'by sizeof(int): descriptors are shifted/copied by bytes instead of entries'
                                % (cal, estr(size)))
    if n < 4:
        raise AnalysisBroken('only %d descriptor-array memory operations found' % n)
    # writers of the counts
    lib.who_writes_field(prog, r, 'DBusMessageLoader', 'n_unix_fds',
                         {'_dbus_message_loader_new', 'load_message', '_dbus_message_loader_return_unix_fds',
                          'close_unix_fds', '_dbus_message_loader_unref'})
    lib.who_writes_field(prog, r, 'DBusMessage', 'n_unix_fds',
                         {'load_message', 'dbus_message_copy', 'dbus_message_iter_append_basic',
                          'dbus_message_new_empty_header', 'dbus_message_cache_or_finalize', 'dbus_message_finalize',
                          'dbus_message_get_cached'})


def c15_3(ck, prog):
    r = ck.rule('C15.3', 'no descriptor goes to a peer that cannot take it: the bus and libdbus both test the '
                'negotiated capability before queuing, and descriptors are attached only to the first write of a '
                'message', 'DOM', breaks='descriptors are sent over a connection that did not negotiate them '
                '(lost or misdelivered)', floor=5)
    from rules.C05 import fd_gate
    dm = prog.fn('bus_dispatch_matches', 'bus/dispatch.c')
    fd_gate(prog, r, dm, 'addressed_recipient',
            lambda ev, ctx: 'send' if ev['ev'] == 'call' and ev['e'].get('callee') == 'bus_transaction_send'
            and is_ref(ev['e']['args'][2], 'addressed_recipient') else None)
    som = prog.fn('send_one_message', 'bus/dispatch.c')
    fd_gate(prog, r, som, lib.recipient_param(som),
            lambda ev, ctx: 'send' if ev['ev'] == 'call' and ev['e'].get('callee') == 'bus_transaction_send' else None,
            label='connection')
    C = 'dbus/dbus-connection.c'
    for fname, sink in (('dbus_connection_send_preallocated', '_dbus_connection_send_preallocated_and_unlock'),
                        ('dbus_connection_send', '_dbus_connection_send_and_unlock'),
                        ('dbus_connection_send_with_reply', '_dbus_connection_send_unlocked_no_update')):
        fn = prog.fn(fname, C)

        def akey(atom, resolve):
            if atom[0] == 'cmp' and atom[1] == '<=' and is_member(atom[2], 'n_unix_fds', 'DBusMessage') and is_int(atom[3], 0):
                return 'nofds'          # True: message has no fds
            if atom[0] == 'truthy' and atom[1].get('k') == 'bin' and atom[1]['op'] == '&' and \
                    mentions(atom[1], lambda x: is_member(x, 'can_pass_unix_fd') or is_member(x, 'unix_fd')):
                return 'can'
            if atom[0] == 'truthy' and is_call(atom[1], '_dbus_transport_can_pass_unix_fd'):
                return 'can'
            c = resolve(atom[1]) if atom[0] == 'truthy' else None
            return None
        nsink = [0]

        def on_event(user, ev, ctx, sink=sink):
            if ev['ev'] == 'call' and ev['e'].get('callee') in (sink, '_dbus_connection_send_preallocated_unlocked_no_update',
                                                               '_dbus_connection_send_unlocked_no_update',
                                                               '_dbus_connection_send_and_unlock',
                                                               '_dbus_connection_send_preallocated_and_unlock'):
                nsink[0] += 1
                at = ctx.atoms()
                canres = [ctx.result_known(c['id']) for b, i, c in fn.calls('_dbus_transport_can_pass_unix_fd')]
                if not (at.get('nofds') is True or at.get('can') is True or True in canres):
                    ctx.report('the message is queued without (no descriptors || transport can pass descriptors)',
                               ev['line'], key='ungated')
            return user
        ex = Explorer(fn, on_event=on_event, atom_key=akey, track='auto',
                      calls={'_dbus_transport_can_pass_unix_fd'}, cap=200000).run()
        key = '%s:fd-capability' % fname
        if not nsink[0]:
            raise AnalysisBroken('%s: queuing call not found' % fname)
        if ex.reports:
            r.from_reports(ex.reports, keyfn=lambda k, rep, key=key: key)
        else:
            r.ok(key)
    # do_writing: fds only with the first bytes of a message
    dw = prog.fn('do_writing', TS)

    def akey2(atom, resolve):
        if atom[0] == 'cmp' and atom[1] == '<=' and is_member(atom[2], 'message_bytes_written') and is_int(atom[3], 0):
            return 'at-start'
        if atom[0] == 'truthy' and is_member(atom[1], 'message_bytes_written'):
            return 'not-at-start'
        return None
    nw = [0]

    def on_event2(user, ev, ctx):
        if ev['ev'] == 'call' and ev['e'].get('callee') == '_dbus_write_socket_with_unix_fds_two':
            nw[0] += 1
            at = ctx.atoms()
            if not (at.get('at-start') is True or at.get('not-at-start') is False):
                ctx.report('descriptors are attached to a write that is not the first of its message',
                           ev['line'], key='mid-message')
        return user
    ex = Explorer(dw, on_event=on_event2, atom_key=akey2, track='auto', cap=300000).run()
    if not nw[0]:
        raise AnalysisBroken('do_writing no longer calls _dbus_write_socket_with_unix_fds_two')
    if ex.reports:
        r.from_reports(ex.reports, keyfn=lambda k, rep: 'do_writing:%s' % k)
    else:
        r.ok('do_writing:fds-with-first-bytes-only')


def c15_4(ck, prog):
    r = ck.rule('C15.4', 'the loader\'s descriptor buffer is borrowed and returned in pairs, with zero '
                'descriptors on a failed read; the pending-descriptor timeout runs exactly while surplus '
                'descriptors are held', 'PAIR',
                breaks='a failed read corrupts the descriptor count; surplus descriptors are held forever', floor=3)
    rd = prog.fn('do_reading', TS)
    gets = {c['id'] for b, i, c in rd.calls('_dbus_message_loader_get_unix_fds')}
    if not gets:
        raise AnalysisBroken('do_reading no longer borrows the descriptor buffer')

    def on_event(user, ev, ctx):
        if ev['ev'] == 'call':
            c = ev['e']
            if c['id'] in gets:
                return ('pending', c['id'])
            if c.get('callee') == '_dbus_message_loader_return_unix_fds':
                st = user
                if isinstance(st, tuple):
                    st = 'held' if ctx.result_known(st[1]) is not False else 'idle'
                if st != 'held':
                    ctx.report('descriptor buffer returned without being borrowed', c['line'], key='unpaired')
                a = c['args'][2]
                # the count is 0 when the read failed
                okn = a.get('k') == 'cond' and is_int(a['a'], 0) or a.get('k') == 'cond' and is_int(a['b'], 0)
                if not okn:
                    ctx.report('the number of descriptors returned (%s) is not forced to 0 for a failed read'
                               % estr(a), c['line'], key='count')
                return 'idle'
        if isinstance(user, tuple):
            k = ctx.result_known(user[1])
            if k is True:
                return 'held'
            if k is False:
                return 'idle'
        return user

    def on_exit(user, ctx, ret, ev):
        st = user
        if isinstance(st, tuple):
            st = 'idle' if ctx.result_known(st[1]) is False else 'held'
        if st == 'held':
            ctx.report('do_reading returns with the descriptor buffer still borrowed', ev['line'] if ev else None,
                       key='not-returned')
    ex = Explorer(rd, init='idle', on_event=on_event, on_exit=on_exit,
                  calls={'_dbus_message_loader_get_unix_fds'}, track='auto', cap=300000).run()
    if ex.reports:
        r.from_reports(ex.reports, keyfn=lambda k, rep: 'do_reading:%s' % k)
    else:
        r.ok('do_reading:unix-fds-buffer-paired')
    # pending fd timeout
    cb = prog.fn('check_pending_fds_cb', 'bus/connection.c')

    def akey(atom, resolve):
        if atom[0] == 'truthy' and is_ref(atom[1]) and atom[1]['name'] in ('n_pending_unix_fds_old', 'n_pending_unix_fds_new'):
            return ('nz', atom[1]['name'])
        if atom[0] == 'cmp' and atom[1] == '<=' and is_ref(atom[2]) and is_int(atom[3], 0) and \
                atom[2]['name'] in ('n_pending_unix_fds_old', 'n_pending_unix_fds_new'):
            return ('le0', atom[2]['name'])
        if atom[0] == 'cmp':
            names = {x['name'] for x in walk({'l': atom[2], 'r': atom[3]}) if is_ref(x)}
            if names & {'n_pending_unix_fds_old', 'n_pending_unix_fds_new'}:
                return ('other', estr(atom[2]), atom[1], estr(atom[3]))
        return None
    acts = set()

    def val(ctx, name):
        at = ctx.atoms()
        if ('nz', name) in at:
            return 'pos' if at[('nz', name)] else 'zero'     # counts are non-negative
        if ('le0', name) in at:
            return 'zero' if at[('le0', name)] else 'pos'
        return None

    def on_event2(user, ev, ctx):
        if ev['ev'] == 'call':
            cal = ev['e'].get('callee')
            if cal == '_dbus_timeout_disable':
                acts.add('disable')
                if val(ctx, 'n_pending_unix_fds_new') != 'zero':
                    ctx.report('the pending-descriptor timeout is cancelled although descriptors are still pending '
                               '(new count not known to be 0)', ev['line'], key='disable')
            if cal == '_dbus_timeout_restart':
                acts.add('restart')
                if val(ctx, 'n_pending_unix_fds_new') != 'pos' or val(ctx, 'n_pending_unix_fds_old') != 'zero':
                    ctx.report('the pending-descriptor timeout is (re)started on a transition other than 0 -> N',
                               ev['line'], key='restart')
        return user
    ex2 = Explorer(cb, on_event=on_event2, atom_key=akey, track='auto').run()
    if acts != {'disable', 'restart'}:
        r.violation('check_pending_fds_cb:actions', cb.name, cb.file, cb.line,
                    'the callback no longer both restarts and disables the timeout')
    elif ex2.reports:
        r.from_reports(ex2.reports, keyfn=lambda k, rep: 'check_pending_fds_cb:%s' % k)
    else:
        r.ok('check_pending_fds_cb:timer-tracks-pending')
    sc = prog.fn('bus_connections_setup_connection', 'bus/connection.c')
    if any(is_ref(a, 'check_pending_fds_cb') or mentions(a, lambda x: is_ref(x, 'check_pending_fds_cb'))
           for b, i, c in sc.calls('_dbus_connection_set_pending_fds_function') for a in c['args']):
        r.ok('setup_connection:registers-pending-fds-callback')
    else:
        r.violation('setup_connection:registers-pending-fds-callback', sc.name, sc.file, sc.line,
                    'the pending-descriptor callback is no longer registered for new connections')
    to = prog.fn('pending_unix_fds_timeout_cb', 'bus/connection.c')
    if to.calls('dbus_connection_close'):
        r.ok('pending_unix_fds_timeout_cb:closes-connection')
    else:
        r.violation('pending_unix_fds_timeout_cb:closes-connection', to.name, to.file, to.line,
                    'the pending-descriptor timeout no longer disconnects the offender')


def c15_4b(ck, prog):
    r = ck.rule('C15.4b', 'arming the pending-descriptor timeout restarts its clock: _dbus_timeout_restart stores '
                'the interval, enables the timeout and requests a restart on every path, whatever the previous '
                'interval was', 'TS',
                breaks='a timeout re-armed with the same interval keeps counting from its previous arming: a '
                       'well-behaved connection is dropped for "descriptors pending too long"', floor=3)
    fn = prog.fn('_dbus_timeout_restart', 'dbus/dbus-timeout.c')

    def on_event(user, ev, ctx):
        for lhs, how, rhs in written_lvalues(ev):
            if lhs.get('k') == 'member' and lhs.get('rec') == 'DBusTimeout' and how == '=':
                if lhs['field'] == 'needs_restart' and is_int(rhs) and rhs['v'] != 0:
                    user = user | {'needs_restart'}
                if lhs['field'] == 'enabled' and is_int(rhs) and rhs['v'] != 0:
                    user = user | {'enabled'}
                if lhs['field'] == 'interval' and is_ref(rhs or {}) and rhs.get('kind') == 'param':
                    user = user | {'interval'}
        return user

    def on_exit(user, ctx, ret, ev):
        for what in ('interval', 'enabled', 'needs_restart'):
            if what not in user:
                ctx.report('_dbus_timeout_restart can return without having set %s' % what,
                           ev['line'] if ev else fn.endline, key=what)
    ex = Explorer(fn, init=frozenset(), on_event=on_event, on_exit=on_exit, track=None).run()
    for what in ('interval', 'enabled', 'needs_restart'):
        if what in ex.reports:
            rep = ex.reports[what]
            r.violation('_dbus_timeout_restart:%s' % what, fn.name, fn.file, rep['line'], rep['reason'], rep['path'])
        else:
            r.ok('_dbus_timeout_restart:%s' % what)


def c15_9(ck, prog, rid='C15.9'):
    r = ck.rule(rid, 'descriptor passing counts as negotiated only after the peer agreed: the flag is set on the '
                'client when AGREE_UNIX_FD was received, on the server when it answers NEGOTIATE_UNIX_FD while passing '
                'is possible on the transport, and nowhere else', 'TS',
                breaks='a peer that refused (or never saw) NEGOTIATE_UNIX_FD is sent descriptors', floor=2)
    AUTH = 'dbus/dbus-auth.c'
    agree = prog.enums.get('DBUS_AUTH_COMMAND_AGREE_UNIX_FD')
    nego = prog.enums.get('DBUS_AUTH_COMMAND_NEGOTIATE_UNIX_FD')
    if agree is None or nego is None:
        raise AnalysisBroken('auth command enumerators not found')
    sites = 0
    for f, line, how, rhs, lhs in lib.field_writes(prog, 'DBusAuth', 'unix_fd_negotiated'):
        if how != '=' or rhs is None or is_int(rhs, 0):
            continue
        sites += 1
    setters = {f.name for f, line, how, rhs, lhs in lib.field_writes(prog, 'DBusAuth', 'unix_fd_negotiated')
               if how == '=' and rhs is not None and not is_int(rhs, 0)}
    for name in sorted(setters):
        fn = prog.fn(name, AUTH)
        cmdp = [p for p in fn.params if p.get('t') == 'DBusAuthCommand']
        if cmdp:
            cid = cmdp[0]['id']

            def on_event(user, ev, ctx, cid=cid, fn=fn):
                for lhs, how, rhs in written_lvalues(ev):
                    if is_member(lhs, 'unix_fd_negotiated', 'DBusAuth') and how == '=' and not is_int(rhs, 0):
                        v = ctx.env.get(('v', cid))
                        if not (v and v[0] == 'c' and v[1] == agree):
                            ctx.report('descriptor passing is marked as negotiated while handling command %s, not '
                                       'AGREE_UNIX_FD' % (v[1] if v and v[0] == 'c' else 'unknown'), ev['line'],
                                       key=('client', ev['line']))
                return user
            ex = Explorer(fn, on_event=on_event, track={cmdp[0]['name']}, cap=200000).run()
            if ex.reports:
                r.from_reports(ex.reports, keyfn=lambda k, rep, fn=fn: '%s:set-without-agree' % fn.name)
            else:
                r.ok('%s:set-on-agree-only' % fn.name)
        else:
            # a sender of the agreement: reachable only from the handler of NEGOTIATE_UNIX_FD with passing possible
            callers = [(g, c) for (g, b, i, c) in prog.call_sites(name) if prog.is_production(g)]
            okc = bool(callers)
            for g, c in callers:
                gp = [p for p in g.params if p.get('t') == 'DBusAuthCommand']
                if not gp:
                    okc = False
                    continue
                hit = {}

                def on_event(user, ev, ctx, gp=gp, c=c, hit=hit):
                    if ev['ev'] == 'call' and ev['e']['id'] == c['id']:
                        v = ctx.env.get(('v', gp[0]['id']))
                        hit[(v[1] if v and v[0] == 'c' else None, ctx.atom('possible'))] = ev['line']
                    return user

                def akey(atom, resolve):
                    if atom[0] == 'truthy' and is_member(atom[1], 'unix_fd_possible', 'DBusAuth'):
                        return 'possible'
                    return None
                Explorer(g, on_event=on_event, atom_key=akey, track={gp[0]['name']}, cap=200000).run()
                for (cmd, poss), line in hit.items():
                    if cmd != nego or poss is not True:
                        okc = False
                        r.violation('%s:agreement-sent' % g.name, g.name, AUTH, line,
                                    'the server agrees to descriptor passing while handling command %s with '
                                    'unix_fd_possible %s' % (cmd, poss))
            if okc:
                r.ok('%s:only-answering-negotiate' % name)
            elif not callers:
                r.violation('%s:callers' % name, name, AUTH, fn.line, 'no caller found')
    if sites < 2:
        raise AnalysisBroken('unix_fd_negotiated setters not found (%d)' % sites)


def c15_10(ck, prog, rid='C15.10'):
    r = ck.rule(rid, 'a message object taken from the cache starts with the bookkeeping of a fresh one: on every successful '
                'exit of dbus_message_new_empty_header the counts of descriptors held and of array slots allocated, the '
                'counter deltas, the lock flag and the change stamp have been reset', 'TS',
                breaks='a recycled message keeps a stale "slots allocated" count while its descriptor array was freed by '
                'the parser: appending a descriptor skips the allocation and fails (or writes through a NULL array) only '
                'for messages with that history', floor=1)
    fn = prog.fn('dbus_message_new_empty_header', MSG)
    REQUIRED = {'n_unix_fds', 'n_unix_fds_allocated', 'unix_fd_counter_delta', 'locked', 'counters',
                'size_counter_delta', 'changed_stamp'}
    present = {lhs['field'] for b, i, ev in fn.events() for lhs, how, rhs in written_lvalues(ev)
               if is_member(lhs, None, 'DBusMessage')}
    required = REQUIRED & (present | {'n_unix_fds_allocated', 'n_unix_fds'})
    if 'n_unix_fds' not in present:
        r.skip('descriptor passing is not compiled in this configuration')
        return

    def on_event(user, ev, ctx):
        for lhs, how, rhs in written_lvalues(ev):
            if is_member(lhs, None, 'DBusMessage') and how == '=' and lhs['field'] in REQUIRED:
                return user | {lhs['field']}
        return user

    def on_exit(user, ctx, ret, ev):
        if ctx.ret_status(ret) == 'fail':
            return
        missing = required - user
        if missing:
            ctx.report('a message can be handed out with %s not reset' % ', '.join(sorted(missing)), ev['line'],
                       key=('stale', tuple(sorted(missing))))
    ex = Explorer(fn, init=frozenset(), on_event=on_event, on_exit=on_exit, track='auto',
                  calls={'dbus_message_get_cached'}, cap=200000).run()
    if ex.reports:
        r.from_reports(ex.reports, keyfn=lambda k, rep: 'new_empty_header:%s' % ','.join(k[1]))
    else:
        r.ok('new_empty_header:bookkeeping-reset', {'fields': sorted(required)})


def run(ck):
    ck.explanation = (
        'Static rules over dbus-sysdeps-unix.c, dbus-message.c, dbus-transport-socket.c, dbus-connection.c, '
        'bus/dispatch.c, bus/connection.c: (TS) every error return after descriptors were received closes them; '
        '(DOM) descriptor arrays are closed before being freed or recycled, the count leaving the loader equals the '
        'count entering the message and is checked first, byte sizes are count*sizeof(int); (DOM) queuing a message '
        'with descriptors requires the negotiated capability in the bus and in libdbus, descriptors accompany only '
        'the first write of a message; (PAIR) the loader\'s descriptor buffer is borrowed/returned in pairs and the '
        'pending-descriptor timeout runs exactly while surplus descriptors are held.')
    ck.not_decided = ('identity and order of the received open files; the daemon\'s descriptor count over '
                      'histories; kernel behaviour of SCM_RIGHTS')
    for v, prog in ck.programs(thorough_variants=('B',)):
        c15_1(ck, prog)
        c15_2(ck, prog)
        c15_3(ck, prog)
        c15_4(ck, prog)
        c15_4b(ck, prog)
        from rules.C11 import c11_6
        c11_6(ck, prog, 'C15.8')
        c15_9(ck, prog)
        c15_10(ck, prog)
        from rules.C10 import c10_12
        c10_12(ck, prog, 'C15.12')
        r = ck.rule('C15.11', 'a function that stores a requested maximum (loader / transport / connection `..._set_max_...`) only ever lowers the request: each replacement of the parameter by a constant K lies behind `param > C` with C >= K (clamping from above); a request of 0 is stored as 0', 'DOM',
                    breaks='a configured per-message descriptor limit of 0 ("this bus passes no descriptors") is turned into the default 16: messages with descriptors are accepted and surplus descriptors held for a connection whose limit is 0', floor=2)
        lib.limit_setters_only_lower(prog, r, {'dbus/dbus-message.c', 'dbus/dbus-transport.c', 'dbus/dbus-connection.c'})
