"""Functional behaviour of the public list operations of dbus/dbus-list.c, decided by abstract interpretation.

The operations are small pointer programs over a circular doubly-linked list.  Their CFG facts (stores, loads, branches,
calls into one another) are interpreted over every list of 0..3 links (with equal and distinct data values, every link /
anchor / data argument), and the resulting shape, the return value and the set of freed links are compared with the
operation's specification (append = sequence + [x], remove = first match goes and is freed, pop_first = head leaves ...).
Nothing is run: the interpreter walks the extracted CFG.  Three links stand for any length because every operation
reaches at most two hops from its arguments or walks link by link with the same loop body (the walk is followed to its
end on each shape; a walk that does not end within the step bound is reported).

This is the ground the ordering properties stand on (owner queues C04, delivery order C05/C11, pending replies C09,
limits counted by list length C13, held activation messages C19): their rules establish WHICH list operation is called
where; this one establishes that the operation does what its name says."""
from engine.cfg import estr, is_int, is_ref
from engine.facts import AnalysisBroken

LIST = 'dbus/dbus-list.c'


class Stuck(Exception):
    """the interpreter cannot follow the code (no verdict)"""


class Fault(Exception):
    """the operation itself goes wrong on this list (a verdict)"""


class Machine:
    def __init__(self, prog, heap, heads, oom=False):
        self.prog = prog
        self.heap = heap            # node -> {'next','prev','data'}
        self.heads = heads          # name -> node | 0
        self.freed = set()
        self.fresh = 0
        self.oom = oom              # False | True (every allocation fails) | int k (the k-th allocation fails)
        self.nalloc = 0
        self.steps = 0

    # -- values: 0 = NULL/FALSE, ints, node names, data tokens, ('headp', name)
    def alloc(self, data):
        k = self.nalloc
        self.nalloc += 1
        if self.oom is True or (self.oom is not False and self.oom == k):
            return 0
        n = 'new%d' % self.fresh
        self.fresh += 1
        self.heap[n] = {'next': 0, 'prev': 0, 'data': data}
        return n

    def load(self, node, field, where):
        if node == 0 or node not in self.heap:
            raise Fault('NULL or non-link dereferenced in %s' % where)
        if node in self.freed:
            raise Fault('a freed link is read in %s' % where)
        return self.heap[node][field]

    def call(self, name, args, depth):
        if name in ('alloc_link', '_dbus_list_alloc_link'):
            return self.alloc(args[0])
        if name in ('free_link', '_dbus_list_free_link'):
            if args[0] in self.freed:
                raise Fault('a link is freed twice')
            if args[0] == 0:
                raise Fault('free_link (NULL)')
            self.freed.add(args[0])
            return 0
        if name in ('_dbus_real_assert', '_dbus_verbose_real', '_dbus_warn_check_failed'):
            return 0
        if name is None:
            raise Stuck('indirect call')
        try:
            fn = self.prog.fn(name, LIST)
        except Exception:
            raise Stuck('call to %s' % name)
        if depth > 5:
            raise Stuck('call depth')
        return self.run(fn, args, depth + 1)

    def run(self, fn, args, depth=0):
        if len(args) != len(fn.params):
            raise Stuck('%s: arity' % fn.name)
        env = {p['id']: v for p, v in zip(fn.params, args)}
        results = {}

        def ev(e):
            k = e.get('k')
            if k == 'int':
                return e['v']
            if k in ('paren', 'cast'):
                return ev(e['e'])
            if k == 'ref':
                if e.get('id') in env:
                    return env[e['id']]
                raise Stuck('%s: variable %s has no value' % (fn.name, e.get('name')))
            if k == 'un' and e['op'] == '*':
                b = ev(e['e'])
                if isinstance(b, tuple) and b[0] == 'headp':
                    return self.heads[b[1]]
                raise Stuck('%s: dereference of %s' % (fn.name, estr(e)))
            if k == 'un' and e['op'] == '!':
                return int(ev(e['e']) == 0)
            if k == 'un' and e['op'] == '-':
                return -ev(e['e'])
            if k == 'member' and e['field'] in ('next', 'prev', 'data') and e.get('rec') == 'DBusList':
                return self.load(ev(e['base']), e['field'], fn.name)
            if k == 'bin':
                op = e['op']
                if op == '&&':
                    return int(ev(e['l']) != 0 and ev(e['r']) != 0)
                if op == '||':
                    return int(ev(e['l']) != 0 or ev(e['r']) != 0)
                a, b = ev(e['l']), ev(e['r'])
                if op == '==':
                    return int(a == b)
                if op == '!=':
                    return int(a != b)
                if isinstance(a, int) and isinstance(b, int):
                    if op in ('<', '>', '<=', '>='):
                        return int({'<': a < b, '>': a > b, '<=': a <= b, '>=': a >= b}[op])
                    if op == '+':
                        return a + b
                    if op == '-':
                        return a - b
                raise Stuck('%s: operator %s on %r, %r' % (fn.name, op, a, b))
            if k == 'cond':
                return ev(e['a'] if ev(e['c']) != 0 else e['b'])
            if k == 'call':
                if e.get('id') in results:
                    return results[e['id']]
                v = self.call(e.get('callee'), [ev(a) for a in e['args']], depth)
                results[e['id']] = v
                return v
            raise Stuck('%s: expression %s' % (fn.name, estr(e)))

        def store(lhs, val):
            k = lhs.get('k')
            if k in ('paren', 'cast'):
                return store(lhs['e'], val)
            if 'k' not in lhs or k == 'ref':
                env[lhs['id']] = val
                return
            if k == 'un' and lhs['op'] == '*':
                b = ev(lhs['e'])
                if isinstance(b, tuple) and b[0] == 'headp':
                    self.heads[b[1]] = val
                    return
                raise Stuck('%s: store through %s' % (fn.name, estr(lhs)))
            if k == 'member' and lhs['field'] in ('next', 'prev', 'data'):
                n = ev(lhs['base'])
                if n == 0 or n not in self.heap:
                    raise Fault('%s: store through NULL (%s)' % (fn.name, estr(lhs)))
                if n in self.freed:
                    raise Fault('%s: a freed link is written (%s)' % (fn.name, estr(lhs)))
                self.heap[n][lhs['field']] = val
                return
            raise Stuck('%s: store to %s' % (fn.name, estr(lhs)))
        b = fn.entry
        while True:
            self.steps += 1
            if self.steps > 4000:
                raise Fault('%s does not come to an end on this list' % fn.name)
            blk = fn.blocks[b]
            for e in blk['events']:
                kind = e['ev']
                if kind == 'call':
                    c = e['e']
                    results.pop(c.get('id'), None)
                    if c.get('callee') in ('_dbus_real_assert', '_dbus_verbose_real', '_dbus_warn_check_failed'):
                        results[c['id']] = 0
                        continue
                    results[c['id']] = self.call(c.get('callee'), [ev(a) for a in c['args']], depth)
                elif kind == 'assign':
                    x = e['e']
                    if x['op'] == '=':
                        store(x['l'], ev(x['r']))
                    elif x['op'] in ('+=', '-='):
                        cur = ev(x['l'])
                        d = ev(x['r'])
                        store(x['l'], cur + d if x['op'] == '+=' else cur - d)
                    else:
                        raise Stuck('%s: %s' % (fn.name, estr(x)))
                elif kind == 'incdec':
                    x = e['e']
                    store(x['e'], ev(x['e']) + (1 if x['op'] == '++' else -1))
                elif kind == 'decl':
                    if e.get('init') is not None:
                        env[e['var']['id']] = ev(e['init'])
                elif kind == 'return':
                    return ev(e['e']) if e.get('e') is not None else 0
                elif kind in ('deref', 'sub'):
                    continue
                else:
                    raise Stuck('%s: event %s' % (fn.name, kind))
            succs = [s for s in blk['succs'] if s is not None]
            t = blk.get('term')
            if b == fn.exit or not succs:
                return 0
            if t and t.get('cond') is not None and len(blk['succs']) == 2:
                v = ev(t['cond'])
                b = blk['succs'][0] if v != 0 else blk['succs'][1]
            else:
                b = succs[0]
            if b is None or b < 0:
                raise Stuck('%s: pruned edge taken' % fn.name)


def ring_of(m, head):
    """the list starting at head as [node...], following next; Stuck when it is not a proper ring"""
    if head == 0:
        return []
    seq = []
    n = head
    for _ in range(12):
        if n == 0 or n not in m.heap:
            raise Fault('the list runs into NULL after %s' % seq)
        seq.append(n)
        n = m.heap[n]['next']
        if n == head:
            break
    else:
        raise Fault('the list does not close')
    for i, x in enumerate(seq):
        if m.heap[x]['prev'] != seq[i - 1]:
            raise Fault('prev of %s is %s, expected %s' % (x, m.heap[x]['prev'], seq[i - 1]))
        if x in m.freed:
            raise Fault('the freed link %s is still in the list' % x)
    return seq


def build(datas):
    nodes = ['n%d' % i for i in range(len(datas))]
    heap = {}
    for i, x in enumerate(nodes):
        heap[x] = {'next': nodes[(i + 1) % len(nodes)], 'prev': nodes[i - 1], 'data': datas[i]}
    return nodes, heap


DATA_PATTERNS = [(), ('d0',), ('d0', 'd1'), ('d0', 'd0'), ('d0', 'd1', 'd2'), ('d0', 'd1', 'd0'), ('d0', 'd0', 'd1'),
                 ('d1', 'd0', 'd0')]


def first_index(datas, d):
    return next((i for i, x in enumerate(datas) if x == d), None)


def last_index(datas, d):
    return next((i for i in range(len(datas) - 1, -1, -1) if datas[i] == d), None)


# op -> (argument kinds after the list, model(nodes, datas, args) -> dict(seq=[(node|'new', data)], ret=..., freed=set,
#        detached=set))
def _ins(nodes, datas, at, d):
    seq = list(zip(nodes, datas))
    return seq[:at] + [('new0', d)] + seq[at:]


OPS = {
    '_dbus_list_append': (('data',), lambda n, d, a: dict(seq=_ins(n, d, len(n), a[0]), ret=1)),
    '_dbus_list_prepend': (('data',), lambda n, d, a: dict(seq=_ins(n, d, 0, a[0]), ret=1)),
    '_dbus_list_insert_after': (('link0', 'data'),
                                lambda n, d, a: dict(seq=_ins(n, d, 0 if a[0] == 0 else n.index(a[0]) + 1, a[1]), ret=1)),
    '_dbus_list_remove': (('data',), lambda n, d, a: _remove(n, d, first_index(d, a[0]))),
    '_dbus_list_remove_last': (('data',), lambda n, d, a: _remove(n, d, last_index(d, a[0]))),
    '_dbus_list_find_last': (('data',), lambda n, d, a: dict(seq=list(zip(n, d)),
                                                            ret=(n[last_index(d, a[0])] if last_index(d, a[0]) is not None else 0))),
    '_dbus_list_remove_link': (('link',), lambda n, d, a: dict(_remove(n, d, n.index(a[0])), ret=None)),
    '_dbus_list_clear': ((), lambda n, d, a: dict(seq=[], ret=None, freed=set(n))),
    '_dbus_list_get_first_link': ((), lambda n, d, a: dict(seq=list(zip(n, d)), ret=n[0] if n else 0)),
    '_dbus_list_get_last_link': ((), lambda n, d, a: dict(seq=list(zip(n, d)), ret=n[-1] if n else 0)),
    '_dbus_list_get_first': ((), lambda n, d, a: dict(seq=list(zip(n, d)), ret=d[0] if n else 0)),
    '_dbus_list_get_last': ((), lambda n, d, a: dict(seq=list(zip(n, d)), ret=d[-1] if n else 0)),
    '_dbus_list_pop_first_link': ((), lambda n, d, a: dict(seq=list(zip(n, d))[1:], ret=n[0] if n else 0,
                                                          detached=set(n[:1]))),
    '_dbus_list_pop_first': ((), lambda n, d, a: dict(seq=list(zip(n, d))[1:], ret=d[0] if n else 0, freed=set(n[:1]))),
    '_dbus_list_pop_last': ((), lambda n, d, a: dict(seq=list(zip(n, d))[:-1], ret=d[-1] if n else 0, freed=set(n[-1:]))),
    '_dbus_list_append_link': (('newlink',), lambda n, d, a: dict(seq=_ins(n, d, len(n), 'dn'), ret=None)),
    '_dbus_list_prepend_link': (('newlink',), lambda n, d, a: dict(seq=_ins(n, d, 0, 'dn'), ret=None)),
    '_dbus_list_insert_before_link': (('link0', 'newlink'), lambda n, d, a: dict(
        seq=_ins(n, d, len(n) if a[0] == 0 else n.index(a[0]), 'dn'), ret=None)),
    '_dbus_list_insert_after_link': (('link0', 'newlink'), lambda n, d, a: dict(
        seq=_ins(n, d, 0 if a[0] == 0 else n.index(a[0]) + 1, 'dn'), ret=None)),
    '_dbus_list_unlink': (('link',), lambda n, d, a: dict(
        seq=[x for x in zip(n, d) if x[0] != a[0]], ret=None, detached={a[0]})),
    '_dbus_list_get_length': ((), lambda n, d, a: dict(seq=list(zip(n, d)), ret=len(n))),
    '_dbus_list_length_is_one': ((), lambda n, d, a: dict(seq=list(zip(n, d)), ret=int(len(n) == 1))),
}


def _remove(n, d, idx):
    seq = list(zip(n, d))
    if idx is None:
        return dict(seq=seq, ret=0)
    return dict(seq=seq[:idx] + seq[idx + 1:], ret=1, freed={n[idx]})


def arg_choices(kind, nodes):
    if kind == 'data':
        return ['d0', 'd1', 'dx']
    if kind == 'link':
        return list(nodes)
    if kind == 'link0':
        return [0] + list(nodes)
    if kind == 'newlink':
        return ['new0']
    raise AssertionError(kind)


def check(prog, r):
    total = 0
    for name, (kinds, model) in OPS.items():
        fn = prog.fn(name, LIST)
        if len(fn.params) != 1 + len(kinds):
            raise AnalysisBroken('%s: expected %d parameters' % (name, 1 + len(kinds)))
        cases = 0
        bad = stuck = None
        for datas in DATA_PATTERNS:
            nodes, _ = build(datas)
            combos = [[]]
            for kd in kinds:
                combos = [c + [x] for c in combos for x in arg_choices(kd, nodes)]
            if 'link' in kinds and not nodes:
                continue
            if not nodes and 'link0' in kinds and name == '_dbus_list_insert_before_link':
                pass
            for args in combos:
                for oom in ((False, True) if any(k == 'data' for k in kinds) and name in (
                        '_dbus_list_append', '_dbus_list_prepend', '_dbus_list_insert_after') else (False,)):
                    nodes, heap = build(datas)
                    if 'newlink' in kinds:
                        heap['new0'] = {'next': 0, 'prev': 0, 'data': 'dn'}      # a link allocated beforehand
                    m = Machine(prog, heap, {'L': nodes[0] if nodes else 0}, oom=oom)
                    want = model(nodes, list(datas), args)
                    if oom:
                        want = dict(seq=list(zip(nodes, datas)), ret=0)
                    what = '%s (%s%s) on the list %s%s' % (name, 'list', ''.join(', %s' % a for a in args),
                                                        list(zip(nodes, datas)), ' with no memory for a new link' if oom else '')
                    try:
                        ret = m.run(fn, [('headp', 'L')] + args)
                        seq = ring_of(m, m.heads['L'])
                    except Fault as e:
                        cases += 1
                        bad = bad or '%s: %s' % (what, e)
                        continue
                    except Stuck as e:
                        stuck = stuck or '%s: %s' % (what, e)
                        continue
                    cases += 1
                    got = [(x, m.heap[x]['data']) for x in seq]
                    if got != want['seq']:
                        bad = bad or '%s leaves %s, expected %s' % (what, got, want['seq'])
                        continue
                    if want.get('ret') is not None and ret != want['ret']:
                        bad = bad or '%s returns %r, expected %r' % (what, ret, want['ret'])
                        continue
                    if m.freed != want.get('freed', set()):
                        bad = bad or '%s frees %s, expected %s' % (what, sorted(m.freed), sorted(want.get('freed', set())))
                        continue
                    for x in want.get('detached', ()):
                        if m.heap[x]['next'] != 0 or m.heap[x]['prev'] != 0:
                            bad = bad or '%s hands out the link %s still pointing into the list' % (what, x)
        key = '%s:does-what-it-says' % name
        if cases < 3 or stuck:
            raise AnalysisBroken('%s: %d cases interpreted; the interpreter could not follow: %s' % (name, cases, stuck))
        total += cases
        if bad:
            r.violation(key, fn.name, LIST, fn.line, bad)
        else:
            r.ok(key, {'cases': cases})
    # _dbus_list_copy: a second list head; every allocation index may fail
    fn = prog.fn('_dbus_list_copy', LIST)
    bad = stuck = None
    cases = 0
    for datas in DATA_PATTERNS:
        for oom in [False] + list(range(len(datas))):
            nodes, heap = build(datas)
            m = Machine(prog, heap, {'L': nodes[0] if nodes else 0, 'D': 'junk'}, oom=oom)
            what = '_dbus_list_copy on the list %s%s' % (list(zip(nodes, datas)),
                                                        '' if oom is False else ' with no memory for link #%d' % (oom + 1))
            try:
                ret = m.run(fn, [('headp', 'L'), ('headp', 'D')])
                src = ring_of(m, m.heads['L'])
                dst = ring_of(m, m.heads['D']) if m.heads['D'] != 'junk' else None
            except Fault as e:
                cases += 1
                bad = bad or '%s: %s' % (what, e)
                continue
            except Stuck as e:
                stuck = stuck or '%s: %s' % (what, e)
                continue
            cases += 1
            if [(x, m.heap[x]['data']) for x in src] != list(zip(nodes, datas)):
                bad = bad or '%s changes the source list' % what
            elif dst is None:
                bad = bad or '%s leaves the destination head unset' % what
            elif oom is False:
                if ret != 1 or [m.heap[x]['data'] for x in dst] != list(datas):
                    bad = bad or '%s returns %r with the copy %s' % (what, ret, [m.heap[x]['data'] for x in dst])
            else:
                live = [x for x in m.heap if x.startswith('new') and x not in m.freed]
                if ret != 0:
                    bad = bad or '%s reports success with an incomplete copy %s' % (what, [m.heap[x]['data'] for x in dst])
                elif dst or live:
                    bad = bad or '%s fails but leaves %d link(s) allocated / a non-empty destination' % (what, len(live))
    if cases < 3 or stuck:
        raise AnalysisBroken('_dbus_list_copy: %d cases interpreted; the interpreter could not follow: %s' % (cases, stuck))
    key = '_dbus_list_copy:does-what-it-says'
    if bad:
        r.violation(key, fn.name, LIST, fn.line, bad)
    else:
        r.ok(key, {'cases': cases})
    return total + cases
