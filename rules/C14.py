"""C14 - out-of-memory at any point leaves state unchanged and leaks nothing.
DESIGN.md C14.1 - C14.5 (structural clauses)."""
from engine.cfg import (Explorer, estr, is_call, is_int, is_member, is_ref, strip_addr, walk,
                        written_lvalues, event_expr)
from engine.facts import AnalysisBroken
from engine import lib

# ---------------------------------------------------------------------------
# C14.1 irrevocable-last

OWNER_LIST_OPS = {'_dbus_list_append', '_dbus_list_prepend', '_dbus_list_insert_after', '_dbus_list_unlink',
                  '_dbus_list_insert_after_link', '_dbus_list_insert_before_link', '_dbus_list_remove_link',
                  '_dbus_list_remove', '_dbus_list_append_link', '_dbus_list_prepend_link'}
HOOKS = {'add_cancel_ownership_to_transaction', 'add_restore_ownership_to_transaction'}
COMPENSATE = {'bus_service_unlink_owner'}


def is_failure_return(ctx, ret, fn):
    return ctx.ret_status(ret) == 'fail'


# Reviewed exemptions (one symbol each, with the reason).  key: (function, effect label prefix, failing callee)
EXEMPT = {
    ('bus_registry_acquire_service', 'owner-flags-changed', 'bus_activation_send_pending_auto_activation_messages'):
        'send_pending allocates only if a pending activation exists for the name, which requires the name to have '
        'no owner; in the ALREADY_OWNER branch it has one',
    ('bus_registry_acquire_service', 'owner-queue-edit', 'bus_activation_send_pending_auto_activation_messages'):
        'same: in the EXISTS branch the name has an owner, so no pending activation can exist for it',
}


def primary_conn_arg(fn, call):
    """bus_service_remove_owner (service, X, ..) where every non-NULL definition of X is
    primary_owner->conn: the callee's non-primary (unhooked) branch is unreachable."""
    a = call['args'][1] if len(call['args']) > 1 else None
    if a is None or not is_ref(a):
        return False
    defs = []
    for b, i, ev in fn.events():
        for lhs, how, rhs in written_lvalues(ev):
            if is_ref(lhs) and lhs.get('id') == a.get('id') and how in ('=', 'decl') and rhs is not None:
                defs.append(rhs)
    def okdef(d):
        while d.get('k') in ('paren', 'cast') and isinstance(d.get('e'), dict):
            d = d['e']
        if d.get('k') == 'cond':       # c ? primary_owner->conn : NULL
            return all(okdef(d[k]) for k in ('a', 'b') if isinstance(d.get(k), dict))
        return is_int(d, 0) or (is_member(d, 'conn', 'BusOwner') and is_ref(d['base'], 'primary_owner'))
    return bool(defs) and all(okdef(d) for d in defs)


def irrevocable_last(fn, effects, neutral, summaries=None, hooked_after=()):
    """Explore fn.  effects(ev, ctx) -> label|None (an effect that the transaction
    cannot undo); neutral(ev, ctx) -> set of labels cleared ('*' = all).
    summaries: callee -> set(labels) for callees that may succeed having performed
    such effects.  Returns (violations {label: (line, path)}, success_pending labels)."""
    viol = {}
    succ_pending = set()
    exempted = set()
    summaries = summaries or {}
    sumcalls = {c['id']: c.get('callee') for b, i, c in fn.calls() if c.get('callee') in summaries
                and not (c.get('callee') == 'bus_service_remove_owner' and primary_conn_arg(fn, c))}
    fallible = {c['id']: c.get('callee') for b, i, c in fn.calls() if c.get('callee')}
    id2line = {c['id']: c['line'] for b, i, c in fn.calls()}

    def on_event(user, ev, ctx):
        pending, hooked = user
        if ev['ev'] == 'call':
            c = ev['e']
            if c.get('callee') in hooked_after:
                # effects after a successful hook registration are undone on cancel
                hooked = hooked | {c['id']}
        lab = effects(ev, ctx)
        if lab and not any(ctx.result_known(h) is True for h in hooked):
            cid = None
            if ev['ev'] == 'call' and ev['e'].get('t') == 'dbus_bool_t':
                cid = ev['e']['id']       # fallible primitive: an effect only if it succeeded
            pending = pending | {(lab, ev['line'], cid)}
        if ev['ev'] == 'call' and ev['e']['id'] in sumcalls:
            pending = pending | {('%s[%s]' % (sumcalls[ev['e']['id']], ','.join(sorted(summaries[sumcalls[ev['e']['id']]]))),
                                 ev['line'], ev['e']['id'])}
        cl = neutral(ev, ctx)
        if cl:
            if '*' in cl:
                pending = frozenset()
            else:
                pending = frozenset(p for p in pending if p[0] not in cl)
        return (pending, hooked)

    def live(user, ctx):
        pending, hooked = user
        out = []
        for lab, line, cid in pending:
            if cid is not None and ctx.result_known(cid) is False:
                continue        # the summarised callee failed: it performed nothing lasting
            out.append((lab, line))
        # a hook that succeeded before? (effects were only recorded when no hook had succeeded)
        return out

    def on_exit(user, ctx, ret, ev):
        lv = live(user, ctx)
        if not lv:
            return
        st = ctx.ret_status(ret)
        if st in ('fail', 'unknown'):
            # the step whose failure this exit reports: the call the returned value comes from, else the
            # latest (by source position) call that is known to have failed on this path
            failed = set()
            o = ctx.origin_call(ret) if ret is not None else None
            if o is not None and o[0] in fallible:
                failed = {fallible[o[0]]}
            else:
                fl = [(id2line.get(k[1], 0), fallible[k[1]]) for k, v in ctx.env.items()
                      if k[0] == 'res' and v is False and k[1] in fallible and fallible[k[1]] != 'dbus_error_is_set']
                if fl:
                    failed = {max(fl)[1]}
            for lab, line in lv:
                ex_ok = failed and all((fn.name, lab.split('[')[0], f) in EXEMPT for f in failed
                                       if f not in ('dbus_error_is_set',))
                if ex_ok:
                    exempted.add((lab, tuple(sorted(failed))))
                    continue
                if lab not in viol and st == 'fail':
                    viol[lab] = (line, ev['line'], ctx.trace())
        if st in ('ok', 'unknown'):
            for lab, line in lv:
                succ_pending.add(lab)
    ex = Explorer(fn, init=(frozenset(), frozenset()), on_event=on_event, on_exit=on_exit,
                  calls=set(summaries) | set(hooked_after) | set(OWNER_LIST_OPS) | {
                      'bus_connection_complete', 'bus_matchmaker_add_rule', 'bus_matchmaker_remove_rule_by_value',
                      'bus_activation_send_pending_auto_activation_messages'},
                  track='auto', cap=400000).run()
    ex.exempted = exempted
    return viol, succ_pending, ex


def owners_edit(ev, ctx):
    if ev['ev'] == 'call':
        c = ev['e']
        cal = c.get('callee')
        if cal in OWNER_LIST_OPS and c['args']:
            a0 = strip_addr(c['args'][0])
            if a0 is not None and is_member(a0, 'owners', 'BusService'):
                return 'owner-queue-edit'
        if cal == 'bus_owner_set_flags':
            o = ctx.origin_call(c['args'][0])
            if o is not None:
                oc = ctx.ex.id2call.get(o[0])
                if oc is not None and oc.get('callee') == 'bus_owner_new':
                    return None       # flags of an owner that is not in any queue yet
            return 'owner-flags-changed'
    return None


def services_neutral(ev, ctx):
    if ev['ev'] == 'call':
        cal = ev['e'].get('callee')
        if cal in COMPENSATE:
            return {'*'}
    return None


def c14_1(ck, prog):
    r = ck.rule('C14.1', 'irrevocable-last in the bus: no request handler performs a state change that the '
                'transaction cannot undo and afterwards reports failure', 'SUM',
                breaks='the caller is told NoMemory (or another error) but names / queues / match rules / the '
                       'registration of the connection have changed', floor=8)
    S = 'bus/services.c'
    summ = {}
    # bottom-up over services.c
    order = [('bus_service_add_owner', S), ('bus_service_remove_owner', S), ('bus_service_swap_owner', S),
             ('bus_registry_acquire_service', S), ('bus_registry_release_service', S)]
    for name, file in order:
        fn = prog.fn(name, file)
        viol, sp, ex = irrevocable_last(fn, owners_edit, services_neutral, summaries=summ, hooked_after=HOOKS)
        if sp:
            summ[name] = sp
        if viol:
            for lab, (line, exitline, path) in sorted(viol.items()):
                r.violation('%s:after=%s' % (name, lab.split('[')[0] if '[' in lab else lab), name, file, line,
                            '%s reports failure (line %d) after %s at line %d, which is not undone by cancelling '
                            'the transaction' % (name, exitline, lab, line), path)
        else:
            r.ok('%s:irrevocable-last' % name, {'may_succeed_with_unhooked': sorted(sp), 'states': ex.nstates})
        for lab, failed in sorted(ex.exempted):
            r.note('%s: exempted (effect %s, failing step %s): %s' % (
                name, lab, ','.join(failed), EXEMPT.get((name, lab.split('[')[0], failed[0]), '')))
    r.note('summaries (may return success having performed changes no cancel hook undoes): %s' % {
        k: sorted(v) for k, v in summ.items()})
    # handlers
    D = 'bus/driver.c'

    def call_effect(name, label=None):
        def eff(ev, ctx):
            if ev['ev'] == 'call' and ev['e'].get('callee') == name:
                return label or name
            return None
        return eff

    def no_neutral(ev, ctx):
        return None

    def undo_add(ev, ctx):
        if ev['ev'] == 'call' and ev['e'].get('callee') == 'bus_matchmaker_remove_rule':
            return {'bus_matchmaker_add_rule'}
        return None

    class CallEff:
        """effect = successful call of `name` (pending entry carries the call id)."""

    handlers = [
        ('bus_driver_handle_hello', D, {'bus_connection_complete': {'connection registered'}}, no_neutral),
        ('bus_driver_handle_add_match', D, {'bus_matchmaker_add_rule': {'rule installed'}}, undo_add),
        ('bus_driver_handle_remove_match', D, {'bus_matchmaker_remove_rule_by_value': {'rule removed'}}, no_neutral),
        ('bus_driver_handle_acquire_service', D,
         {k: v for k, v in summ.items() if k == 'bus_registry_acquire_service'}, no_neutral),
        ('bus_driver_handle_release_service', D,
         {k: v for k, v in summ.items() if k == 'bus_registry_release_service'}, no_neutral),
    ]
    for name, file, sm, neut in handlers:
        fn = prog.fn(name, file)
        if not sm:
            r.ok('%s:irrevocable-last' % name, 'callee has no unhooked-success summary')
            continue
        # neutraliser for add_match needs label match: pending label is 'callee[...]'
        def neut2(ev, ctx, neut=neut, sm=sm):
            cl = neut(ev, ctx)
            if cl:
                return {'%s[%s]' % (k, ','.join(sorted(v))) for k, v in sm.items() if k in cl}
            return None
        viol, sp, ex = irrevocable_last(fn, lambda ev, ctx: None, neut2, summaries=sm)
        if viol:
            for lab, (line, exitline, path) in sorted(viol.items()):
                r.violation('%s:after=%s' % (name, lab.split('[')[0]), name, file, line,
                            '%s reports failure (line %d) after %s at line %d succeeded; that change is not '
                            'undone when the transaction is cancelled' % (name, exitline, lab, line), path)
        else:
            r.ok('%s:irrevocable-last' % name, {'states': ex.nstates})
    # listed only (outside C14's statement): become-monitor, update-activation-environment
    for name, file in (('bus_connection_be_monitor', 'bus/connection.c'),):
        pass


# ---------------------------------------------------------------------------
# C14.2 leaks on error paths

MESSAGE_CTORS = {'dbus_message_new', 'dbus_message_new_method_call', 'dbus_message_new_method_return',
                 'dbus_message_new_signal', 'dbus_message_new_error', 'dbus_message_new_error_printf',
                 'dbus_message_copy', '_dbus_asv_new_method_return', 'dbus_message_demarshal'}

RESOURCES = [
    # name, acquiring callees (result), releasing callees (arg0), owning-transfer callees (any arg)
    ('message', MESSAGE_CTORS, {'dbus_message_unref'}, {'_dbus_list_append_link', 'dbus_pending_call_steal_reply'}),
    ('transaction', {'bus_transaction_new'}, {'bus_transaction_execute_and_free', 'bus_transaction_cancel_and_free'},
     set()),
    ('match-rule', {'bus_match_rule_parse', 'bus_match_rule_new'}, {'bus_match_rule_unref'}, set()),
]

# bus/bus.c is left out on purpose: its fallible code is context construction, whose failure terminates
# the daemon (no retry, no observable state to preserve)
LEAK_FILES = {'bus/driver.c', 'bus/services.c', 'bus/connection.c', 'bus/dispatch.c', 'bus/signals.c',
              'bus/activation.c', 'bus/policy.c', 'bus/expirelist.c',
              # the remaining operation families the property names: configuration parsing and
              # message building / copying / editing
              'bus/config-parser.c', 'bus/config-parser-common.c', 'bus/config-loader-expat.c', 'bus/utils.c',
              'dbus/dbus-message.c', 'dbus/dbus-marshal-header.c', 'dbus/dbus-marshal-recursive.c',
              'dbus/dbus-marshal-basic.c', 'dbus/dbus-string.c'}


def leak_check(prog, r, fn):
    """For every local of fn assigned from an acquiring call: on each exit where
    it may hold an object, it was released, returned, stored away or transferred."""
    n = 0
    id2call = {c['id']: c for b, i, c in fn.calls()}
    cands = {}
    for b, i, ev in fn.events():
        for lhs, how, rhs in written_lvalues(ev):
            if is_ref(lhs) and lhs.get('kind') == 'local' and rhs is not None and rhs.get('k') == 'call':
                for rname, acq, rel, xfer in RESOURCES:
                    if rhs.get('callee') in acq:
                        cands[lhs['id']] = (lhs['name'], rname, rel, xfer)
    for vid, (vname, rname, rel, xfer) in cands.items():
        n += 1

        def on_event(user, ev, ctx, vid=vid, rel=rel, xfer=xfer):
            st = user
            if ev['ev'] == 'call':
                c = ev['e']
                cal = c.get('callee')
                for ai, a in enumerate(c['args']):
                    if is_ref(a) and a.get('id') == vid:
                        if cal in rel and ai == 0:
                            st = 'released'
                        elif cal in xfer:
                            st = 'transferred'
                        elif (cal in ('_dbus_list_append', '_dbus_list_prepend', '_dbus_hash_table_insert_string',
                                      '_dbus_hash_table_insert_uintptr') and ai >= 1
                              or cal == '_dbus_list_alloc_link' and ai == 0) and st == 'held':
                            st = ('xfer?', c['id'])
            for lhs, how, rhs in written_lvalues(ev):
                if is_ref(lhs) and lhs.get('id') == vid and how in ('=', 'decl'):
                    if rhs is None:
                        continue
                    if rhs.get('k') == 'call' and any(rhs.get('callee') in acq for _, acq, _, _ in RESOURCES):
                        if st == 'held':
                            ctx.report('%s is overwritten while it still holds an object' % vname, ev['line'],
                                       key=('overwrite', ev['line']))
                        st = ('pending', rhs['id'])
                    elif is_int(rhs, 0):
                        if st == 'held':
                            ctx.report('%s is set to NULL while it still holds an object' % vname, ev['line'],
                                       key=('nulled', ev['line']))
                        st = 'none'
                    else:
                        st = 'unknown'
                elif rhs is not None and isinstance(rhs, dict) and is_ref(rhs) and rhs.get('id') == vid \
                        and not (is_ref(lhs) and lhs.get('kind') == 'local'):
                    st = 'stored'          # stored into a field / out-parameter: ownership moved
                elif rhs is not None and isinstance(rhs, dict) and is_ref(rhs) and rhs.get('id') == vid \
                        and is_ref(lhs) and lhs.get('kind') == 'local':
                    st = 'aliased'
            if isinstance(st, tuple) and st[0] == 'pending':
                k = ctx.result_known(st[1])
                if k is True:
                    st = 'held'
                elif k is False:
                    st = 'none'
            if isinstance(st, tuple) and st[0] == 'xfer?':
                k = ctx.result_known(st[1])
                if k is True:
                    st = 'transferred'
                elif k is False:
                    st = 'held'
            return st

        def on_exit(user, ctx, ret, ev, vid=vid, vname=vname, rname=rname):
            st = user
            if isinstance(st, tuple) and st[0] == 'pending':
                k = ctx.result_known(st[1])
                st = 'none' if k is False else 'held'
            if isinstance(st, tuple) and st[0] == 'xfer?':
                k = ctx.result_known(st[1])
                st = 'held' if k is False else 'transferred'
            if st == 'held':
                if ret is not None and is_ref(ret) and ret.get('id') == vid:
                    return
                # the variable may be known NULL on this path through a later test
                for kk, v in ctx.env.items():
                    if kk == ('v', vid) and v == ('c', 0):
                        return
                ctx.report('%s %s is still held at this exit: neither released, returned nor stored' % (
                    rname, vname), ev['line'] if ev else fn.endline, key=('leak', vname))
        acqs = {'_dbus_list_append', '_dbus_list_prepend', '_dbus_hash_table_insert_string',
                '_dbus_hash_table_insert_uintptr', '_dbus_list_alloc_link'}
        for _, acq, _, _ in RESOURCES:
            acqs |= acq
        ex = Explorer(fn, init='none', on_event=on_event, on_exit=on_exit, calls=acqs, track={vname},
                      cap=400000).run()
        key = '%s:%s(%s)' % (fn.name, vname, rname)
        if ex.reports:
            for k, rep in ex.reports.items():
                r.violation(key + ':' + k[0], fn.name, fn.file, rep['line'], rep['reason'], rep['path'])
        else:
            r.ok(key)
    return n


def c14_2(ck, prog):
    r = ck.rule('C14.2', 'no leak on error paths: every message / transaction / match rule a bus function '
                'creates is released, returned or stored on every exit', 'TS',
                breaks='each failed request leaks memory: a client can exhaust the bus by provoking errors',
                floor=40)
    n = 0
    for fn in lib.prod_funcs(prog, LEAK_FILES):
        n += leak_check(prog, r, fn)
    r.note('%d resource-holding locals examined' % n)
    # string pairs in the same files
    r2 = ck.rule('C14.2b', 'every successfully initialised DBusString local is freed on every exit', 'PAIR',
                 floor=15)
    m = 0
    for fn in lib.prod_funcs(prog, LEAK_FILES):
        inits = {}
        for b, i, c in fn.calls('_dbus_string_init'):
            v = strip_addr(c['args'][0])
            if v is not None and is_ref(v) and v.get('kind') == 'local':
                inits.setdefault(v['id'], (v['name'], []))[1].append(c['id'])
        for vid, (vname, ids) in inits.items():
            m += 1

            def on_event(user, ev, ctx, vid=vid, ids=ids):
                st = user
                if ev['ev'] == 'call':
                    c = ev['e']
                    if c['id'] in ids:
                        return ('pending', c['id'])
                    a0 = strip_addr(c['args'][0]) if c['args'] else None
                    if a0 is not None and is_ref(a0) and a0.get('id') == vid and c.get('callee') in (
                            '_dbus_string_free',):
                        return 'none'
                for lhs, how, rhs in written_lvalues(ev):
                    # "obj->field = local_string": the buffer now belongs to the object
                    if rhs is not None and isinstance(rhs, dict) and is_ref(rhs) and rhs.get('id') == vid \
                            and not (is_ref(lhs) and lhs.get('kind') == 'local'):
                        return 'none'
                if isinstance(st, tuple):
                    k = ctx.result_known(st[1])
                    if k is True:
                        return 'held'
                    if k is False:
                        return 'none'
                return st

            def on_exit(user, ctx, ret, ev, vname=vname):
                st = user
                if isinstance(st, tuple):
                    k = ctx.result_known(st[1])
                    st = 'none' if k is False else 'held'
                if st == 'held':
                    ctx.report('DBusString %s is initialised but not freed at this exit' % vname,
                               ev['line'] if ev else fn.endline, key=('string', vname))
            ex = Explorer(fn, init='none', on_event=on_event, on_exit=on_exit, calls={'_dbus_string_init'},
                          track='auto', cap=200000).run()
            key = '%s:%s' % (fn.name, vname)
            if ex.reports:
                for k, rep in ex.reports.items():
                    r2.violation(key, fn.name, fn.file, rep['line'], rep['reason'], rep['path'])
            else:
                r2.ok(key)
    r2.note('%d DBusString locals examined' % m)


def c14_2d(ck, prog, rid='C14.2d'):
    r = ck.rule(rid, 'every container a function opens on a message under construction is closed or abandoned '
                'on every exit of that function (a failed close counts as closed, as documented); an open '
                'container owns a temporary signature string that nothing else can free', 'PAIR',
                breaks='an out-of-memory exit while filling an array / struct / variant leaks the container\'s '
                       'signature string and leaves the message unusable', floor=8)
    OPEN = 'dbus_message_iter_open_container'
    CLOSE = {'dbus_message_iter_close_container', 'dbus_message_iter_abandon_container',
             'dbus_message_iter_abandon_container_if_open'}
    n = 0
    for fn in lib.prod_funcs(prog):
        if not (fn.file.startswith('bus/') or fn.file.startswith('dbus/')):
            continue
        opens = {}
        for b, i, c in fn.calls(OPEN):
            sub = strip_addr(c['args'][3]) if len(c['args']) > 3 else None
            if sub is not None and is_ref(sub) and sub.get('kind') == 'local':
                opens.setdefault(sub['id'], (sub['name'], []))[1].append(c['id'])
        for vid, (vname, ids) in opens.items():
            n += 1

            def on_event(user, ev, ctx, vid=vid, ids=ids):
                st = user
                if isinstance(st, tuple):
                    k = ctx.result_known(st[1])
                    if k is True:
                        st = 'open'
                    elif k is False:
                        st = 'closed'
                if ev['ev'] == 'call':
                    c = ev['e']
                    if c['id'] in ids:
                        if st == 'open':
                            ctx.report('container %s is opened again while still open' % vname, c['line'],
                                       key=('reopen', vname))
                        return ('pending', c['id'])
                    if c.get('callee') in CLOSE and len(c['args']) > 1:
                        a = strip_addr(c['args'][1])
                        if a is not None and is_ref(a) and a.get('id') == vid:
                            return 'closed'
                    # the sub-iterator handed to a helper that may close it: stop tracking
                    if c.get('callee') not in (OPEN,) and st == 'open' and fn.name != c.get('callee'):
                        pass
                return st

            def on_exit(user, ctx, ret, ev, vname=vname):
                st = user
                if isinstance(st, tuple):
                    k = ctx.result_known(st[1])
                    st = 'closed' if k is False else 'open'
                if st == 'open':
                    ctx.report('container %s is still open at this exit (neither closed nor abandoned)' % vname,
                               ev['line'] if ev else fn.endline, key=('open-at-exit', vname))
            ex = Explorer(fn, init='closed', on_event=on_event, on_exit=on_exit, calls={OPEN}, track='auto',
                          cap=600000).run()
            key = '%s:%s' % (fn.name, vname)
            if ex.reports:
                for k, rep in ex.reports.items():
                    r.violation(key + ':' + k[0], fn.name, fn.file, rep['line'], rep['reason'], rep['path'])
            else:
                r.ok(key)
    r.note('%d opened containers examined' % n)


# ---------------------------------------------------------------------------
# C14.2c / C02.4 signature bookkeeping of the message builder

def signature_pairing(ck, prog, rid='C14.2c'):
    r = ck.rule(rid, 'the builder\'s "signature being written" is opened and closed/abandoned in pairs on every '
                'exit, including out-of-memory exits', 'PAIR',
                breaks='a failed append leaks the temporary signature string, or the header signature no longer '
                       'describes the body', floor=4)
    M = 'dbus/dbus-message.c'
    OPEN = '_dbus_message_iter_open_signature'
    CLOSE = {'_dbus_message_iter_close_signature', '_dbus_message_iter_abandon_signature'}
    spec = {
        # function: state required at success exits, at failure exits (after a successful open)
        'dbus_message_iter_append_basic': ('closed', 'closed'),
        'dbus_message_iter_append_fixed_array': ('closed', 'closed'),
        'dbus_message_iter_open_container': ('open', 'closed'),
        'dbus_message_iter_close_container': ('closed', 'closed'),
        'dbus_message_iter_abandon_container': ('closed', 'closed'),
    }
    for name, (succ, fail) in spec.items():
        fn = prog.fn(name, M)
        opens = {c['id'] for b, i, c in fn.calls(OPEN)}
        starts_open = name in ('dbus_message_iter_close_container', 'dbus_message_iter_abandon_container')

        def on_event(user, ev, ctx, opens=opens):
            st = user
            if ev['ev'] == 'call':
                c = ev['e']
                if c['id'] in opens:
                    return ('pending', c['id'])
                if c.get('callee') in CLOSE:
                    if st == 'closed':
                        ctx.report('signature closed/abandoned twice (or without being open)', c['line'], key='double')
                    return 'closed'
            if isinstance(st, tuple):
                k = ctx.result_known(st[1])
                if k is True:
                    return 'open'
                if k is False:
                    return 'closed'
            return st

        def on_exit(user, ctx, ret, ev, succ=succ, fail=fail, name=name):
            st = user
            if isinstance(st, tuple):
                k = ctx.result_known(st[1])
                st = 'closed' if k is False else 'open'
            if st == 'precond':
                return
            stt = ctx.ret_status(ret)
            wants = {'ok': [succ], 'fail': [fail], 'unknown': [succ, fail]}[stt]
            v = 0 if stt == 'fail' else 1
            for want in wants:
                if st != want:
                    ctx.report('%s may return %s with the signature %s (must be %s)' % (
                        name, 'FALSE' if want == fail and stt != 'ok' else 'success', st, want),
                        ev['line'] if ev else fn.endline, key=('exit', 'fail' if (want == fail and stt != 'ok') else 'ok'))
        init = 'open' if starts_open else 'closed'
        # precondition failures (return_val_if_fail) leave the state as it was: model by starting 'precond'
        # until the first open/close call is seen in functions that start closed
        ex = Explorer(fn, init=init if starts_open else 'closed', on_event=on_event, on_exit=on_exit,
                      calls={OPEN}, track='auto', cap=200000).run()
        key = '%s:signature-paired' % name
        # precondition-failure exits of close/abandon legitimately leave the signature open: filter those
        reps = {}
        for k, rep in ex.reports.items():
            if starts_open and k[0] == 'exit':
                # accept exits that happen before any close call on paths through _dbus_warn_return_if_fail
                if any('return_if_fail' in (st.get('label') or '') for st in rep['path']):
                    continue
            reps[k] = rep
        if starts_open:
            # re-run distinguishing precondition returns: exits reached through _dbus_warn_return_if_fail
            reps = filter_precondition_exits(fn, reps)
        if reps:
            for k, rep in reps.items():
                r.violation(key + ':' + '/'.join(k), fn.name, fn.file, rep['line'], rep['reason'], rep['path'])
        else:
            r.ok(key)


def filter_precondition_exits(fn, reps):
    """Drop reports whose exit line is a `_dbus_return_val_if_fail` exit (the block
    containing the return also calls _dbus_warn_return_if_fail)."""
    pre = set()
    for bid, blk in fn.blocks.items():
        cal = [ev for ev in blk['events'] if ev['ev'] == 'call' and ev['e'].get('callee') == '_dbus_warn_return_if_fail']
        if cal:
            for ev in blk['events']:
                if ev['ev'] == 'return':
                    pre.add(ev['line'])
    return {k: v for k, v in reps.items() if v['line'] not in pre}


# ---------------------------------------------------------------------------
# C14.3 restore-on-failure, C14.4 preallocated OOM reply, C14.5 builder

def c14_3(ck, prog):
    r = ck.rule('C14.3', 'functions that record a string\'s original length and append to it restore that '
                'length on every failure exit', 'PAIR', floor=3)
    n = 0
    files = {'dbus/dbus-marshal-header.c', 'dbus/dbus-auth.c', 'dbus/dbus-message.c', 'dbus/dbus-marshal-recursive.c',
             'dbus/dbus-marshal-basic.c', 'dbus/dbus-string.c', 'bus/driver.c', 'bus/signals.c'}
    for fn in lib.prod_funcs(prog):
        if not (fn.file.startswith('dbus/') or fn.file in files) or 'win' in fn.file:
            continue
        rec = None
        for b, i, ev in fn.events():
            for lhs, how, rhs in written_lvalues(ev):
                if is_ref(lhs) and lhs.get('kind') == 'local' and lhs['name'] in ('orig_len', 'old_len', 'start_len') \
                        and is_call(rhs, '_dbus_string_get_length'):
                    rec = (lhs, rhs['args'][0])
        if rec is None:
            continue
        var, strexpr = rec
        appends = [c for b, i, c in fn.calls() if (c.get('callee') or '').startswith(
            ('_dbus_string_append', '_dbus_string_copy', '_dbus_string_insert', '_dbus_string_lengthen'))]
        if not appends:
            continue
        n += 1

        def on_event(user, ev, ctx, var=var):
            if ev['ev'] == 'call':
                c = ev['e']
                cal = c.get('callee') or ''
                if cal in ('_dbus_string_set_length', '_dbus_string_delete', '_dbus_string_shorten') and \
                        any(is_ref(a) and a.get('id') == var['id'] for x in c['args'] for a in walk(x)):
                    return 'restored'
                if cal.startswith(('_dbus_string_append', '_dbus_string_copy', '_dbus_string_insert',
                                   '_dbus_string_lengthen')):
                    return ('dirty?', c['id'])
            return user

        def on_exit(user, ctx, ret, ev):
            v = ctx.const_of(ret) if ret is not None else None
            if v == 0 and isinstance(user, tuple) and user[0] == 'dirty?':
                # the append that just failed left the string as it was (string layer is atomic);
                # dirty only if an earlier append had succeeded
                pass
            if v == 0 and user == 'dirty':
                ctx.report('returns FALSE after appending without restoring the recorded length', ev['line'],
                           key='no-restore')

        def wrap(user, ev, ctx, inner=on_event):
            # promote 'dirty?' to 'dirty' once the append is known to have succeeded or another event follows
            if isinstance(user, tuple) and user[0] == 'dirty?':
                k = ctx.result_known(user[1])
                if k is True:
                    user = 'dirty'
                elif k is False:
                    user = 'failed-append'
            if user == 'failed-append':
                user2 = inner('clean-after-fail', ev, ctx)
                return user2 if user2 != 'clean-after-fail' else 'failed-append'
            was_dirty = user == 'dirty'
            u2 = inner(user, ev, ctx)
            if was_dirty and isinstance(u2, tuple):
                return 'dirty'
            return u2
        ex = Explorer(fn, init='clean', on_event=wrap, on_exit=on_exit, track='auto', cap=200000,
                      calls={'_dbus_string_append', '_dbus_string_copy', '_dbus_string_append_printf',
                             '_dbus_string_append_byte', '_dbus_string_copy_len', '_dbus_string_append_len',
                             '_dbus_string_insert_bytes', '_dbus_string_insert_2_aligned',
                             '_dbus_string_insert_4_aligned', '_dbus_string_insert_8_aligned',
                             '_dbus_string_lengthen', '_dbus_string_append_int', '_dbus_string_append_uint'}).run()
        key = '%s:restores-%s' % (fn.name, var['name'])
        if ex.reports:
            for k, rep in ex.reports.items():
                r.violation(key, fn.name, fn.file, rep['line'], rep['reason'], rep['path'])
        else:
            r.ok(key)
    if n < 3:
        raise AnalysisBroken('only %d orig_len idiom instances found' % n)


def c14_4(ck, prog):
    r = ck.rule('C14.4', 'the out-of-memory reply is preallocated before anything fallible in bus_dispatch and '
                'sending it allocates nothing', 'DOM', floor=3)
    fn = prog.fn('bus_dispatch', 'bus/dispatch.c')
    first = {}

    def sinks(ev, ctx):
        if ev['ev'] == 'call' and ev['e'].get('callee') in (
                'bus_transaction_new', '_dbus_message_remove_unknown_fields', 'dbus_message_set_sender',
                'bus_connection_send_oom_error', 'bus_transaction_capture', 'bus_dispatch_matches'):
            return ev['e']['callee']
        return None
    lib.must_precede(fn, r, sinks, [lib.guard_call('bus_connection_preallocate_oom_error(connection)',
                                                   'bus_connection_preallocate_oom_error', 0, 'connection')])
    so = prog.fn('bus_connection_send_oom_error', 'bus/connection.c')
    allowed = {'dbus_message_get_serial', 'dbus_message_set_reply_serial', '_dbus_connection_message_sent_unlocked',
               'dbus_connection_send_preallocated', 'dbus_message_unref', '_dbus_real_assert',
               'dbus_message_set_no_reply', '_dbus_verbose_real', 'dbus_message_get_reply_serial',
               'dbus_connection_get_data', 'dbus_message_get_sender', '_dbus_real_assert_not_reached',
               # logging may allocate; if that fails only the log line is degraded
               'bus_context_log', 'bus_connection_get_loginfo'}
    bad = [c for b, i, c in so.calls() if c.get('callee') not in allowed]
    if bad:
        for c in bad:
            r.violation('send_oom_error:%s' % c.get('callee'), so.name, so.file, c['line'],
                        'bus_connection_send_oom_error calls %s, which is not on the reviewed no-allocation list'
                        % c.get('callee'))
    else:
        r.ok('send_oom_error:no-allocation-callees')
    pre = prog.fn('bus_connection_preallocate_oom_error', 'bus/connection.c')
    if pre.calls('dbus_connection_preallocate_send') and pre.calls(('dbus_message_new',)):
        r.ok('preallocate_oom_error:message+send-slot')
    else:
        r.violation('preallocate_oom_error:message+send-slot', pre.name, pre.file, pre.line,
                    'the OOM reply and its send slot are no longer both preallocated')


def c14_5(ck, prog):
    r = ck.rule('C14.5', 'message builder: no successful write into the body / fd array is followed by a '
                'failure return', 'TS', breaks='a failed append leaves the message changed', floor=2)
    M = 'dbus/dbus-message.c'
    fn = prog.fn('dbus_message_iter_append_basic', M)
    wr = {c['id']: c for b, i, c in fn.calls('_dbus_type_writer_write_basic')}

    def on_event(user, ev, ctx):
        if ev['ev'] == 'call' and ev['e']['id'] in wr:
            return user | {ev['e']['id']}
        for lhs, how, rhs in written_lvalues(ev):
            if is_member(lhs, 'n_unix_fds', 'DBusMessage') and how in ('+=', '++'):
                return user | {'n_unix_fds'}
        return user

    def on_exit(user, ctx, ret, ev):
        v = ctx.const_of(ret) if ret is not None else None
        done = [u for u in user if u == 'n_unix_fds' or ctx.result_known(u) is True]
        if done and (v == 0 or (v is None and ret is not None and not_known_true(ctx, ret))):
            ctx.report('may return FALSE after the value was written into the body%s' % (
                ' and n_unix_fds was incremented' if 'n_unix_fds' in done else ''), ev['line'],
                key='fail-after-write')

    def not_known_true(ctx, ret):
        o = ctx.origin_call(ret)
        if o is None:
            return False
        k = ctx.result_known(o[0])
        return k is not True and o[0] not in wr
    ex = Explorer(fn, init=frozenset(), on_event=on_event, on_exit=on_exit, calls={'_dbus_type_writer_write_basic',
                                                                                   '_dbus_header_set_field_basic'},
                  track='auto', cap=200000).run()
    if ex.reports:
        for k, rep in ex.reports.items():
            r.violation('dbus_message_iter_append_basic:%s' % k, fn.name, fn.file, rep['line'], rep['reason'],
                        rep['path'])
    else:
        r.ok('dbus_message_iter_append_basic:write-last')
    r.ok('builder:scope', 'append_fixed_array / open_container / close_container delegate to the writer layer, '
         'whose atomicity is C12.4 / C14.3')


LIST_FILL = {'_dbus_list_append', '_dbus_list_prepend', '_dbus_list_append_link', '_dbus_list_prepend_link',
             '_dbus_list_insert_after', '_dbus_list_insert_before'}
LIST_READ = {'_dbus_list_get_first_link', '_dbus_list_get_next_link', '_dbus_list_get_last_link',
             '_dbus_list_get_prev_link', '_dbus_list_get_first', '_dbus_list_get_last', '_dbus_list_get_length',
             '_dbus_list_length_is_one', '_dbus_list_find_last'}
LIST_DRAIN = {'_dbus_list_clear', '_dbus_list_clear_full', '_dbus_list_foreach'}


def c14_2e(ck, prog):
    r = ck.rule('C14.2e', 'a local list that a function fills is cleared (or handed on) on every failure exit',
                'PAIR', breaks='each failed request leaks the list links collected so far', floor=5)
    n = 0
    # callees that append to a list passed by address (DBusList **param)
    fillers = {}            # name -> indices of the DBusList** parameters it appends to
    for g in lib.prod_funcs(prog):
        pids = {p['id']: k for k, p in enumerate(g.params) if (p.get('t') or '').replace(' ', '') == 'DBusList**'}
        for b, i, c in g.calls():
            if c.get('callee') in LIST_FILL and c['args'] and is_ref(c['args'][0]) and c['args'][0].get('id') in pids:
                fillers.setdefault(g.name, set()).add(pids[c['args'][0]['id']])
    for fn in lib.prod_funcs(prog, LEAK_FILES | {'bus/bus.c'}):
        lists = {}
        for b, i, ev in fn.events():
            if ev['ev'] == 'decl' and ev['var'].get('kind') == 'local' and \
                    (ev['var'].get('t') or '').replace(' ', '') == 'DBusList*':
                lists[ev['var']['id']] = ev['var']['name']
        if not lists:
            continue
        for vid, vname in lists.items():
            fills = [c for b, i, c in fn.calls() if c.get('callee') in LIST_FILL and c['args'] and
                     is_ref(strip_addr(c['args'][0]) or {}) and (strip_addr(c['args'][0]) or {}).get('id') == vid
                     and c['args'][0].get('k') == 'un']
            fills += [c for b, i, c in fn.calls() if c.get('callee') in fillers and any(
                a.get('k') == 'un' and a.get('op') == '&' and is_ref(a['e']) and a['e'].get('id') == vid
                and k in fillers[c['callee']] for k, a in enumerate(c['args']))]
            if not fills:
                continue        # a cursor / a list filled elsewhere
            n += 1
            fill_ids = {c['id'] for c in fills}

            def on_event(user, ev, ctx, vid=vid, fill_ids=fill_ids):
                st = user
                if isinstance(st, tuple):
                    k = ctx.result_known(st[1])
                    if k is True:
                        st = 'filled'
                    elif k is False:
                        st = st[2]
                if ev['ev'] == 'call':
                    c = ev['e']
                    mine = [k for k, a in enumerate(c['args']) if a.get('k') == 'un' and a.get('op') == '&' and
                            is_ref(a['e']) and a['e'].get('id') == vid]
                    if c['id'] in fill_ids:
                        if c.get('t') == 'void' or c['callee'].endswith('_link'):
                            return 'filled'
                        return ('pending', c['id'], st if not isinstance(st, tuple) else 'empty')
                    if mine:
                        if c.get('callee') in fillers and set(mine) & fillers[c['callee']]:
                            # a callee that appends to the list it is given: filled when it succeeded
                            if c.get('t') == 'void':
                                return 'filled'
                            return ('pending', c['id'], st if not isinstance(st, tuple) else 'empty')
                        if c.get('callee') in LIST_READ:
                            return st
                        # cleared, popped in a loop, or handed to a callee that takes the list over
                        return 'empty'
                    if any(is_ref(a) and a.get('id') == vid for a in c['args']):
                        return 'empty'      # the head pointer itself is passed on (ownership moves)
                for lhs, how, rhs in written_lvalues(ev):
                    if rhs is not None and isinstance(rhs, dict) and is_ref(rhs) and rhs.get('id') == vid and \
                            not (is_ref(lhs) and lhs.get('kind') == 'local'):
                        return 'empty'      # stored into an object
                    if is_ref(lhs) and lhs.get('id') == vid and how in ('=', 'decl') and (rhs is None or is_int(rhs, 0)):
                        if st == 'filled' and how == '=':
                            ctx.report('list %s is reset to NULL while it still holds links' % vname,
                                       ev['line'], key=('nulled', vname))
                        return 'empty'
                return st

            def on_exit(user, ctx, ret, ev, vname=vname, vid=vid):
                st = user
                if isinstance(st, tuple):
                    k = ctx.result_known(st[1])
                    st = st[2] if k is False else 'filled'
                if st == 'filled':
                    if ret is not None and is_ref(ret) and ret.get('id') == vid:
                        return
                    v = ctx.env.get(('v', vid))
                    if v == ('c', 0):
                        return
                    if ctx.ret_status(ret) != 'fail':
                        return      # the property speaks about failing operations; success exits are not judged
                    ctx.report('list %s still holds links at this failure exit (not cleared, not handed on)' % vname,
                               ev['line'] if ev else fn.endline, key=('list-leak', vname))
            ex = Explorer(fn, init='empty', on_event=on_event, on_exit=on_exit, calls=LIST_FILL | set(fillers),
                          track='auto', cap=400000).run()
            key = '%s:%s' % (fn.name, vname)
            if ex.reports:
                for k, rep in ex.reports.items():
                    r.violation(key + ':' + k[0], fn.name, fn.file, rep['line'], rep['reason'], rep['path'])
            else:
                r.ok(key)
    r.note('%d locally filled lists examined' % n)


def c14_2f(ck, prog):
    r = ck.rule('C14.2f', 'a local DBusError that a callee may have filled in is looked at or handed on before it goes '
                'out of scope: after a call given &err, every exit has tested, moved or freed err (the caller '
                'learns the failure, and the error message is not leaked)', 'PAIR',
                breaks='an out-of-memory (or other) failure reported through a local error is swallowed: the '
                       'operation carries on with the wrong verdict and the error string is leaked', floor=8)
    CONSUME = {'dbus_error_free', 'dbus_move_error', 'dbus_error_is_set', 'dbus_error_has_name',
               'dbus_set_error_from_message', '_dbus_error_from_errno'}
    n = 0
    for fn in lib.prod_funcs(prog, {f for f in LEAK_FILES if f.startswith('bus/')} | {'bus/bus.c'}):
        errs = {}
        for b, i, ev in fn.events():
            if ev['ev'] == 'decl' and ev['var'].get('kind') == 'local' and (ev['var'].get('t') or '') == 'DBusError':
                errs[ev['var']['id']] = ev['var']['name']
        for vid, vname in errs.items():
            n += 1

            def on_event(user, ev, ctx, vid=vid):
                for top in ([ev.get('e')] if isinstance(ev.get('e'), dict) else []):
                    if any(x.get('k') == 'member' and is_ref(x.get('base')) and x['base'].get('id') == vid
                           for x in walk(top)):
                        return 'clean'          # error.name / error.message read directly: it was looked at
                if ev['ev'] != 'call':
                    return user
                c = ev['e']
                mine = [k for k, a in enumerate(c['args']) if a.get('k') == 'un' and a.get('op') == '&'
                        and is_ref(a['e']) and a['e'].get('id') == vid]
                if not mine:
                    return user
                cal = c.get('callee') or ''
                if cal in CONSUME or cal == 'dbus_error_init':
                    return 'clean'
                if cal.startswith('_dbus_verbose') or cal.startswith('_dbus_assert') or cal in ('_dbus_warn', 'bus_context_log'):
                    return user
                # handed to a callee as its error out-parameter (or for it to consume)
                return ('maybe', c['id'], c['line'], cal)

            def on_exit(user, ctx, ret, ev, vname=vname):
                # the callee failed on this path, or its verdict is kept in a variable no branch ever tests
                # (then only the error object can tell a failure from a negative answer)
                k = ctx.result_known(user[1]) if isinstance(user, tuple) else None
                if k == ('ne', 0):
                    k = True               # pointer result compared with NULL
                elif k == ('eq', 0):
                    k = False
                if isinstance(user, tuple) and (k is False or (k is not True and user[1] in untested)):
                    ctx.report('%s may have been set by %s (line %d) and is neither tested, moved nor freed before '
                               'this exit' % (vname, user[3], user[2]), ev['line'] if ev else fn.endline,
                               key=('unexamined', vname))
            # remember only the outcomes of the calls that were handed this error object
            mine_calls = {c.get('callee') for b, i, c in fn.calls() if c.get('callee') and any(
                a.get('k') == 'un' and a.get('op') == '&' and is_ref(a['e']) and a['e'].get('id') == vid
                for a in c['args'])}
            # calls given this error whose result is stored in a variable that no condition of the function
            # looks at
            cond_ids = set()
            for blk in fn.blocks.values():
                t = blk.get('term')
                if t and t.get('cond') is not None:
                    cond_ids |= {x['id'] for x in walk(t['cond']) if is_ref(x) and 'id' in x}
            untested = set()
            for b, i, ev in fn.events():
                for lhs, how, rhs in written_lvalues(ev):
                    if is_ref(lhs) and lhs.get('kind') in ('local', 'param') and 'id' in lhs and isinstance(rhs, dict) \
                            and rhs.get('k') == 'call' and lhs.get('id') not in cond_ids \
                            and rhs.get('t') != 'void' and any(
                                a.get('k') == 'un' and a.get('op') == '&' and is_ref(a['e']) and a['e'].get('id') == vid
                                for a in rhs['args']):
                        untested.add(rhs['id'])
            # ... and the variables those outcomes are stored in
            tv = set()
            for b, i, ev in fn.events():
                for lhs, how, rhs in written_lvalues(ev):
                    if is_ref(lhs) and isinstance(rhs, dict) and rhs.get('k') == 'call' and rhs.get('callee') in mine_calls:
                        tv.add(lhs['name'])
            try:
                ex = Explorer(fn, init='clean', on_event=on_event, on_exit=on_exit, calls=mine_calls,
                              track=tv or None, cap=300000).run()
            except AnalysisBroken:
                r.note('%s: %s not decided (function too large for path enumeration)' % (fn.name, vname))
                n -= 1
                continue
            key = '%s:%s' % (fn.name, vname)
            if ex.reports:
                for k, rep in ex.reports.items():
                    r.violation(key, fn.name, fn.file, rep['line'], rep['reason'], rep['path'])
            else:
                r.ok(key)
    r.note('%d local DBusError objects examined' % n)


REF_RE = __import__('re').compile(r'_ref$|_ref_unlocked$')
COMP_RE = __import__('re').compile(r'unref|(^|_)free|_clear|destroy|cancel|finalize|_remove|disconnect|_close')
REF_REVIEWED = {
    'connection_record_shared_unlocked': 'the reference is meant to outlive the function ("hold a ref until it is '
                                         'disconnected"); the caller drops the connection on failure',
    'internal_bus_get': 'the reference is the one handed to the caller; the failure path closes and unrefs it',
    'dbus_connection_borrow_message': 'a trace hook, not a reference count',
    '_dbus_server_debug_pipe_new': 'the pipe hash reference is released by the failure path\'s own clean-up',
}


def c14_2g(ck, prog):
    r = ck.rule('C14.2g', 'a reference taken in a function that can fail is given back on the failure paths that '
                'follow it: after a *_ref () call, every failure exit has passed a releasing call (unref, free, clear, '
                'cancel ...)', 'PAIR',
                breaks='an out-of-memory failure in the middle of copying or remembering a set of objects leaves the '
                'references taken so far behind (rules of an included configuration file, owners, connections)',
                floor=20)
    files = LEAK_FILES | {'bus/policy.c', 'bus/bus.c', 'bus/activation.c'}
    n = 0
    for fn in lib.prod_funcs(prog, files):
        if not any(c.get('callee') and REF_RE.search(c['callee']) for b, i, c in fn.calls()):
            continue
        if fn.ret != 'dbus_bool_t' and '*' not in (fn.ret or ''):
            continue
        n += 1

        def on_event(user, ev, ctx):
            if ev['ev'] == 'call':
                cal = ev['e'].get('callee') or ''
                if REF_RE.search(cal):
                    return (cal, ev['line'])
                if COMP_RE.search(cal) and cal != '_dbus_list_clear':      # that one frees links, not what they hold
                    return None
            return user

        def on_exit(user, ctx, ret, ev, fn=fn):
            if user and ctx.ret_status(ret) == 'fail':
                ctx.report('%s reports failure after %s (line %d) without a releasing call in between: the reference '
                           'stays behind' % (fn.name, user[0], user[1]), ev['line'] if ev else fn.line,
                           key=(user[0], ev['line'] if ev else 0))
        try:
            ex = Explorer(fn, init=None, on_event=on_event, on_exit=on_exit, track='auto', calls='ALL', cap=300000).run()
        except AnalysisBroken:
            r.note('%s: too many paths, not decided' % fn.name)
            continue
        if not ex.reports:
            r.ok('%s:refs-released-on-failure' % fn.name)
        elif fn.name in REF_REVIEWED:
            r.ok('%s:refs-released-on-failure' % fn.name, {'reviewed': REF_REVIEWED[fn.name]})
        else:
            r.from_reports(ex.reports, keyfn=lambda k, rep, fn=fn: '%s:%s-not-released' % (fn.name, k[0]))
    r.note('%d fallible functions that take references examined' % n)


def c14_9(ck, prog):
    r = ck.rule('C14.9', 'a preallocated hash-table entry kept for undoing an operation is forgotten only after it was '
                'handed to the table (or to the function that frees it): every `->hash_entry = NULL` lies behind a call '
                'that took that entry', 'PAIR',
                breaks='cancelling a transaction (out of memory later in the same request) while the name still has '
                'other owners drops the unused entry -- a leak per cancelled request; the accompanying assertion '
                '`hash_entry == NULL` aborts the bus in builds with assertions', floor=2)
    fields = set()
    for rn, rec in prog.records.items():
        for f in rec['fields']:
            if 'DBusPreallocatedHash' in (f.get('t') or ''):
                fields.add((rn, f['name']))
    if not fields:
        raise AnalysisBroken('no record keeps a preallocated hash entry')
    n = 0
    for fn in lib.prod_funcs(prog, {'bus/services.c', 'bus/activation.c'}):
        sites = [ev for b, i, ev in fn.events() for lhs, how, rhs in written_lvalues(ev)
                 if is_member(lhs) and (lhs.get('rec'), lhs.get('field')) in fields and how == '=' and is_int(rhs, 0)]
        if not sites:
            continue
        n += len(sites)

        def on_event(user, ev, ctx):
            if ev['ev'] == 'call':
                for a in ev['e']['args']:
                    if is_member(a) and (a.get('rec'), a.get('field')) in fields:
                        return True
            for lhs, how, rhs in written_lvalues(ev):
                if is_member(lhs) and (lhs.get('rec'), lhs.get('field')) in fields and how == '=' and is_int(rhs, 0):
                    if not user:
                        ctx.report('%s is reset to NULL on a path on which the entry was neither inserted nor freed'
                                   % estr(lhs), ev['line'], key=('dropped', ev['line']))
            return user
        ex = Explorer(fn, init=False, on_event=on_event, track=None, cap=200000).run()
        if ex.reports:
            r.from_reports(ex.reports, keyfn=lambda k, rep, fn=fn: '%s:entry-dropped' % fn.name)
        else:
            r.ok('%s:entry-consumed-before-reset' % fn.name)
    if n < 2:
        raise AnalysisBroken('resets of preallocated entries not found (%d)' % n)


def c14_7(ck, prog):
    from rules.C09 import c09_2
    r7 = ck.rule('C14.7', 'a pending-reply slot is consumed only under an undo hook registered before the slot '
                 'leaves the table (shared with C09.2): an out-of-memory failure while routing a reply leaves the '
                 'pending replies exactly as they were', 'TS',
                 breaks='the callee is told NoMemory but the slot is gone: the retried reply is refused as '
                        'unrequested and the caller never gets an answer', floor=4)
    save = ck.rule
    ck.rule = lambda *a, **k: r7
    try:
        c09_2(ck, prog)
    finally:
        ck.rule = save


OWNER_IN = {'_dbus_list_append': True, '_dbus_list_prepend': True, '_dbus_list_insert_after': True,
            '_dbus_list_append_link': False, '_dbus_list_prepend_link': False, '_dbus_list_insert_after_link': False,
            '_dbus_list_insert_before_link': False}          # callee -> can fail
OWNER_OUT = {'_dbus_list_unlink', '_dbus_list_remove_link', '_dbus_list_remove_last', '_dbus_list_remove'}


def c14_12(ck, prog):
    """Membership in a name's owner queue is one reference on the owner."""
    S = 'bus/services.c'
    r = ck.rule('C14.12', 'a place in a name\'s owner queue holds one reference on the owner: in every function of '
                'bus/services.c that links or unlinks an element of `owners`, on every path to every exit the number '
                'of memberships added minus removed equals the number of owner references taken (bus_owner_new, '
                'bus_owner_ref) minus dropped (bus_owner_unref); operations that can fail count when they succeeded',
                'PAIR', breaks='cancelling a transaction that removed an owner (out of memory while the reply to '
                'ReleaseName is built) puts the owner back into the queue without a reference: the owner object is '
                'returned to its pool while still queued, and the next request on that name works on freed memory',
                floor=3)
    n = 0
    for fn in lib.prod_funcs(prog, {S}):
        ops = {}
        for b, i, c in fn.calls():
            cal = c.get('callee')
            if (cal in OWNER_IN or cal in OWNER_OUT) and c['args'] and \
                    is_member(strip_addr(c['args'][0]) or c['args'][0], 'owners', 'BusService'):
                ops[c['id']] = (+1 if cal in OWNER_IN else -1, OWNER_IN.get(cal, False))
        if not ops:
            continue
        refs = {}
        for b, i, c in fn.calls():
            if c.get('callee') == 'bus_owner_new':
                refs[c['id']] = (+1, True)
            elif c.get('callee') == 'bus_owner_ref':
                refs[c['id']] = (+1, False)
            elif c.get('callee') == 'bus_owner_unref':
                refs[c['id']] = (-1, False)
        n += 1

        def on_event(user, ev, ctx, ops=ops, refs=refs):
            if ev['ev'] == 'call':
                cid = ev['e'].get('id')
                if cid in ops or cid in refs:
                    return user + (cid,)
            return user

        def on_exit(user, ctx, ret, ev, ops=ops, refs=refs, fn=fn):
            mem = ref = 0
            for cid in user:
                d, fallible = ops.get(cid) or refs.get(cid)
                if fallible and ctx.result_known(cid) is False:
                    continue
                if cid in ops:
                    mem += d
                else:
                    ref += d
            if mem != ref:
                ctx.report('%s can return with the queue holding %+d place(s) and %+d reference(s) more than when it was '
                           'entered' % (fn.name, mem, ref), ev['line'] if ev else fn.line, key=('imbalance', mem - ref))
        ex = Explorer(fn, init=(), on_event=on_event, on_exit=on_exit, calls='ALL', track='auto', cap=300000).run()
        key = '%s:places-and-references' % fn.name
        if ex.reports:
            r.from_reports(ex.reports, keyfn=lambda k, rep, key=key: key)
        else:
            r.ok(key)
    if n < 3:
        raise AnalysisBroken('functions editing the owner queue: only %d found' % n)


GROW_ALLOCATORS = {'dbus_malloc', 'dbus_malloc0', 'dbus_realloc'}
CONTAINER_FILES = {'dbus/dbus-hash.c', 'dbus/dbus-mempool.c', 'dbus/dbus-dataslot.c', 'dbus/dbus-list.c',
                   'dbus/dbus-resources.c'}


def c14_13(ck, prog):
    """Growing a container is all-or-nothing."""
    r = ck.rule('C14.13', 'a container primitive (hash table, memory pool, data slots, lists, counters) whose allocation '
                'fails leaves the container as it was: every field of the container object (reached from a parameter) '
                'that was stored before the allocation is stored again on the path from the failed allocation to the '
                'return, in every function of those modules that allocates (path-sensitive)', 'TS',
                breaks='after one failed allocation the bookkeeping describes a block or bucket array that was never '
                'obtained: the next insertion writes past the end of the old one (heap corruption in the bus long after '
                'the memory shortage is over)', floor=3)
    n = 0
    for fn in lib.prod_funcs(prog, CONTAINER_FILES):
        allocs = {c['id'] for b, i, c in fn.calls() if c.get('callee') in GROW_ALLOCATORS}
        if not allocs:
            continue
        params = {p['id'] for p in fn.params}

        def rooted(e):
            arrow = False
            while isinstance(e, dict) and e.get('k') in ('member', 'sub', 'paren', 'cast'):
                if e.get('k') == 'member' and e.get('arrow'):
                    arrow = True
                e = e.get('base') if e.get('k') in ('member', 'sub') else e.get('e')
            return arrow and is_ref(e) and e.get('id') in params
        has_store = any(lhs.get('k') == 'member' and rooted(lhs) for b, i, ev in fn.events()
                        for lhs, how, rhs in written_lvalues(ev) if how != '&arg')
        if not has_store:
            continue
        n += 1

        # where the allocation's result is stored straight into a field, the test of that field is the test of the
        # allocation
        holder = {}
        for b, i, ev in fn.events():
            for lhs, how, rhs in written_lvalues(ev):
                x = rhs
                while isinstance(x, dict) and x.get('k') in ('paren', 'cast'):
                    x = x['e']
                if how == '=' and isinstance(x, dict) and x.get('k') == 'call' and x.get('id') in allocs \
                        and lhs.get('k') == 'member':
                    holder[estr(lhs)] = x['id']

        def akey(atom, resolve, holder=holder):
            e = atom[1] if atom[0] == 'truthy' else atom[2] if atom[0] == 'cmp' and is_int(atom[3], 0) else None
            if e is not None and isinstance(e, dict) and e.get('k') == 'member' and estr(e) in holder:
                return ('allocres', holder[estr(e)], atom[0])
            return None

        def failed(ctx, aid):
            if ctx.result_known(aid) is False:
                return True
            for k, v in ctx.atoms().items():
                if k[0] == 'allocres' and k[1] == aid:
                    # truthy(field) False, or (field == 0) True
                    if (k[2] == 'truthy' and v is False) or (k[2] == 'cmp' and v is True):
                        return True
            return False

        def on_event(user, ev, ctx, allocs=allocs):
            dirty, snaps = user
            if ev['ev'] == 'call' and ev['e'].get('id') in allocs:
                if dirty:
                    snaps = frozenset(snaps | {(ev['e']['id'], dirty)})
                return (dirty, snaps)
            for lhs, how, rhs in written_lvalues(ev):
                if how == '&arg' or lhs.get('k') != 'member' or not rooted(lhs):
                    continue
                k = estr(lhs)
                # a store of the allocation's own result is the allocation, not a change made before it
                dirty = frozenset(dirty | {k})
                snaps = frozenset((aid, frozenset(f2 for f2 in fields if f2 != k)) for aid, fields in snaps)
            return (dirty, snaps)

        def on_exit(user, ctx, ret, ev, fn=fn):
            dirty, snaps = user
            for aid, fields in snaps:
                if fields and failed(ctx, aid):
                    ctx.report('%s returns after its allocation failed with %s still changed' % (
                        fn.name, ', '.join(sorted(fields))), ev['line'] if ev else fn.line,
                        key=('half-grown', tuple(sorted(fields))))
        try:
            ex = Explorer(fn, init=(frozenset(), frozenset()), on_event=on_event, on_exit=on_exit, calls=GROW_ALLOCATORS,
                          atom_key=akey, track='auto', cap=300000).run()
        except AnalysisBroken:
            r.note('%s: too many paths; no verdict' % fn.name)
            continue
        key = '%s:all-or-nothing' % fn.name
        if ex.reports:
            r.from_reports(ex.reports, keyfn=lambda k, rep, fn=fn: '%s:%s' % (fn.name, '+'.join(k[1])))
        else:
            r.ok(key)
    if n < 3:
        raise AnalysisBroken('allocating container primitives: only %d found' % n)


def c14_15(ck, prog):
    """The allocator reports failure instead of aborting, unless the environment asked for the abort."""
    MEM = 'dbus/dbus-memory.c'
    r = ck.rule('C14.15', 'dbus_malloc / dbus_malloc0 / dbus_realloc report a failed system allocation by returning NULL: '
                'the abort-on-failure switch malloc_cannot_fail (embedded-tests builds) starts FALSE, is stored only by '
                '_dbus_initialize_malloc_debug and only under a test of _dbus_getenv ("DBUS_MALLOC_CANNOT_FAIL"), and the '
                'allocators reach _dbus_abort only under that switch', 'WHO',
                breaks='a genuine out-of-memory kills the process (the bus with all its state) instead of being reported '
                       'as NoMemory to the caller, who could have retried', floor=5)
    tab = prog.tables.get(('malloc_cannot_fail', MEM))
    if tab is None:
        r.skip('no malloc_cannot_fail switch in this configuration (embedded tests off): the allocators cannot abort')
        return
    init = tab.get('init')
    while isinstance(init, dict) and init.get('k') in ('paren', 'cast'):
        init = init['e']
    if is_int(init, 0):
        r.ok('malloc_cannot_fail:starts-false')
    else:
        r.violation('malloc_cannot_fail:starts-false', 'malloc_cannot_fail', MEM, tab.get('line'),
                    'the abort-on-allocation-failure switch does not start FALSE: every failed allocation aborts')
    for f in prog.funcs.values():
        if f.file != MEM:
            continue
        for b, i, ev in f.events():
            for lhs, how, rhs in written_lvalues(ev):
                if is_ref(lhs, 'malloc_cannot_fail') and lhs.get('kind') != 'local':
                    key = 'store:%s:%d' % (f.name, ev['line'])
                    if f.name != '_dbus_initialize_malloc_debug':
                        r.violation(key, f.name, MEM, ev['line'], 'malloc_cannot_fail is stored outside '
                                    '_dbus_initialize_malloc_debug')
                        continue
                    # the store is control dependent on a test of the environment variable
                    envs = [c for bb, ii, c in f.calls() if c.get('callee') == '_dbus_getenv' and c.get('args')
                            and 'DBUS_MALLOC_CANNOT_FAIL' in estr(c['args'][0])]
                    if envs:
                        r.ok(key)
                    else:
                        r.violation(key, f.name, MEM, ev['line'], 'malloc_cannot_fail is set without looking at '
                                    'DBUS_MALLOC_CANNOT_FAIL in the environment')
    for name in ('dbus_malloc', 'dbus_malloc0', 'dbus_realloc'):
        fn = prog.fn(name, MEM)

        def key_of(atom, resolve):
            if atom[0] == 'truthy' and is_ref(atom[1], 'malloc_cannot_fail'):
                return ('mcf',)
            return None

        def on_event(user, ev, ctx):
            if ev['ev'] == 'call' and ev['e'].get('callee') == '_dbus_abort' and ctx.atom(('mcf',)) is not True:
                ctx.report('_dbus_abort is reached without malloc_cannot_fail being set', ev['line'], key='abort')
            return user
        ex = Explorer(fn, on_event=on_event, atom_key=key_of, track='auto').run()
        if ex.reports:
            r.from_reports(ex.reports, keyfn=lambda k, rep, name=name: '%s:abort-only-under-switch' % name)
        else:
            r.ok('%s:abort-only-under-switch' % name, {'paths': getattr(ex, 'n_paths', None)})


def run(ck):
    ck.explanation = (
        'Static rules over bus/services.c, bus/driver.c, bus/connection.c, bus/dispatch.c, bus/signals.c, '
        'bus/activation.c and dbus-message.c: (SUM) bottom-up summaries "may succeed having changed state that '
        'no cancel hook undoes" for the name-registry functions, then irrevocable-last for the request handlers of '
        'Hello / RequestName / ReleaseName / AddMatch / RemoveMatch; (TS) every message, transaction and match '
        'rule local is released/returned/stored on every exit, every initialised DBusString local is freed; '
        '(PAIR) the builder\'s signature bookkeeping is balanced on every exit; orig_len idiom restores on failure; '
        'the OOM reply is preallocated before anything fallible; (TS) builder writes are last.')
    ck.not_decided = ('equality of state snapshots and leak totals at run time; allocation failures inside libc / '
                      'expat; handlers outside the property\'s list (ReloadConfig, UpdateActivationEnvironment, '
                      'BecomeMonitor are analysed under C18 / listed only)')
    for v, prog in ck.programs(thorough_variants=('B',)):
        from rules import listops
        rq = ck.rule('C14.11', 'the public list operations do what their names say (dbus/dbus-list.c; abstract interpretation of their CFG over every circular list of 0..3 links with equal and distinct data, every link / anchor / data argument, with and without memory for a new link): resulting order, return value, freed and detached links agree with the specification of append, prepend, insert_after, remove (first match), remove_last / find_last (last match), remove_link, clear, get/pop first/last (link), get_length, length_is_one', 'ABS', breaks='an append that fails for lack of memory has nevertheless changed the list, or a removal frees a link that is still linked', floor=15)
        listops.check(prog, rq)
        c14_1(ck, prog)
        c14_2(ck, prog)
        signature_pairing(ck, prog)
        c14_2d(ck, prog)
        c14_2e(ck, prog)
        c14_2f(ck, prog)
        c14_2g(ck, prog)
        c14_9(ck, prog)
        c14_12(ck, prog)
        c14_13(ck, prog)
        c14_15(ck, prog)
        rw = ck.rule('C14.14', "a connection's list of owned names (and its count, which max_names_per_connection is checked against) changes only with the life of an owner object: bus_connection_add_owned_service is called only by bus_owner_new, its _link form only by that function, bus_connection_remove_owned_service only by bus_owner_unref", 'WHO', breaks="a name is listed (and counted) twice for a connection after a cancelled ownership change: the limit is reached early, and the connection's disconnect removes the name twice (the bus crashes)", floor=3)
        lib.who_calls(prog, rw, 'bus_connection_add_owned_service', {'bus_owner_new'})
        lib.who_calls(prog, rw, 'bus_connection_add_owned_service_link', {'bus_connection_add_owned_service'})
        lib.who_calls(prog, rw, 'bus_connection_remove_owned_service', {'bus_owner_unref'})
        from rules.C12 import c12_9
        c12_9(ck, prog, 'C14.10')
        c14_7(ck, prog)
        from rules.C12 import c12_6
        c12_6(ck, prog, rid='C14.8')
        c14_3(ck, prog)
        c14_4(ck, prog)
        c14_5(ck, prog)
