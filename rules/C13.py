"""C13 - configured resource limits are never exceeded.  DESIGN.md C13.1-C13.3."""
from engine.cfg import (reach_from, Explorer, estr, norm_cond, is_call, is_int, is_member, is_ref, strip_addr, walk,
                        written_lvalues)
from engine.facts import AnalysisBroken
from engine import lib

LIMITS_EXCEEDED = 'org.freedesktop.DBus.Error.LimitsExceeded'


def var_ids(*es):
    s = set()
    for e in es:
        for x in walk(e):
            if is_ref(x) and 'id' in x:
                s.add(x['id'])
    return frozenset(s)


def limit_gate(prog, rule, fn, counter, limit_callee, sinks, label, need_error=True):
    """In fn, every sink is reached only with `counter < limit` established
    (i.e. on the FALSE edge of `counter >= limit`), where limit is the value of
    limit_callee(); an off-by-one comparison (`>`), swapped operands, or a
    different limit do not establish it.  On the exceeded edge no sink is
    reachable and LimitsExceeded is set before the function returns."""
    nsinks = [0]
    seen_cmp = [0]

    def atom_key(atom, resolve):
        if atom[0] != 'cmp' or atom[1] not in ('<', '<='):
            return None
        op, l, r = atom[1], atom[2], atom[3]

        def is_limit(e):
            c = resolve(e)
            return c is not None and c.get('callee') == limit_callee

        def is_counter(e):
            return counter(e, resolve)
        if op == '<' and is_counter(l) and is_limit(r):
            seen_cmp[0] += 1
            return ('lim', +1, var_ids(l))          # atom true  => counter <  limit
        if op == '<=' and is_limit(l) and is_counter(r):
            seen_cmp[0] += 1
            return ('lim', -1, var_ids(r))          # atom true  => counter >= limit
        return None

    def below(ctx):
        for k, v in ctx.atoms().items():
            if k[0] == 'lim':
                return (v is True) if k[1] == +1 else (v is False)
        return None

    def on_event(user, ev, ctx):
        lab = sinks(ev, ctx)
        if lab:
            nsinks[0] += 1
            b = below(ctx)
            if b is not True:
                ctx.report('%s at line %d is reachable %s' % (
                    lab, ev['line'],
                    'on the limit-exceeded edge' if b is False else
                    'without the check `%s >= %s()` having passed (missing, off by one, or '
                    'compared against a different limit)' % (label, limit_callee)),
                    ev['line'], key=('sink', lab))
        if ev['ev'] == 'call' and ev['e'].get('callee') == 'dbus_set_error':
            a = ev['e']['args']
            if len(a) > 1 and a[1].get('k') == 'str' and a[1]['v'] == LIMITS_EXCEEDED:
                user = True
        return user

    def on_exit(user, ctx, ret, ev):
        if need_error and below(ctx) is False and not user:
            ctx.report('returns on the limit-exceeded edge without setting LimitsExceeded',
                       ev['line'] if ev else None, key=('noerror',))

    ex = Explorer(fn, init=False, on_event=on_event, on_exit=on_exit, calls=None, track='auto',
                  atom_key=atom_key).run()
    key = '%s:%s>=%s' % (fn.name, label, limit_callee)
    if not seen_cmp[0]:
        rule.violation(key + '!nocheck', fn.name, fn.file, fn.line,
                       'no comparison `%s >= %s()` found in %s' % (label, limit_callee, fn.name))
    if not nsinks[0]:
        raise AnalysisBroken('%s: no mutator/sink matched behind limit %s' % (fn.name, limit_callee))
    if not ex.reports and seen_cmp[0]:
        rule.ok(key, {'function': fn.loc, 'sinks_seen': nsinks[0], 'states': ex.nstates})
    for k, r in ex.reports.items():
        rule.violation(key + '!' + '/'.join(str(x) for x in k), fn.name, fn.file, r['line'], r['reason'], r['path'])


def call_sink(*callees):
    def m(ev, ctx):
        if ev['ev'] == 'call' and ev['e'].get('callee') in callees:
            return ev['e']['callee']
        return None
    return m


def return_true_sink(ev, ctx):
    if ev['ev'] == 'return' and ev.get('e') is not None:
        v = ctx.const_of(ev['e'])
        if v is None or v != 0:
            return 'return TRUE'
    return None


def c13_1(ck, prog):
    r = ck.rule('C13.1', 'each limit is tested with `count >= limit` against its own configured value '
                'before the mutator; the exceeded edge sets LimitsExceeded and mutates nothing', 'DOM',
                breaks='one request more than configured is admitted (off by one / wrong limit / missing check)',
                floor=6)
    # match rules
    limit_gate(prog, r, prog.fn('bus_driver_handle_add_match', 'bus/driver.c'),
               lambda e, res: (res(e) or {}).get('callee') == 'bus_connection_get_n_match_rules'
               and lib.arg_is_param(res(e), 0, 'connection'),
               'bus_context_get_max_match_rules_per_connection',
               call_sink('bus_matchmaker_add_rule'), 'n_match_rules')
    # names
    limit_gate(prog, r, prog.fn('bus_registry_acquire_service', 'bus/services.c'),
               lambda e, res: (res(e) or {}).get('callee') == 'bus_connection_get_n_services_owned'
               and lib.arg_is_param(res(e), 0, 'connection'),
               'bus_context_get_max_services_per_connection',
               call_sink('bus_registry_ensure', 'bus_service_add_owner', 'bus_service_swap_owner'),
               'n_services_owned')
    # pending replies
    limit_gate(prog, r, prog.fn('bus_connections_expect_reply', 'bus/connection.c'),
               lambda e, res: is_ref(e, 'count') and e.get('kind') == 'local',
               'bus_context_get_max_replies_per_connection',
               call_sink('bus_expire_list_add'), 'count')
    # completed connections and per-user connections (gate function returns TRUE)
    fn = prog.fn('bus_connections_check_limits', 'bus/connection.c')
    limit_gate(prog, r, fn,
               lambda e, res: is_member(e, 'n_completed', 'BusConnections'),
               'bus_context_get_max_completed_connections', return_true_sink, 'n_completed')
    # per-user: only on paths that obtained a uid
    per_user_gate(prog, r, fn)
    # incomplete connections: listening watches are disabled at the limit
    incomplete_gate(prog, r)
    # the getters return the field they are named after
    r2 = ck.rule('C13.1b', 'counter getters return their counter; limit getters return their '
                 'configured limit field', 'TAB', floor=8)
    getters = {
        'bus_connection_get_n_match_rules': ('BusConnectionData', 'n_match_rules'),
        'bus_connection_get_n_services_owned': ('BusConnectionData', 'n_services_owned'),
        'bus_connections_get_n_incomplete': ('BusConnections', 'n_incomplete'),
        'bus_connections_get_n_active': ('BusConnections', 'n_completed'),
        'bus_context_get_max_match_rules_per_connection': ('BusLimits', 'max_match_rules_per_connection'),
        'bus_context_get_max_services_per_connection': ('BusLimits', 'max_services_per_connection'),
        'bus_context_get_max_replies_per_connection': ('BusLimits', 'max_replies_per_connection'),
        'bus_context_get_max_completed_connections': ('BusLimits', 'max_completed_connections'),
        'bus_context_get_max_connections_per_user': ('BusLimits', 'max_connections_per_user'),
        'bus_context_get_max_incomplete_connections': ('BusLimits', 'max_incomplete_connections'),
    }
    for g, (rec, field) in getters.items():
        f = prog.fn(g)
        rets = [ev for b, i, ev in f.events() if ev['ev'] == 'return']
        ok = rets and all(is_member(ev['e'], field, rec) for ev in rets)
        if ok:
            r2.ok(g, '%s.%s' % (rec, field))
        else:
            r2.violation(g, f.name, f.file, f.line,
                         '%s does not simply return %s.%s (returns %s)' % (
                             g, rec, field, ', '.join(estr(ev['e']) for ev in rets)))
    # Hello completes the connection only after the limits check passed
    r3 = ck.rule('C13.1c', 'Hello registers the connection only after bus_connections_check_limits '
                 'succeeded for this connection', 'DOM', floor=1)
    hello = prog.fn('bus_driver_handle_hello', 'bus/driver.c')
    lib.must_precede(hello, r3, lambda ev, ctx: 'bus_connection_complete'
                     if ev['ev'] == 'call' and ev['e'].get('callee') == 'bus_connection_complete' else None,
                     [lib.guard_call('check_limits(connection)', 'bus_connections_check_limits', 1, 'connection')])


def per_user_gate(prog, r, fn):
    seen = [0]

    def atom_key(atom, resolve):
        if atom[0] == 'cmp' and atom[1] == '<':
            lc, rc = resolve(atom[2]), resolve(atom[3])
            if (lc is not None and lc.get('callee') == 'get_connections_for_uid' and rc is not None
                    and rc.get('callee') == 'bus_context_get_max_connections_per_user'):
                seen[0] += 1
                return ('ulim', +1, var_ids(atom[2], atom[3]))
        return None
    uid_calls = {c['id'] for b, i, c in fn.calls('dbus_connection_get_unix_user')
                 if lib.arg_is_param(c, 0, 'requesting_completion')}
    if not uid_calls:
        raise AnalysisBroken('check_limits no longer asks for the unix user of requesting_completion')

    def on_exit(user, ctx, ret, ev):
        v = ctx.const_of(ret) if ret is not None else None
        if v == 0:
            return
        has_uid = any(ctx.result_known(c) is True for c in uid_calls)
        if has_uid:
            ok = any(k[0] == 'ulim' and val is True for k, val in ctx.atoms().items())
            if not ok:
                ctx.report('returns TRUE for a connection with a known uid without '
                           '`get_connections_for_uid() >= max_connections_per_user` having been refuted',
                           ev['line'], key=('peruser',))
    ex = Explorer(fn, on_exit=on_exit, calls={'dbus_connection_get_unix_user'}, track='auto',
                  atom_key=atom_key).run()
    key = 'bus_connections_check_limits:per-user>=bus_context_get_max_connections_per_user'
    if ex.reports or not seen[0]:
        for k, rep in ex.reports.items():
            r.violation(key, fn.name, fn.file, rep['line'], rep['reason'], rep['path'])
        if not seen[0] and not ex.reports:
            r.violation(key, fn.name, fn.file, fn.line, 'per-user comparison not found')
    else:
        r.ok(key, {'function': fn.loc})
    # get_connections_for_uid reads the per-uid table that adjust_connections_for_uid maintains
    g = prog.fn('get_connections_for_uid', 'bus/connection.c')
    if not g.calls('_dbus_hash_table_lookup_uintptr'):
        r.violation('get_connections_for_uid:lookup', g.name, g.file, g.line,
                    'get_connections_for_uid no longer looks the uid up in the per-uid table')


def incomplete_gate(prog, r):
    fn = prog.fn('bus_context_check_all_watches', 'bus/bus.c')
    seen = [0]
    nassign = [0]

    def atom_key(atom, resolve):
        if atom[0] == 'cmp' and atom[1] == '<':
            lc, rc = resolve(atom[2]), resolve(atom[3])
            limit = (rc is not None and rc.get('callee') == 'bus_context_get_max_incomplete_connections') or \
                is_member(atom[3], 'max_incomplete_connections', 'BusLimits')     # the getter, or the field it returns
            if lc is not None and lc.get('callee') == 'bus_connections_get_n_incomplete' and limit:
                seen[0] += 1
                return ('ilim', +1, var_ids(atom[2], atom[3]))
        return None

    def on_event(user, ev, ctx):
        for lhs, how, rhs in written_lvalues(ev):
            if is_member(lhs, 'watches_enabled', 'BusContext') and how == '=':
                nassign[0] += 1
                v = ctx.const_of(rhs)
                below = None
                for k, val in ctx.atoms().items():
                    if k[0] == 'ilim':
                        below = val
                if below is None or v is None or (v != 0) != below:
                    ctx.report('watches_enabled set to %s while n_incomplete %s max_incomplete_connections' % (
                        v, {True: '<', False: '>=', None: '?'}[below]), ev['line'], key=('watches',))
        return user
    ex = Explorer(fn, on_event=on_event, track='auto', atom_key=atom_key,
                  calls={'bus_connections_get_n_incomplete', 'bus_context_get_max_incomplete_connections'}).run()
    key = 'bus_context_check_all_watches:n_incomplete>=bus_context_get_max_incomplete_connections'
    if not seen[0] or not nassign[0]:
        r.violation(key, fn.name, fn.file, fn.line,
                    'comparison n_incomplete >= max_incomplete_connections or the watches_enabled update not found')
    elif ex.reports:
        for k, rep in ex.reports.items():
            r.violation(key, fn.name, fn.file, rep['line'], rep['reason'], rep['path'])
    else:
        r.ok(key, {'function': fn.loc})
    # and the toggled value reaches every server watch
    if not fn.calls('_dbus_server_toggle_all_watches'):
        r.violation(key + '!toggle', fn.name, fn.file, fn.line,
                    'bus_context_check_all_watches no longer toggles the server watches')


LIST_INS = {'_dbus_list_append_link', '_dbus_list_append', '_dbus_list_prepend', '_dbus_list_prepend_link',
            '_dbus_list_insert_after', '_dbus_list_insert_after_link', '_dbus_list_insert_before_link'}
LIST_DEL = {'_dbus_list_remove_link', '_dbus_list_unlink', '_dbus_list_remove_last', '_dbus_list_remove',
            '_dbus_list_pop_first', '_dbus_list_pop_last', '_dbus_list_pop_first_link', '_dbus_list_pop_last_link',
            '_dbus_list_clear'}


def coupled_counter(prog, r, rec, counter, lrec, lst, init_ok=('bus_connections_new', 'bus_connections_setup_connection')):
    """Every `counter += 1` is in the same basic block as (right after) an
    insertion into list field `lst`, every `-= 1` right after a removal, and
    vice versa; no other writer."""
    n = 0
    for f in lib.prod_funcs(prog):
        for bid, blk in f.blocks.items():
            seq = []
            for ev in blk['events']:
                if ev['ev'] == 'call':
                    c = ev['e']
                    cal = c.get('callee')
                    if cal in LIST_INS or cal in LIST_DEL:
                        a0 = strip_addr(c['args'][0]) if c['args'] else None
                        if a0 is not None and is_member(a0, lst, lrec):
                            seq.append(('ins' if cal in LIST_INS else 'del', ev['line'], cal))
                for lhs, how, rhs in written_lvalues(ev):
                    if is_member(lhs, counter, rec):
                        if how in ('+=', '++') and (rhs is None or is_int(rhs, 1)):
                            seq.append(('inc', ev['line'], how))
                        elif how in ('-=', '--') and (rhs is None or is_int(rhs, 1)):
                            seq.append(('dec', ev['line'], how))
                        elif how == '=' and is_int(rhs, 0):
                            seq.append(('zero', ev['line'], how))
                        else:
                            seq.append(('bad', ev['line'], '%s %s' % (how, estr(rhs))))
            if not seq:
                continue
            # pair up in order
            i = 0
            while i < len(seq):
                kind, line, what = seq[i]
                key = '%s.%s:%s@%s' % (rec, counter, kind, f.name)
                nxt = seq[i + 1] if i + 1 < len(seq) else None
                if kind == 'ins' and nxt and nxt[0] == 'inc':
                    r.ok(key, {'site': '%s:%d' % (f.file, line), 'list_op': what})
                    n += 1
                    i += 2
                    continue
                if kind == 'del' and nxt and nxt[0] == 'dec':
                    r.ok(key, {'site': '%s:%d' % (f.file, line), 'list_op': what})
                    n += 1
                    i += 2
                    continue
                if kind == 'zero':
                    r.ok(key, {'site': '%s:%d' % (f.file, line)})
                    i += 1
                    continue
                r.violation(key, f.name, f.file, line,
                            {'ins': 'insertion into %s.%s (%s) is not followed by %s += 1 in the same block',
                             'del': 'removal from %s.%s (%s) is not followed by %s -= 1 in the same block',
                             'inc': '%s.%s: increment (%s) of %s without a list insertion just before',
                             'dec': '%s.%s: decrement (%s) of %s without a list removal just before',
                             'bad': '%s.%s: unexpected write (%s) to %s'}[kind] % (lrec, lst, what, counter))
                i += 1
    return n


def followed_by(fn, trigger, closer, what):
    """On every path from an event matching trigger to a return of fn, an event
    matching closer occurs afterwards.  Returns (number of trigger sites, reports)."""
    n = set()

    def on_event(user, ev, ctx):
        if closer(ev):
            user = None
        if trigger(ev):
            n.add(ev['line'])
            user = ev['line']
        return user

    def on_exit(user, ctx, ret, ev):
        if user is not None:
            ctx.report('%s at line %d is not followed by %s before %s returns' % (
                what[0], user, what[1], fn.name), user, key=('unfollowed', user))
    ex = Explorer(fn, init=None, on_event=on_event, on_exit=on_exit, track='auto').run()
    return len(n), ex.reports


def c13_1d(ck, prog):
    r = ck.rule('C13.1d', 'every change of the number of unauthenticated connections is followed by a '
                're-evaluation of the accept gate (bus_context_check_all_watches)', 'PAIR',
                breaks='the listening sockets stay disabled after capacity is freed (bus stops accepting), '
                       'or stay enabled at the limit', floor=3)

    def trig(ev):
        return any(is_member(l, 'n_incomplete', 'BusConnections') and h in ('+=', '-=', '++', '--')
                   for l, h, rh in written_lvalues(ev))

    def closer(ev):
        return ev['ev'] == 'call' and ev['e'].get('callee') == 'bus_context_check_all_watches'
    total = 0
    for f in lib.prod_funcs(prog):
        if not any(trig(ev) for b, i, ev in f.events()):
            continue
        n, reps = followed_by(f, trig, closer, ('the change of n_incomplete', 'bus_context_check_all_watches()'))
        total += n
        if reps:
            r.from_reports(reps, keyfn=lambda k, rep, f=f: '%s:n_incomplete->check_all_watches' % f.name)
        else:
            r.ok('%s:n_incomplete->check_all_watches' % f.name, {'sites': n})
    if total < 3:
        raise AnalysisBroken('only %d n_incomplete update sites found' % total)


def c13_1e(ck, prog):
    r = ck.rule('C13.1e', 'the pending-reply count used for the limit counts exactly the slots owed to this '
                'caller (every slot whose receiver is the caller, and nothing else)', 'TS',
                breaks='a caller holds more outstanding calls than max_replies_per_connection (slots to other '
                       'callees uncounted) or is refused early', floor=1)
    fn = prog.fn('bus_connections_expect_reply', 'bus/connection.c')
    wid = fn.param('will_get_reply')['id']
    ninc = [0]

    def atom_key(atom, resolve):
        if atom[0] == 'cmp' and atom[1] == '==':
            for l, rr in ((atom[2], atom[3]), (atom[3], atom[2])):
                if is_member(l, 'will_get_reply', 'BusPendingReply') and is_ref(rr) and rr.get('id') == wid:
                    return ('mine', var_ids(l))
        return None

    def mine(ctx):
        for k, v in ctx.atoms().items():
            if k[0] == 'mine':
                return v
        return None

    def on_edge(user, bid, idx, atom, sense, ctx):
        k = atom_key(atom, None) if atom and atom[0] == 'cmp' else None
        if k is not None and sense and user != 'counted':
            return 'owed'
        return user

    def on_event(user, ev, ctx):
        for lhs, how, rhs in written_lvalues(ev):
            if is_ref(lhs, 'count') and how in ('++', '+='):
                ninc[0] += 1
                if mine(ctx) is not True:
                    ctx.report('count is incremented for a slot not known to be owed to this caller',
                               ev['line'], key='overcount')
                user = 'counted'
            if is_ref(lhs, 'pending') and how == '=':
                if user == 'owed':
                    ctx.report('a slot owed to this caller is skipped by the count (next slot fetched '
                               'without ++count)', ev['line'], key='undercount')
                user = 'idle'
        if ev['ev'] == 'call' and ev['e'].get('callee') == 'bus_context_get_max_replies_per_connection':
            if user == 'owed':
                ctx.report('a slot owed to this caller is not counted before the limit comparison',
                           ev['line'], key='undercount')
            user = 'idle'
        return user
    ex = Explorer(fn, init='idle', on_event=on_event, on_edge=on_edge, atom_key=atom_key, track='auto').run()
    if not ninc[0]:
        raise AnalysisBroken('expect_reply no longer increments count')
    if ex.reports:
        r.from_reports(ex.reports, keyfn=lambda k, rep: 'expect_reply:%s' % k)
    else:
        r.ok('expect_reply:count==slots-owed-to-caller', {'states': ex.nstates})


def c13_2(ck, prog):
    r = ck.rule('C13.2', 'each limit counter changes by one exactly where its list gains or loses an element',
                'WHO', breaks='the counter drifts from the real population: limits are exceeded or '
                'capacity is never given back', floor=9)
    n = 0
    n += coupled_counter(prog, r, 'BusConnectionData', 'n_match_rules', 'BusConnectionData', 'match_rules')
    n += coupled_counter(prog, r, 'BusConnectionData', 'n_services_owned', 'BusConnectionData', 'services_owned')
    n += coupled_counter(prog, r, 'BusConnections', 'n_completed', 'BusConnections', 'completed')
    n += coupled_counter(prog, r, 'BusConnections', 'n_incomplete', 'BusConnections', 'incomplete')
    # every path that removes an owner / a rule / a connection reaches the decrementing function
    r2 = ck.rule('C13.2b', 'removal paths reach the decrementing function', 'SUM', floor=4)
    need = {
        # (caller, callee it must call on every path to a normal exit is too strong; we require a call site)
        ('bus_owner_unref', 'bus/services.c'): 'bus_connection_remove_owned_service',
        ('bus_service_unlink_owner', 'bus/services.c'): 'bus_owner_unref',
        ('bus_matchmaker_remove_rule_link', 'bus/signals.c'): 'bus_connection_remove_match_rule',
        ('bus_owner_new', 'bus/services.c'): 'bus_connection_add_owned_service',
        ('bus_matchmaker_remove_rule', 'bus/signals.c'): 'bus_connection_remove_match_rule',
        ('bus_matchmaker_remove_rule_by_value', 'bus/signals.c'): 'bus_connection_remove_match_rule',
        ('bus_matchmaker_disconnected', 'bus/signals.c'): 'rule_list_remove_by_connection',
        ('rule_list_remove_by_connection', 'bus/signals.c'): 'bus_connection_remove_match_rule',
        ('bus_matchmaker_add_rule', 'bus/signals.c'): 'bus_connection_add_match_rule',
    }
    for (caller, file), callee in need.items():
        f = prog.fn(caller, file)
        reach = prog.reachable_from([f.key])
        tgt = [g for g in prog.by_name.get(callee, [])]
        if not tgt:
            raise AnalysisBroken('anchor %s vanished' % callee)
        if any(g.key in reach for g in tgt):
            r2.ok('%s->%s' % (caller, callee))
        else:
            r2.violation('%s->%s' % (caller, callee), f.name, f.file, f.line,
                         '%s no longer reaches %s: the counter is not given back on this removal path' % (caller, callee))
    # disconnect reaches every release
    disc = prog.fn('bus_connection_disconnected', 'bus/connection.c')
    reach = prog.reachable_from([disc.key])
    for callee in ('bus_matchmaker_disconnected', 'bus_service_remove_owner', 'bus_connection_drop_pending_replies'):
        if any(g.key in reach for g in prog.by_name.get(callee, [])):
            r2.ok('bus_connection_disconnected->%s' % callee)
        else:
            r2.violation('bus_connection_disconnected->%s' % callee, disc.name, disc.file, disc.line,
                         'disconnect no longer reaches %s' % callee)


def c13_3(ck, prog):
    r = ck.rule('C13.3', 'every accepted connection gets the configured maximum message size / fd '
                'counts pushed into its loader before it is set up', 'DOM',
                breaks='an oversized message is accepted and buffered', floor=4)
    fn = prog.fn('bus_context_add_incoming_connection', 'bus/bus.c')
    lib.who_calls(prog, r, 'bus_connections_setup_connection', {'bus_context_add_incoming_connection'})
    setters = {
        'dbus_connection_set_max_received_size': 'max_incoming_bytes',
        'dbus_connection_set_max_message_size': 'max_message_size',
        'dbus_connection_set_max_received_unix_fds': 'max_incoming_unix_fds',
        'dbus_connection_set_max_message_unix_fds': 'max_message_unix_fds',
    }
    guards = []
    for s, field in setters.items():
        guards.append(lib.Guard(s, (lambda s, field: lambda c, ctx: c.get('callee') == s
                                    and lib.arg_is_param(c, 0, 'new_connection')
                                    and is_member(c['args'][1], field, 'BusLimits'))(s, field), untested=True))
    # the function's normal exit: dbus_connection_ref-ish end? use "return" events
    def sinks(ev, ctx):
        if ev['ev'] == 'return':
            return 'exit'
        return None
    # void function: falls off the end; use on_exit through Explorer directly
    missing = {}
    states = [0]

    def on_event(user, ev, ctx):
        if ev['ev'] == 'call':
            for g in guards:
                if g.match(ev['e'], ctx):
                    user = user | {g.name}
        return user

    def on_exit(user, ctx, ret, ev):
        # exits where setup succeeded: bus_connections_setup_connection result true
        setup = [c['id'] for b, i, c in fn.calls('bus_connections_setup_connection')]
        if not setup:
            return
        if any(ctx.result_known(c) is True for c in setup):
            for g in guards:
                if g.name not in user:
                    missing[g.name] = ev['line'] if ev else fn.endline
    ex = Explorer(fn, init=frozenset(), on_event=on_event, on_exit=on_exit,
                  calls={'bus_connections_setup_connection'}, track='auto').run()
    if not fn.calls('bus_connections_setup_connection'):
        raise AnalysisBroken('bus_context_add_incoming_connection no longer calls bus_connections_setup_connection')
    for g in guards:
        key = 'bus_context_add_incoming_connection:%s' % g.name
        if g.name in missing:
            r.violation(key, fn.name, fn.file, missing[g.name],
                        'a connection can be set up without %s(new_connection, limits.%s)' % (g.name, setters[g.name]))
        else:
            r.ok(key)
    # the loader enforces max_message_size: _dbus_message_loader_queue_messages passes
    # loader->max_message_size to _dbus_header_have_message_untrusted
    r2 = ck.rule('C13.3b', 'the loader passes its max_message_size to the fixed-header sanity check, '
                 'which rejects header_len + body_len > max', 'DOM', floor=2)
    q = prog.fn('_dbus_message_loader_queue_messages', 'dbus/dbus-message.c')
    okc = False
    for b, i, c in q.calls('_dbus_header_have_message_untrusted'):
        if is_member(c['args'][0], 'max_message_size', 'DBusMessageLoader'):
            okc = True
            r2.ok('queue_messages:max_message_size->have_message_untrusted')
        else:
            r2.violation('queue_messages:max_message_size', q.name, q.file, c['line'],
                         'first argument of _dbus_header_have_message_untrusted is %s, not loader->max_message_size'
                         % estr(c['args'][0]))
    if not okc and not r2.violations:
        raise AnalysisBroken('_dbus_header_have_message_untrusted call vanished from queue_messages')
    h = prog.fn('_dbus_header_have_message_untrusted', 'dbus/dbus-marshal-header.c')
    found = False
    for bid, blk in h.blocks.items():
        t = blk.get('term')
        if not t or t.get('cond') is None:
            continue
        c = t['cond']
        # header_len + body_len > max_message_length
        if c.get('k') == 'bin' and c['op'] in ('>', '<'):
            big, small = (c['l'], c['r']) if c['op'] == '>' else (c['r'], c['l'])
            if is_ref(small, 'max_message_length') and big.get('k') == 'bin' and big['op'] == '+':
                names = {x.get('name') for x in walk(big) if is_ref(x)}
                if {'header_len_unsigned', 'body_len_unsigned'} <= names or {'header_len', 'body_len'} & names:
                    found = True
                    # the lengths compared are the lengths handed back: neither is changed afterwards
                    ids = {x.get('id'): x.get('name') for x in walk(big) if is_ref(x) and x.get('kind') == 'local'}
                    later = reach_from(h, h.succs(bid))
                    for b2 in later:
                        for ev in h.blocks[b2]['events']:
                            for lhs, how, rhs in written_lvalues(ev):
                                if is_ref(lhs) and lhs.get('id') in ids:
                                    r2.violation('have_message_untrusted:%s-changed-after-limit-test' % ids[lhs['id']],
                                                 h.name, h.file, ev['line'],
                                                 '%s is modified after it was compared with max_message_length: the '
                                                 'size tested is not the size the loader goes on to accept'
                                                 % ids[lhs['id']])
    if found:
        r2.ok('have_message_untrusted:header+body>max')
    else:
        r2.violation('have_message_untrusted:header+body>max', h.name, h.file, h.line,
                     'the comparison header_len + body_len > max_message_length was not found')


def c13_2c(ck, prog):
    r = ck.rule('C13.2c', 'the per-user connection count mirrors the completed list: on every exit of every '
                'function that adjusts it, the net adjustment for the user equals the net change of '
                'n_completed (a failed registration gives the +1 back), unless the peer has no unix user',
                'PAIR', breaks='the count for a user drifts upward: max_connections_per_user refuses '
                'connections the user is entitled to (or, drifting down, admits more than configured)',
                floor=2)
    ADJ = 'adjust_connections_for_uid'
    sites = prog.call_sites(ADJ)
    fns = {}
    for f, b, i, c in sites:
        if prog.is_production(f):
            fns[f.key] = f
    if not fns:
        raise AnalysisBroken('no caller of adjust_connections_for_uid')
    for f in lib.prod_funcs(prog, {'bus/connection.c'}):
        for b, i, ev in f.events():
            if any(is_member(l, 'n_completed', 'BusConnections') and how in ('+=', '++', '-=', '--')
                   for l, how, rhs in written_lvalues(ev)):
                fns[f.key] = f
    for f in fns.values():
        bad_args = [c for b, i, c in f.calls(ADJ) if len(c['args']) < 3 or not is_int(c['args'][2])
                    or c['args'][2]['v'] not in (1, -1)]
        if bad_args:
            r.violation('%s:adjustment-constant' % f.name, f.name, f.file, bad_args[0]['line'],
                        'adjust_connections_for_uid is called with an adjustment other than the constants +1 / -1')
            continue

        def on_event(user, ev, ctx):
            uid, comp, pend, gu = user
            if pend is not None:
                k = ctx.result_known(pend)
                if k is True:
                    uid, pend = uid + 1, None
                elif k is False:
                    pend = None
            if ev['ev'] == 'call':
                c = ev['e']
                if c.get('callee') == ADJ:
                    if c['args'][2]['v'] == 1:
                        pend = c['id']
                    else:
                        uid -= 1                 # "adjusting downward should never fail"
                elif c.get('callee') == 'dbus_connection_get_unix_user':
                    gu = c['id']
            for lhs, how, rhs in written_lvalues(ev):
                if is_member(lhs, 'n_completed', 'BusConnections'):
                    if how in ('+=', '++'):
                        comp += 1
                    elif how in ('-=', '--'):
                        comp -= 1
            return (uid, comp, pend, gu)

        def on_exit(user, ctx, ret, ev, f=f):
            uid, comp, pend, gu = user
            if pend is not None:
                k = ctx.result_known(pend)
                if k is not False:
                    uid += 1
            if gu is not None and ctx.result_known(gu) is False:
                return                           # no unix user: nothing to count
            if uid != comp:
                ctx.report('%s returns with the per-user count changed by %+d but n_completed changed by %+d'
                           % (f.name, uid, comp), ev['line'] if ev else f.endline, key=('drift', uid, comp))
        ex = Explorer(f, init=(0, 0, None, None), on_event=on_event, on_exit=on_exit,
                      calls={ADJ, 'dbus_connection_get_unix_user'}, track='auto', cap=300000,
                      pure={'dbus_connection_get_unix_user'}).run()
        if ex.reports:
            for k, rep in ex.reports.items():
                r.violation('%s:uid%+d/completed%+d' % (f.name, k[1], k[2]), f.name, f.file, rep['line'],
                            rep['reason'], rep['path'])
        else:
            r.ok('%s:balanced' % f.name, {'states': ex.nstates})


def c13_8(ck, prog):
    """The <limit name="..."> table: names and BusLimits fields correspond one to one."""
    r = ck.rule('C13.8', 'the <limit> names and the limit fields correspond one to one in set_limit: every name branch '
                'stores the value in exactly one BusLimits field, no field is stored under two names, and every '
                'BusLimits field can be configured by some name', 'TAB',
                breaks='configuring one limit silently changes another: the administrator\'s per-user connection '
                'limit overwrites the global one and itself stays at its default, so more connections per user are '
                'accepted than configured', floor=15)
    CFGP = 'bus/config-parser.c'
    fn = prog.fn('set_limit', CFGP)
    npred = {}
    for bid, blk in fn.blocks.items():
        for s2 in blk['succs']:
            if s2 is not None:
                npred[s2] = npred.get(s2, 0) + 1
    by_name, by_field = {}, {}
    for bid, blk in fn.blocks.items():
        t = blk.get('term')
        if not t or t.get('cond') is None or len(blk['succs']) != 2:
            continue
        a, sense = norm_cond(t['cond'])
        lit = None
        if a is not None and a[0] == 'cmp' and a[1] == '==' and is_int(a[3], 0) and is_call(a[2], 'strcmp'):
            call, eq_edge = a[2], (0 if sense else 1)
        elif a is not None and a[0] == 'truthy' and is_call(a[1], 'strcmp'):
            call, eq_edge = a[1], (1 if sense else 0)
        else:
            continue
        for x in call['args']:
            if x.get('k') == 'str' or (x.get('k') in ('cast', 'paren') and x.get('e', {}).get('k') == 'str'):
                lit = (x if x.get('k') == 'str' else x['e'])['v']
        if lit is None or not any(is_ref(x) and x.get('id') == fn.params[1]['id'] for x in call['args']):
            continue
        # the region of this branch: blocks reached from the equal edge before control joins other branches
        seen, todo = set(), [blk['succs'][eq_edge]]
        while todo:
            b2 = todo.pop()
            if b2 is None or b2 in seen or npred.get(b2, 0) > 1:
                continue
            seen.add(b2)
            todo += fn.blocks[b2]['succs']
        fields = []
        for b2 in seen:
            for ev in fn.blocks[b2]['events']:
                for lhs, how, rhs in written_lvalues(ev):
                    if lhs.get('k') == 'member' and lhs.get('rec') == 'BusLimits':
                        fields.append((lhs['field'], ev['line']))
        by_name[lit] = (fields, t['line'])
        for f, line in fields:
            by_field.setdefault(f, []).append((lit, line))
    if len(by_name) < 15:
        raise AnalysisBroken('set_limit: only %d name branches recognised' % len(by_name))
    for lit, (fields, line) in sorted(by_name.items()):
        key = 'set_limit:name:%s' % lit
        if len({f for f, _ in fields}) != 1:
            r.violation(key, fn.name, CFGP, line, 'the branch for <limit name="%s"> stores %s' % (
                lit, 'nothing in the limits' if not fields else 'several fields: ' + ', '.join(sorted({f for f, _ in fields}))))
        else:
            r.ok(key, {'field': fields[0][0]})
    for f, uses in sorted(by_field.items()):
        key = 'set_limit:field:%s' % f
        if len({u[0] for u in uses}) > 1:
            r.violation(key, fn.name, CFGP, uses[-1][1], 'the limit field %s is stored under several names: %s' % (
                f, ', '.join('"%s"' % u[0] for u in uses)))
        else:
            r.ok(key)
    rec = prog.record('BusLimits')
    for fld in rec['fields']:
        key = 'set_limit:configurable:%s' % fld['name']
        if fld['name'] not in by_field:
            r.violation(key, fn.name, CFGP, fn.line, 'no <limit> name stores the limit field %s: it keeps its default '
                        'whatever the configuration says' % fld['name'])
        else:
            r.ok(key)


def run(ck):
    ck.explanation = (
        'Static rules over bus/driver.c, bus/services.c, bus/connection.c, bus/bus.c, bus/signals.c and '
        'dbus-message.c / dbus-marshal-header.c: (DOM, path-sensitive) every mutator guarded by a configured '
        'limit is reachable only after `count >= limit` was refuted, with the operator, operand order and the '
        'limit getter checked on the expression tree (so `>` for `>=`, a swapped operand or another limit is a '
        'violation), and the exceeded edge sets LimitsExceeded; (WHO) each counter changes by exactly one in '
        'the same basic block as the list operation it mirrors and has no other writer; removal paths reach '
        'the decrementing functions; the maximum message size is pushed into every accepted connection.')
    ck.not_decided = ('behaviour over histories (that freed capacity is reusable in every interleaving); '
                      'per-uid hash arithmetic in adjust_connections_for_uid beyond its call sites')
    for v, prog in ck.programs(thorough_variants=('B',)):
        from rules import listops
        rq = ck.rule('C13.10', 'the public list operations do what their names say (dbus/dbus-list.c; abstract interpretation of their CFG over every circular list of 0..3 links with equal and distinct data, every link / anchor / data argument, with and without memory for a new link): resulting order, return value, freed and detached links agree with the specification of append, prepend, insert_after, remove (first match), remove_last / find_last (last match), remove_link, clear, get/pop first/last (link), get_length, length_is_one', 'ABS', breaks='the counters mirror list operations: a removal that unlinks nothing (or the wrong link) leaves the count and the list disagreeing, and the limit is enforced against the wrong number', floor=15)
        listops.check(prog, rq)
        c13_1(ck, prog)
        c13_1d(ck, prog)
        c13_1e(ck, prog)
        c13_2(ck, prog)
        c13_2c(ck, prog)
        c13_3(ck, prog)
        c13_8(ck, prog)
        rw = ck.rule('C13.12', "a connection's list of owned names (and its count, which max_names_per_connection is checked against) changes only with the life of an owner object: bus_connection_add_owned_service is called only by bus_owner_new, its _link form only by that function, bus_connection_remove_owned_service only by bus_owner_unref", 'WHO', breaks="a name is listed (and counted) twice for a connection after a cancelled ownership change: the limit is reached early, and the connection's disconnect removes the name twice (the bus crashes)", floor=3)
        lib.who_calls(prog, rw, 'bus_connection_add_owned_service', {'bus_owner_new'})
        lib.who_calls(prog, rw, 'bus_connection_add_owned_service_link', {'bus_connection_add_owned_service'})
        lib.who_calls(prog, rw, 'bus_connection_remove_owned_service', {'bus_owner_unref'})
        from rules.C09 import c09_10
        c09_10(ck, prog, 'C13.11')
        r = ck.rule('C13.9', 'a function that stores a requested maximum (loader / transport / connection `..._set_max_...`) only ever lowers the request: each replacement of the parameter by a constant K lies behind `param > C` with C >= K (clamping from above); a request of 0 is stored as 0', 'DOM',
                    breaks='a configured message-size or descriptor limit is silently replaced by a larger one for some requested values', floor=2)
        lib.limit_setters_only_lower(prog, r, {'dbus/dbus-message.c', 'dbus/dbus-transport.c', 'dbus/dbus-connection.c'})
        r = ck.rule('C13.6', 'the counters\' containers live as long as the bus: the per-user connection table, the '
                    'pending-reply list and the connections object are created once and released only by their '
                    'destructors', 'WHO',
                    breaks='recreating a container resets what the limits are counted against while the counted '
                    'objects still exist', floor=3)
        lib.state_lifetime(prog, r, [('BusConnections', 'completed_by_user'), ('BusConnections', 'pending_replies'),
                                     ('BusContext', 'connections')])
        from rules.C09 import slot_opened_last
        lib.shared_rule(ck, prog, 'C13.7', 'a request the gate refuses (LimitsExceeded for a full destination queue '
                        'included) has not taken a pending-reply slot: the slot is the gate\'s last step (shared with '
                        'C09.1)', 'TS', 'a refused call changes the pending-reply count: the caller is later told '
                        'its maximum is reached although nothing is outstanding', 1,
                        lambda ck2, prog2: slot_opened_last(prog2, ck2.rule('x', 'x', 'TS')))
