"""C01 - untrusted bytes become a message only if spec-valid, and always safely.
DESIGN.md C01.1 - C01.6 (structural clauses; C01.7 cursor analysis withdrawn, see DESIGN.md)."""
from engine.cfg import (same_expr, Explorer, estr, is_call, is_int, is_member, is_ref, strip_addr, walk,
                        written_lvalues, event_expr, reach_from)
from engine.facts import AnalysisBroken
from engine import lib
from rules import typetab

MSG = 'dbus/dbus-message.c'
HDR = 'dbus/dbus-marshal-header.c'
VAL = 'dbus/dbus-marshal-validate.c'


def c01_1(ck, prog):
    r = ck.rule('C01.1', 'a message is queued by the loader only after the header loader (untrusted mode) and '
                'the body validator both returned DBUS_VALID; the header loader returns TRUE in untrusted mode '
                'only after all of its checks', 'DOM',
                breaks='unvalidated bytes reach the iterator API, which trusts them', floor=8)
    fn = prog.fn('load_message', MSG)
    untrusted = prog.enums.get('DBUS_VALIDATION_MODE_DATA_IS_UNTRUSTED')
    if untrusted is None:
        raise AnalysisBroken('DBUS_VALIDATION_MODE_DATA_IS_UNTRUSTED vanished')

    def sinks(ev, ctx):
        if ev['ev'] == 'call' and ev['e'].get('callee') in ('_dbus_list_append', '_dbus_list_append_link',
                                                           '_dbus_list_prepend') \
                and is_member(strip_addr(ev['e']['args'][0]) or {}, 'messages', 'DBusMessageLoader'):
            return 'queue(loader->messages)'
        return None

    def hdr_guard(c, ctx):
        if c.get('callee') != '_dbus_header_load':
            return False
        m = c['args'][1]
        mv = ctx.const_of(m) if ctx is not None else (m.get('v') if is_int(m) else None)
        if ctx is None:
            return True
        return mv == untrusted
    guards = [
        lib.Guard('_dbus_header_load(mode = DATA_IS_UNTRUSTED)', hdr_guard),
        lib.Guard('_dbus_validate_body_with_reason(...) == DBUS_VALID',
                  lambda c, ctx: c.get('callee') == '_dbus_validate_body_with_reason'
                  and len(c['args']) >= 7 and is_int(c['args'][3], 0)
                  and is_member(strip_addr(c['args'][4]) or {}, 'data', 'DBusMessageLoader'), expect=False),
    ]
    lib.must_precede(fn, r, sinks, guards, track={'mode', 'validity'})
    # body validator is given the whole body and no "bytes remaining" escape
    for b, i, c in fn.calls('_dbus_validate_body_with_reason'):
        a = c['args']
        key = 'load_message:validate-body-args'
        if is_int(a[3], 0) and is_ref(a[5] if len(a) > 5 else {}, 'header_len') and is_ref(a[6] if len(a) > 6 else {}, 'body_len') \
                or (is_int(a[3], 0)):
            r.ok(key, {'args': [estr(x) for x in a]})
        else:
            r.violation(key, fn.name, MSG, c['line'], 'body validator called with %s' % [estr(x) for x in a])
    # _dbus_header_load: TRUE in untrusted mode only after its checks
    hl = prog.fn('_dbus_header_load', HDR)
    need = {
        'fixed part + fields array validated': lambda c: c.get('callee') == '_dbus_validate_body_with_reason',
        'padding is nul': lambda c: c.get('callee') == '_dbus_string_validate_nul',
        'each field validated': lambda c: c.get('callee') == 'load_and_validate_field',
        'mandatory fields present': lambda c: c.get('callee') == 'check_mandatory_fields',
    }
    trusted = prog.enums.get('DBUS_VALIDATION_MODE_WE_TRUST_THIS_DATA_ABSOLUTELY')
    ids = {k: [c['id'] for b, i, c in hl.calls() if pred(c)] for k, pred in need.items()}
    for k, v in ids.items():
        if not v:
            raise AnalysisBroken('_dbus_header_load: check "%s" vanished' % k)
    modep = hl.param('mode')

    def akey(atom, resolve):
        if atom[0] == 'cmp' and atom[1] == '==' and is_ref(atom[2], 'mode') and is_int(atom[3], trusted):
            return ('trusted', frozenset())
        if trusted == 0 and atom[0] == 'truthy' and is_ref(atom[1], 'mode'):
            return ('mode-nonzero', frozenset())       # True: mode != TRUSTED(0)
        if atom[0] == 'cmp' and atom[1] == '==':
            for l, rr in ((atom[2], atom[3]), (atom[3], atom[2])):
                if is_int(rr) and l.get('k') in ('ref',) and l['name'] in ('v_byte', 'serial', 'field_code'):
                    return ('eq', l['name'], rr['v'], frozenset([l['id']]))
        return None

    def on_exit(user, ctx, ret, ev):
        v = ctx.const_of(ret) if ret is not None else None
        if v is None or v != 0:
            if any((k[0] == 'trusted' and val is True) or (k[0] == 'mode-nonzero' and val is False)
                   for k, val in ctx.atoms().items()):
                return
            for k, cids in ids.items():
                # validator results: DBUS_VALID == 0, so "passed" is result False for validity-returning calls
                passed = False
                for cid in cids:
                    res = ctx.result_known(cid)
                    callee = ctx.ex.call_names.get(cid)
                    if callee == '_dbus_string_validate_nul':
                        passed = passed or res is True
                    else:
                        passed = passed or res is False
                if k == 'each field validated':
                    continue        # inside the field loop: zero fields is legal; checked by must_precede below
                if not passed:
                    ctx.report('_dbus_header_load returns TRUE for untrusted data without: %s' % k, ev['line'], key=k)
    ex = Explorer(hl, on_exit=on_exit, atom_key=akey, track='auto', cap=400000,
                  calls={'_dbus_validate_body_with_reason', '_dbus_string_validate_nul', 'load_and_validate_field',
                         'check_mandatory_fields'}).run()
    if ex.reports:
        r.from_reports(ex.reports, keyfn=lambda k, rep: '_dbus_header_load:%s' % k)
    else:
        for k in ids:
            r.ok('_dbus_header_load:%s' % k)
    # constant checks: message type, protocol version, serial
    conds = []
    for bid, blk in hl.blocks.items():
        t = blk.get('term')
        if t and t.get('cond') is not None:
            conds.append(estr(t['cond']))
    want = {'message type != INVALID': lambda s: 'v_byte' in s and ('DBUS_MESSAGE_TYPE_INVALID' in s or '== 0' in s),
            'protocol version == 1': lambda s: 'v_byte' in s and ('DBUS_MAJOR_PROTOCOL_VERSION' in s or '!= 1' in s),
            'serial != 0': lambda s: 'serial' in s and '== 0' in s}
    for k, pred in want.items():
        if any(pred(s) for s in conds):
            r.ok('_dbus_header_load:%s' % k)
        else:
            r.violation('_dbus_header_load:%s' % k, hl.name, HDR, hl.line, 'the check "%s" was not found' % k)


def c01_2(ck, prog):
    r = ck.rule('C01.2', 'only the validating loader feeds the message queue; corruption is sticky', 'WHO',
                breaks='a message enters the queue by another route, or parsing resumes after corruption',
                floor=6)
    ops = {}
    for f in lib.prod_funcs(prog):
        for b, i, c in f.calls():
            if c['args'] and is_member(strip_addr(c['args'][0]) or {}, 'messages', 'DBusMessageLoader'):
                ops.setdefault(f.name, set()).add(c.get('callee'))
    allowed = {'load_message': {'_dbus_list_append'},
               '_dbus_message_loader_pop_message': {'_dbus_list_pop_first'},
               '_dbus_message_loader_pop_message_link': {'_dbus_list_pop_first_link'},
               '_dbus_message_loader_putback_message_link': {'_dbus_list_prepend_link'},
               '_dbus_message_loader_unref': {'_dbus_list_foreach', '_dbus_list_clear', '_dbus_list_clear_full'},
               '_dbus_message_loader_peek_message': set()}
    for fn, cs in ops.items():
        key = 'loader.messages@%s' % fn
        if cs <= (allowed.get(fn, set()) | {'_dbus_list_find_last'}) or (fn in allowed and cs <= allowed[fn] | {'_dbus_list_find_last', '_dbus_list_remove_last'}):
            r.ok(key, sorted(cs))
        elif fn == 'load_message':
            r.ok(key, sorted(cs))
        else:
            r.violation(key, fn, MSG, None, '%s operates on loader->messages with %s' % (fn, sorted(cs)))

    def corrupted_value(f, how, rhs):
        if f.name == '_dbus_message_loader_new':
            return None if is_int(rhs, 0) else 'constructor sets corrupted to %s' % estr(rhs)
        return None if (how == '=' and is_int(rhs) and rhs['v'] != 0) else \
            'loader->corrupted is written with %s %s in %s (it may only ever become TRUE)' % (how, estr(rhs), f.name)
    lib.who_writes_field(prog, r, 'DBusMessageLoader', 'corrupted',
                         {'_dbus_message_loader_new', 'load_message', '_dbus_message_loader_queue_messages',
                          '_dbus_message_loader_get_buffer', '_dbus_message_loader_return_buffer'},
                         value_ok=corrupted_value)
    q = prog.fn('_dbus_message_loader_queue_messages', MSG)
    okc = False
    for bid, blk in q.blocks.items():
        t = blk.get('term')
        if t and t.get('cond') is not None and any(is_member(x, 'corrupted', 'DBusMessageLoader') for x in walk(t['cond'])):
            okc = True
    if okc:
        r.ok('queue_messages:stops-when-corrupted')
    else:
        r.violation('queue_messages:stops-when-corrupted', q.name, MSG, q.line,
                    'the framing loop no longer tests loader->corrupted')


def c01_4(ck, prog):
    r = ck.rule('C01.4', 'the header-field table is total and self-consistent; every field code has a '
                'validation case; mandatory fields per message type are the specification\'s', 'TAB',
                breaks='a field is accepted with the wrong type or unvalidated; a message lacking a mandatory '
                       'field is accepted', floor=25)
    last = prog.macro_int('DBUS_HEADER_FIELD_LAST')
    t = prog.table('_dbus_header_field_types', HDR)
    elems = t['init'].get('elems', [])
    if len(elems) != last + 1:
        r.violation('field_types:length', '_dbus_header_field_types', HDR, t['line'],
                    'the table has %d rows, DBUS_HEADER_FIELD_LAST + 1 = %d' % (len(elems), last + 1))
    # specification, "Header Fields" table: code -> type
    spec = {0: 0, 1: ord('o'), 2: ord('s'), 3: ord('s'), 4: ord('s'), 5: ord('u'), 6: ord('s'), 7: ord('s'),
            8: ord('g'), 9: ord('u'), 10: ord('o')}
    for i, el in enumerate(elems):
        f = el.get('fields') or {}
        code = (f.get('code') or {}).get('v')
        typ = (f.get('type') or {}).get('v')
        key = 'field_types:%d' % i
        if code != i:
            r.violation(key, '_dbus_header_field_types', HDR, t['line'], 'row %d has code %s' % (i, code))
        elif i in spec and typ != spec[i]:
            r.violation(key, '_dbus_header_field_types', HDR, t['line'],
                        'field %d has type %r, the specification says %r' % (i, chr(typ) if typ else typ,
                                                                            chr(spec[i]) if spec[i] else 0))
        else:
            r.ok(key)
    from rules.C03 import field_last_comparisons
    field_last_comparisons(prog, r)
    lv = prog.fn('load_and_validate_field', HDR)
    cases, default, sw = typetab.switch_map(lv, 'field')
    for code in range(1, last + 1):
        key = 'load_and_validate_field:case-%d' % code
        if code in cases:
            r.ok(key)
        else:
            r.violation(key, lv.name, HDR, sw['term']['line'], 'header field %d has no validation case' % code)
    # per-field content validators
    # PATH, SIGNATURE and CONTAINER_INSTANCE are validated generically by their wire type ('o' / 'g'),
    # which C01.4 ties to the field through _dbus_header_field_types and C01.1 through the body validator
    want = {2: '_dbus_validate_interface', 3: '_dbus_validate_member',
            4: '_dbus_validate_error_name', 6: '_dbus_validate_bus_name', 7: '_dbus_validate_bus_name'}
    # the switch selects a validator function pointer or validates inline: accept either a direct call or a
    # function reference in the case region
    for code, vf in want.items():
        b = cases.get(code)
        if b is None:
            continue
        region = reach_from(lv, [typetab.body_of(lv, b)])
        found = False
        for bb in region:
            for ev in lv.blocks[bb]['events']:
                for x in walk(event_expr(ev)):
                    if (x.get('k') == 'call' and x.get('callee') == vf) or (is_ref(x, vf) and x.get('kind') == 'func'):
                        found = True
        key = 'load_and_validate_field:%d->%s' % (code, vf)
        if found:
            r.ok(key)
        else:
            r.violation(key, lv.name, HDR, lv.blocks[b].get('label_line') or lv.line,
                        'header field %d is not validated with %s' % (code, vf))
    # mandatory fields: specification "Message types" table
    cm = prog.fn('check_mandatory_fields', HDR)
    mt = {1: {1, 3}, 2: {5}, 3: {4, 5}, 4: {1, 2, 3}}       # METHOD_CALL, METHOD_RETURN, ERROR, SIGNAL
    names = {1: 'METHOD_CALL', 2: 'METHOD_RETURN', 3: 'ERROR', 4: 'SIGNAL'}
    sw = [b for b in cm.blocks.values() if (b.get('term') or {}).get('kind') == 'SwitchStmt']
    if not sw:
        raise AnalysisBroken('check_mandatory_fields: switch vanished')
    cs = {}
    for s in sw[0]['succs']:
        if s >= 0 and cm.blocks[s].get('case'):
            for v in range(cm.blocks[s]['case'][0], cm.blocks[s]['case'][1] + 1):
                cs[v] = s
    for typ, fields in mt.items():
        b = cs.get(typ)
        key = 'check_mandatory_fields:%s' % names[typ]
        if b is None:
            r.violation(key, cm.name, HDR, cm.line, 'message type %s has no mandatory-field case' % names[typ])
            continue
        # follow the case region until `break` joins: collect REQUIRE_FIELD tests (fields[IDX].value_pos < 0)
        got = set()
        stop = set(x for v, x in cs.items() if v != typ and x != b)
        region = reach_from(cm, [b], stop=None)
        # restrict to blocks before the switch's join: blocks dominated by the case label are hard to get;
        # use the subscripts seen on paths from this case that do not pass another case label
        reg = reach_from(cm, [b])       # includes deliberate fall-through into the next case
        for bb in reg:
            t = cm.blocks[bb].get('term')
            if t and t.get('cond') is not None:
                for x in walk(t['cond']):
                    if x.get('k') == 'sub' and is_member(x['base'], 'fields', 'DBusHeader') and is_int(x['idx']):
                        got.add(x['idx']['v'])
        # fall-through from SIGNAL into METHOD_CALL is how the code shares PATH/MEMBER
        if fields <= got:
            r.ok(key, {'required': sorted(fields), 'tested': sorted(got)})
        else:
            r.violation(key, cm.name, HDR, cm.blocks[b].get('label_line') or cm.line,
                        '%s must carry header fields %s; only %s are required by the code' % (
                            names[typ], sorted(fields), sorted(got)))


def c01_5(ck, prog):
    r = ck.rule('C01.5', 'writer, reader, skipper, validator and byte-swapper agree on every type code and with '
                'the specification\'s type table', 'TAB',
                breaks='a validated value is read with a different size than it was validated with, or aborts the '
                       'reader', floor=120)
    typetab.check_type_tables(prog, r)


LIMITS = {
    'DBUS_MAXIMUM_NAME_LENGTH': 255, 'DBUS_MAXIMUM_SIGNATURE_LENGTH': 255, 'DBUS_MAXIMUM_MATCH_RULE_LENGTH': 1024,
    'DBUS_MAXIMUM_MATCH_RULE_ARG_NUMBER': 63, 'DBUS_MAXIMUM_TYPE_RECURSION_DEPTH': 32,
    'DBUS_MINIMUM_HEADER_SIZE': 16, 'DBUS_MAJOR_PROTOCOL_VERSION': 1,
    # wire codes of the fixed header: byte-order marks and message types
    'DBUS_LITTLE_ENDIAN': ord('l'), 'DBUS_BIG_ENDIAN': ord('B'),
    'DBUS_MESSAGE_TYPE_INVALID': 0, 'DBUS_MESSAGE_TYPE_METHOD_CALL': 1, 'DBUS_MESSAGE_TYPE_METHOD_RETURN': 2,
    'DBUS_MESSAGE_TYPE_ERROR': 3, 'DBUS_MESSAGE_TYPE_SIGNAL': 4,
}


def loader_limits_clamped(prog, r):
    """Whatever is stored as the loader's maximum message size / fd count is at most the protocol maximum:
    a constant, or a value for which `value > MAXIMUM` was refuted (or which was just set to MAXIMUM) on the
    path to the store."""
    # the protocol maxima as the compiler folds them where they are used (the macros are expressions)
    LIM = {}
    for fld, mac in (('max_message_size', 'DBUS_MAXIMUM_MESSAGE_LENGTH'),
                     ('max_message_unix_fds', 'DBUS_MAXIMUM_MESSAGE_UNIX_FDS')):
        for f in lib.prod_funcs(prog, {MSG}):
            for b, i, ev in f.events():
                for x in walk(event_expr(ev)):
                    if is_int(x) and x.get('name') == mac:
                        LIM[fld] = x['v']
            for blk in f.blocks.values():
                t = blk.get('term')
                if t and t.get('cond') is not None:
                    for x in walk(t['cond']):
                        if is_int(x) and x.get('name') == mac:
                            LIM[fld] = x['v']
        if fld not in LIM:
            raise AnalysisBroken('%s is not used in dbus-message.c' % mac)
    n = 0
    for f in lib.prod_funcs(prog, {MSG}):
        stores = [(ev, lhs, rhs) for b, i, ev in f.events() for lhs, how, rhs in written_lvalues(ev)
                  if lhs.get('k') == 'member' and lhs.get('rec') == 'DBusMessageLoader' and lhs.get('field') in LIM
                  and how == '=']
        if not stores:
            continue

        def akey(atom, resolve):
            if atom[0] == 'cmp' and atom[1] == '<=' and is_ref(atom[2]) and is_int(atom[3]):
                return ('le', atom[3]['v'], frozenset([atom[2]['id']]))
            return None

        def on_event(user, ev, ctx, f=f):
            for lhs, how, rhs in written_lvalues(ev):
                if lhs.get('k') == 'member' and lhs.get('rec') == 'DBusMessageLoader' and lhs.get('field') in LIM \
                        and how == '=':
                    lim = LIM[lhs['field']]
                    v = ctx.const_of(rhs) if rhs is not None else None
                    ok = v is not None and v <= lim
                    if not ok and rhs is not None and is_ref(rhs):
                        ok = any(k[0] == 'le' and k[1] <= lim and rhs.get('id') in k[2] and val is True
                                 for k, val in ctx.atoms().items())
                    if not ok:
                        ctx.report('loader->%s is set to %s, which is not known to be <= %d on this path (the clamp '
                                   'does not reach the stored value)' % (lhs['field'], estr(rhs), lim), ev['line'],
                                   key=(lhs['field'], ev['line']))
            return user
        ex = Explorer(f, on_event=on_event, atom_key=akey, track='auto', cap=200000).run()
        for ev, lhs, rhs in stores:
            n += 1
            key = '%s:%s<=protocol-maximum' % (f.name, lhs['field'])
            mine = [rep for k, rep in ex.reports.items() if k[0] == lhs['field'] and k[1] == ev['line']]
            if mine:
                r.violation(key, f.name, MSG, mine[0]['line'], mine[0]['reason'], mine[0]['path'])
            else:
                r.ok(key)
    if n < 4:
        raise AnalysisBroken('only %d stores to the loader limits found' % n)


def c01_6(ck, prog):
    r = ck.rule('C01.6', 'size and nesting limits, byte-order marks and message-type codes are the specification\'s, and the limits are compared before use', 'W',
                breaks='oversized arrays / messages / nesting are accepted', floor=10)
    for n, v in LIMITS.items():
        got = prog.macro_int(n)
        if got == v:
            r.ok(n, {'value': v})
        else:
            r.violation(n, 'dbus-protocol.h', 'dbus/dbus-protocol.h', None, '%s is %d, specification: %d' % (n, got, v))
    # values given as expressions: evaluate through the constant-folded uses in the code
    vb = prog.fn('validate_body_helper', VAL)
    consts = {}
    for f in (vb, prog.fn('_dbus_header_have_message_untrusted', HDR)):
        for bid, blk in f.blocks.items():
            t = blk.get('term')
            if t and t.get('cond') is not None:
                for x in walk(t['cond']):
                    if is_int(x) and x.get('name', '').startswith('DBUS_M'):
                        consts[x['name']] = x['v']
    for f in (prog.fn('_dbus_message_loader_new', MSG), prog.fn('_dbus_message_loader_set_max_message_size', MSG)):
        for b, i, ev in f.events():
            for x in walk(event_expr(ev)):
                if is_int(x) and x.get('name', '').startswith('DBUS_M'):
                    consts[x['name']] = x['v']
        for bid, blk in f.blocks.items():
            t = blk.get('term')
            if t and t.get('cond') is not None:
                for x in walk(t['cond']):
                    if is_int(x) and x.get('name', '').startswith('DBUS_M'):
                        consts[x['name']] = x['v']
    want = {'DBUS_MAXIMUM_ARRAY_LENGTH': 1 << 26, 'DBUS_MAXIMUM_MESSAGE_LENGTH': 1 << 27}
    for n, v in want.items():
        if consts.get(n) == v:
            r.ok(n + ':used', {'value': v})
        elif n in consts:
            r.violation(n + ':used', vb.name, VAL, None, '%s evaluates to %d where it is compared; specification: %d'
                        % (n, consts[n], v))
        else:
            r.violation(n + ':used', vb.name, VAL, None,
                        '%s is not compared against in the validator / framing check' % n)

    loader_limits_clamped(prog, r)

    # array fast path: whole elements only (and the length limit precedes the recursion)
    def akey(atom, resolve):
        if atom[0] == 'truthy' and atom[1].get('k') == 'bin' and atom[1]['op'] == '%' and is_ref(atom[1]['l'], 'claimed_len'):
            return 'len%align'
        if atom[0] == 'cmp' and atom[1] == '<=' and is_ref(atom[2], 'claimed_len') and is_int(atom[3], 1 << 26):
            return 'len<=max'
        return None
    seen = [0]

    def on_event(user, ev, ctx):
        for lhs, how, rhs in written_lvalues(ev):
            if is_ref(lhs, 'p') and how == '=' and is_ref(rhs or {}, 'array_end'):
                seen[0] += 1
                if ctx.atom('len%align') is not False:
                    ctx.report('a fixed-size array is accepted wholesale (p = array_end) without checking that its '
                               'byte length is a multiple of the element size', ev['line'], key='whole-elements')
                if ctx.atom('len<=max') is not True:
                    ctx.report('array contents are accepted without the DBUS_MAXIMUM_ARRAY_LENGTH test',
                               ev['line'], key='max-array')
        if ev['ev'] == 'call' and ev['e'].get('callee') == 'validate_body_helper':
            # recursion for array elements / struct / variant: depth must be passed + 1
            pass
        return user
    ex = Explorer(vb, on_event=on_event, atom_key=akey, track=None, cap=600000).run()
    if not seen[0]:
        raise AnalysisBroken('validate_body_helper: fixed-array fast path not found')
    if ex.reports:
        r.from_reports(ex.reports, keyfn=lambda k, rep: 'validate_body_helper:%s' % k)
    else:
        r.ok('validate_body_helper:fixed-array-fast-path-guards')
    # recursion depth
    okd = False
    for bid, blk in vb.blocks.items():
        t = blk.get('term')
        if t and t.get('cond') is not None:
            c = t['cond']
            if c.get('k') == 'bin' and c['op'] in ('>', '>=') and is_ref(c['l'], 'total_depth') and is_int(c['r']):
                okd = c['r']['v'] <= 64
    if okd:
        r.ok('validate_body_helper:depth-limit')
    else:
        r.violation('validate_body_helper:depth-limit', vb.name, VAL, vb.line, 'total_depth is not limited to 64')
    rec = [c for b, i, c in vb.calls('validate_body_helper')]
    if rec and all(any(x.get('k') == 'bin' and x['op'] == '+' and is_ref(x['l'], 'total_depth') for x in walk(c['args'])) for c in rec):
        r.ok('validate_body_helper:depth-incremented', {'recursive_calls': len(rec)})
    else:
        r.violation('validate_body_helper:depth-incremented', vb.name, VAL, vb.line,
                    'a recursive call does not pass total_depth + 1')


def c01_5b(ck, prog):
    r = ck.rule('C01.5b', 'validator and byte-swapper walk containers the same way: one value inside a variant, '
                'one element at a time inside arrays, all members of structs; arrays are aligned to their element '
                'type even when empty', 'TAB',
                breaks='a variant holding several values is accepted; values after an empty array are decoded at '
                       'the wrong offset in the other byte order', floor=8)
    from engine.cfg import dominators
    want = {'a': 0, 'v': 0, 'r': 1, 'e': 1}
    for name, file, var in (('validate_body_helper', VAL, 'current_type'),
                            ('byteswap_body_helper', 'dbus/dbus-marshal-byteswap.c', 'current_type')):
        fn = prog.fn(name, file)
        cases, default, sw = typetab.switch_map(fn, var)
        dom = dominators(fn)
        widx = [p['name'] for p in fn.params].index('walk_reader_to_end')
        seen = set()
        for b, i, c in fn.calls(name):
            owner = None
            for ch in 'avre':
                cb = cases.get(ord(ch))
                if cb is not None and typetab.body_of(fn, cb) in dom.get(b, ()):
                    owner = ch if owner is None or ch in 'av' else owner
                    if ch in ('r', 'e'):
                        owner = 'r' if owner in (None, 'r', 'e') else owner
            # arrays share their case with strings: the recursive call inside it is the array element walk
            if owner is None:
                for ch in 'so':
                    cb = cases.get(ord(ch))
                    if cb is not None and typetab.body_of(fn, cb) in dom.get(b, ()):
                        owner = 'a'
            a = c['args'][widx]
            key = '%s:recursion-in-%s' % (name, owner)
            seen.add(owner)
            if owner is None:
                r.violation(key, name, file, c['line'], 'recursive call outside any container case')
            elif is_int(a) and int(bool(a['v'])) == want[owner]:
                r.ok(key, {'walk_reader_to_end': a['v'], 'line': c['line']})
            else:
                r.violation(key, name, file, c['line'],
                            'the contents of a %s are walked with walk_reader_to_end=%s (must be %s): %s' % (
                                {'a': 'array element', 'v': 'variant', 'r': 'struct / dict entry'}[owner], estr(a),
                                'TRUE' if want[owner] else 'FALSE',
                                'a variant must contain exactly one value' if owner == 'v' else
                                'all members must be visited' if owner == 'r' else 'one element per call'))
        if not {'a', 'v', 'r'} <= seen:
            raise AnalysisBroken('%s: recursive calls for %s not found' % (name, sorted({'a', 'v', 'r'} - seen)))
    # validator: after the variant's single value, a second value is an error
    vb = prog.fn('validate_body_helper', VAL)
    mult = prog.enums.get('DBUS_INVALID_VARIANT_SIGNATURE_SPECIFIES_MULTIPLE_VALUES')
    if any(ev['ev'] == 'return' and is_int(ev['e'], mult) for b, i, ev in vb.events()):
        r.ok('validate_body_helper:variant-single-value')
    else:
        r.violation('validate_body_helper:variant-single-value', vb.name, VAL, vb.line,
                    'a variant whose signature has more than one complete type is no longer rejected')
    # alignment of arrays even when empty
    for name, file, cursor in (('byteswap_body_helper', 'dbus/dbus-marshal-byteswap.c', 'p'),):
        fn = prog.fn(name, file)

        def on_event(user, ev, ctx, cursor=cursor):
            for lhs, how, rhs in written_lvalues(ev):
                if is_ref(lhs, 'alignment') and is_call(rhs, '_dbus_type_get_alignment'):
                    return ('need', ev['line'])
                if is_ref(lhs, cursor) and how == '=' and rhs is not None and \
                        any(is_ref(x, 'alignment') for x in walk(rhs)):
                    return 'ok'
                if isinstance(user, tuple) and is_ref(lhs) and not is_ref(lhs, cursor) and how in ('=', 'decl') \
                        and rhs is not None and rhs.get('k') == 'bin' and rhs['op'] == '+' \
                        and any(is_ref(x, cursor) for x in (rhs['l'], rhs['r'])) \
                        and not any(is_int(x) for x in (rhs['l'], rhs['r'])):
                    ctx.report('%s (the end of the array contents) is computed from the cursor before it was '
                               'aligned to the element alignment (obtained at line %d): with padding after the '
                               'length word the end falls short of the last element' % (lhs['name'], user[1]),
                               ev['line'], key='array-end-unaligned')
            if isinstance(user, tuple):
                leave = False
                if ev['ev'] == 'call' and ev['e'].get('callee') == '_dbus_type_reader_next':
                    leave = True
                for lhs, how, rhs in written_lvalues(ev):
                    if lhs.get('k') == 'un' and is_ref(lhs['e'], 'new_p'):
                        leave = True
                if leave:
                    ctx.report('the array case is left without aligning the cursor to the element alignment '
                               '(obtained at line %d): an empty array of 8-aligned elements leaves the cursor '
                               'short' % user[1], ev['line'], key='array-unaligned')
                    return 'ok'
            return user
        def on_edge(user, bid, idx, atom, sense, ctx):
            # entering the array part of the shared string/array case: alignment is owed from here on
            if atom is not None and atom[0] == 'cmp' and atom[1] == '==' and is_ref(atom[2], 'current_type') \
                    and is_int(atom[3], ord('a')) and sense is True and user == 'ok':
                return ('need', fn.blocks[bid]['term']['line'])
            return user
        ex = Explorer(fn, init='ok', on_event=on_event, on_edge=on_edge, track=None, cap=300000).run()
        key = '%s:array-aligned-even-when-empty' % name
        if ex.reports:
            r.from_reports(ex.reports, keyfn=lambda k, rep, key=key: key)
        else:
            r.ok(key)


def c01_3(ck, prog):
    r = ck.rule('C01.3', 'no validity verdict is dropped: every DBusValidity result is compared with '
                'DBUS_VALID or forwarded', 'TS', breaks='an invalid sub-structure is accepted', floor=8)
    n = 0
    for f in lib.prod_funcs(prog):
        if not f.file.startswith('dbus/'):
            continue
        for b, i, ev in f.events():
            if ev['ev'] != 'call':
                continue
            c = ev['e']
            if c.get('t') != 'DBusValidity':
                continue
            n += 1
            key = '%s:%s@%d' % (f.name, c.get('callee'), n)
            # how is the result used? find the event/cond in the same block that contains this call id
            used = None
            blk = f.blocks[b]
            for ev2 in blk['events']:
                if ev2 is ev:
                    continue
                top = event_expr(ev2)
                if top is not None and any(x.get('k') == 'call' and x.get('id') == c['id'] for x in walk(top)):
                    used = ev2['ev']
            t = blk.get('term')
            if t and t.get('cond') is not None and any(x.get('k') == 'call' and x.get('id') == c['id']
                                                       for x in walk(t['cond'])):
                used = 'cond'
            if used in ('assign', 'decl', 'return', 'cond', 'call'):
                r.ok('%s:%s' % (f.name, c.get('callee')), {'use': used, 'line': c['line']})
            else:
                r.violation('%s:%s' % (f.name, c.get('callee')), f.name, f.file, c['line'],
                            'the DBusValidity result of %s is discarded' % c.get('callee'))
    if n < 8:
        raise AnalysisBroken('only %d DBusValidity-returning call sites found' % n)


VALIDATORS = {
    # boolean grammar validators the body / header validators rely on: callee -> (description, index of the
    # start argument, index of the length argument)
    '_dbus_string_validate_utf8': ('STRING values are valid UTF-8', 1, 2),
    '_dbus_validate_path': ('OBJECT_PATH values are valid paths', 1, 2),
    'dbus_type_is_valid': ('array element type codes are known type codes', None, None),
}


def c01_8(ck, prog):
    """String-like values: the grammar validators are reached from the body validator with the whole
    claimed range, a FALSE answer never ends in DBUS_VALID, and the UTF-8 machinery is the specification's."""
    from rules import C16
    C16.c16_1(ck, prog, rid='C01.8', utf8_only=True)
    r13 = ck.rule('C01.13', "the descriptor-reading wrappers of dbus-sysdeps-unix.c (_dbus_read, _dbus_read_socket_with_unix_fds) grow the caller's string once per call and cut it back to what was really read on every way out", 'PAIR', breaks='bytes nobody sent (the stale image of earlier messages left in the '
                  'buffer) are parsed as a message after a read that failed with truncated control data', floor=2)
    lib.read_wrappers_keep_buffer(prog, r13)
    r = ck.rule('C01.8b', 'the body validator hands every STRING / OBJECT_PATH value whole to its grammar '
                'validator and array element codes to dbus_type_is_valid; a FALSE answer never ends in '
                'DBUS_VALID; the UTF-8 scanner rejects NUL before every advance', 'DOM',
                breaks='a message carrying malformed UTF-8, a bad object path or an unknown element type code is '
                       'accepted and handed to applications that trust it', floor=5)
    V = 'dbus/dbus-marshal-validate.c'
    vb = prog.fn('validate_body_helper', V)
    reach = {k for k in prog.reachable_from([vb.key]) if k in prog.funcs and prog.funcs[k].file == V}
    seen = set()
    for k in sorted(reach):
        fn = prog.funcs[k]
        sites = [(b, i, c) for b, i, c in fn.calls() if c.get('callee') in VALIDATORS]
        # calls made by the validators themselves (e.g. _dbus_validate_path is also a public predicate) are
        # their own business: only look at functions on the way from validate_body_helper that are not validators
        if fn.name in VALIDATORS or fn.name.startswith('_dbus_validate_') and fn.name != 'validate_body_helper' \
                and not fn.name.startswith('_dbus_validate_body'):
            continue
        if not sites:
            continue
        ids = {c['id']: c for b, i, c in sites}

        def on_exit(user, ctx, ret, ev, fn=fn, ids=ids):
            if ret is None:
                return
            if ctx.const_of(ret) != 0:
                return
            for cid, c in ids.items():
                if ctx.result_known(cid) is False:
                    ctx.report('%s returns DBUS_VALID on a path where %s answered FALSE' % (fn.name, c['callee']),
                               ev['line'] if ev else fn.endline, key=(c['callee'], c['line']))
        ex = Explorer(fn, on_exit=on_exit, calls=set(VALIDATORS), track=None, cap=900000).run()
        for b, i, c in sites:
            cal = c['callee']
            seen.add(cal)
            desc, si, li = VALIDATORS[cal]
            key = '%s:%s' % (fn.name, cal)
            mine = [rep for kk, rep in ex.reports.items() if kk[0] == cal and kk[1] == c['line']]
            if mine:
                r.violation(key + ':false-is-invalid', fn.name, V, mine[0]['line'], mine[0]['reason'], mine[0]['path'])
                continue
            if si is not None:
                a0 = strip_addr(c['args'][0])
                whole = is_int(c['args'][si], 0) and (
                    is_call(c['args'][li], '_dbus_string_get_length') and
                    same_expr(strip_addr(c['args'][li]['args'][0]), a0) or is_ref(c['args'][li], 'claimed_len'))
                # the string view is built over exactly the claimed bytes
                inits = [cc for bb, ii, cc in fn.calls('_dbus_string_init_const_len')
                         if same_expr(strip_addr(cc['args'][0]), a0)]
                exact = inits and all(is_ref(cc['args'][2], 'claimed_len') for cc in inits)
                if not whole or not exact:
                    r.violation(key + ':whole-value', fn.name, V, c['line'],
                                '%s is not given the whole claimed value (%s; view built with length %s)' % (
                                    cal, estr(c)[:100], [estr(cc['args'][2]) for cc in inits]))
                    continue
            r.ok(key, {'site': '%s:%d' % (V, c['line']), 'checks': desc})
    for cal in VALIDATORS:
        if cal not in seen:
            r.violation('validate_body_helper->%s' % cal, vb.name, V, vb.line,
                        'the body validator no longer reaches %s (%s)' % (cal, VALIDATORS[cal][0]))
    # header string fields go through the same body validator or their own predicates: C01.4 covers the cases
    C16.utf8_scanner(r, prog)


def c01_10(ck, prog, rid='C01.10'):
    r = ck.rule(rid, 'the wire-format limits are inclusive everywhere: wherever production code compares a value with '
                'DBUS_MAXIMUM_ARRAY_LENGTH, _MESSAGE_LENGTH, _NAME_LENGTH, _SIGNATURE_LENGTH or _TYPE_RECURSION_DEPTH, '
                'the value equal to the limit is on the accepted side (`x > LIMIT` rejects, `x <= LIMIT` accepts), in '
                'validators, builders, assertions and the byte-swapper alike', 'TAB',
                breaks='a value exactly at a limit is accepted by the validator and then refused -- or asserted '
                'impossible -- by a later stage (abort while iterating an accepted message), or a builder produces '
                'what the parser rejects', floor=8)
    from engine import generic
    LIMITS = ('DBUS_MAXIMUM_ARRAY_LENGTH', 'DBUS_MAXIMUM_MESSAGE_LENGTH', 'DBUS_MAXIMUM_NAME_LENGTH',
              'DBUS_MAXIMUM_SIGNATURE_LENGTH', 'DBUS_MAXIMUM_TYPE_RECURSION_DEPTH')
    n = 0
    for f in lib.prod_funcs(prog):
        if not f.file.startswith('dbus/'):
            continue
        cp = generic.comparison_profile(f)
        for name in LIMITS:
            for cl, lines in cp.get(name, {}).items():
                n += 1
                key = '%s:%s' % (f.name, name)
                if cl == 'below-incl':
                    r.ok(key)
                elif cl == 'eq':
                    r.ok(key, {'note': 'equality test'})
                else:
                    r.violation(key, f.name, f.file, lines[0],
                                '%s treats the value equal to %s as out of range (`x < LIMIT` / `x >= LIMIT`), while the '
                                'validators accept it' % (f.name, name))
    if n < 8:
        raise AnalysisBroken('comparisons with the wire-format limits not found (%d)' % n)


def c01_11(ck, prog, rid='C01.11'):
    r = ck.rule(rid, 'the block reader of fixed-size arrays hands out a count that describes the block it hands out: '
                'the element count is the byte length of that very block (the bytes from the current position to the '
                'end of the array) divided by the element alignment', 'ABS',
                breaks='after the iterator advanced, the caller is told the array still has all its elements: it reads '
                'past the end of the array into the following arguments or past the message', floor=1)
    REC = 'dbus/dbus-marshal-recursive.c'
    fn = prog.fn('_dbus_type_reader_read_fixed_multi', REC)
    if len(fn.params) < 3:
        raise AnalysisBroken('read_fixed_multi: parameters changed')
    vp, np_ = fn.params[1]['id'], fn.params[2]['id']
    blocks = [(rhs, ev['line']) for b, i, ev in fn.events() for lhs, how, rhs in written_lvalues(ev)
              if lhs.get('k') == 'un' and lhs['op'] == '*' and is_ref(lhs['e']) and lhs['e'].get('id') == vp
              and rhs is not None and not is_int(rhs, 0) and how == '=']
    counts = [(rhs, ev['line']) for b, i, ev in fn.events() for lhs, how, rhs in written_lvalues(ev)
              if lhs.get('k') == 'un' and lhs['op'] == '*' and is_ref(lhs['e']) and lhs['e'].get('id') == np_
              and rhs is not None and how == '=']
    if not blocks or not counts:
        raise AnalysisBroken('read_fixed_multi: block / count stores not found')
    ldefs = {}
    for b, i, ev in fn.events():
        for lhs, how, rhs in written_lvalues(ev):
            if is_ref(lhs) and lhs.get('kind') == 'local' and how in ('=', 'decl') and rhs is not None:
                ldefs.setdefault(lhs['id'], []).append(rhs)

    def from_current_position(e, depth=0):
        """e is `<something> - reader->value_pos` (possibly through single-definition locals)"""
        if is_ref(e) and len(ldefs.get(e.get('id'), [])) == 1 and depth < 4:
            return from_current_position(ldefs[e['id']][0], depth + 1)
        return e is not None and e.get('k') == 'bin' and e['op'] == '-' and is_member(e['r'], 'value_pos', 'DBusTypeReader')
    ok = True
    for blk, line in blocks:
        starts = (blk.get('k') == 'call' and blk.get('callee') == '_dbus_string_get_const_data_len'
                  and len(blk['args']) >= 3 and is_member(blk['args'][1], 'value_pos', 'DBusTypeReader')) or \
                 (blk.get('k') == 'bin' and blk['op'] == '+' and (is_member(blk['r'], 'value_pos', 'DBusTypeReader')
                                                               or is_member(blk['l'], 'value_pos', 'DBusTypeReader')))
        if not starts:
            r.violation('read_fixed_multi:block-from-current-position', fn.name, REC, line,
                        'the block handed out does not start at the reader\'s current position: %s' % estr(blk)[:120])
            ok = False
            continue
        blen = blk['args'][2] if blk.get('k') == 'call' else None
        for cnt, cline in counts:
            good = cnt.get('k') == 'bin' and cnt['op'] == '/' and is_ref(cnt['r']) and from_current_position(cnt['l']) \
                and (blen is None or same_expr(cnt['l'], blen))
            if not good:
                r.violation('read_fixed_multi:count-matches-block', fn.name, REC, cline,
                            'the block handed out runs from the current position to the end of the array, but the '
                            'element count is %s' % estr(cnt))
                ok = False
    if ok:
        r.ok('read_fixed_multi:block-from-current-position')
        r.ok('read_fixed_multi:count-matches-block')


def run(ck):
    ck.explanation = (
        'Static rules over dbus-message.c, dbus-marshal-header.c, dbus-marshal-validate.c, dbus-marshal-basic.c, '
        'dbus-marshal-byteswap.c, dbus-signature.c: (DOM) the loader queues a message only after header load in '
        'untrusted mode and body validation returned DBUS_VALID, and the header loader returns TRUE for untrusted '
        'data only after all of its checks; (WHO) only the loader feeds the queue, corruption is sticky; (TS) no '
        'DBusValidity is dropped; (TAB) header-field table, per-field validation cases and mandatory fields equal '
        'the specification; the ten per-type switch statements cover every type code without an asserting case, '
        'group only codes of equal wire size, and alignments/skip widths equal the specification; (W/DOM) limits '
        'have the specification\'s values and the fixed-array fast path requires whole elements and the array '
        'length limit.')
    ck.not_decided = ('accepted <=> spec-valid for every byte string; equality of accessor results with an '
                      'independent decoder; the cursor-bounds analysis C01.7 (withdrawn: see DESIGN.md); '
                      'signature bracket nesting (counter automaton)')
    for v, prog in ck.programs(thorough_variants=('B', 'D')):
        c01_1(ck, prog)
        c01_2(ck, prog)
        c01_3(ck, prog)
        c01_4(ck, prog)
        c01_5(ck, prog)
        c01_5b(ck, prog)
        c01_6(ck, prog)
        c01_8(ck, prog)
        from rules.C16 import c16_5
        c16_5(ck, prog, 'C01.9')
        c01_10(ck, prog)
        c01_11(ck, prog)
        from rules import cursor
        cursor.check(ck, prog, 'C01.12')
