"""C05 - unicast messages reach exactly the current owner, once, in order.
DESIGN.md C05.1 - C05.4."""
from engine.cfg import (Explorer, estr, is_call, is_int, is_member, is_ref, strip_addr, walk,
                        written_lvalues, back_edges, dominators)
from engine.facts import AnalysisBroken
from engine import lib
from rules.C03 import ROUTING_SINKS


def c05_1(ck, prog):
    r = ck.rule('C05.1', 'the recipient bus_dispatch routes to is the primary owner looked up from the '
                'message\'s own (re-fetched) destination', 'TS',
                breaks='a unicast message is delivered to a connection that does not own the name', floor=3)
    fn = prog.fn('bus_dispatch', 'bus/dispatch.c')
    id2call = {c['id']: c for b, i, c in fn.calls()}
    nuse = [0]
    nmatch = [0]

    # user state: (stale, looked_up) -- stale: service_name was fetched before the
    # last header-moving call
    def on_event(user, ev, ctx):
        stale, svc_from = user
        if ev['ev'] == 'call':
            c = ev['e']
            cal = c.get('callee')
            if cal in ('dbus_message_set_sender', '_dbus_message_remove_unknown_fields',
                       'dbus_message_set_container_instance') and lib.arg_is_param(c, 0, 'message'):
                stale = True
            # uses of service_name as an argument
            for a in c['args']:
                if is_ref(a, 'service_name'):
                    nuse[0] += 1
                    if stale and cal not in ('_dbus_verbose_real',):
                        ctx.report('service_name (fetched before a header edit that may reallocate the '
                                   'header) is passed to %s' % cal, c['line'], key=('stale', cal))
            if cal == '_dbus_string_init_const' and is_ref(strip_addr(c['args'][0]) or {}, 'service_string'):
                svc_from = 'service_name' if is_ref(c['args'][1], 'service_name') else estr(c['args'][1])
            if cal == 'bus_registry_lookup':
                a = strip_addr(c['args'][1])
                if not (is_ref(a or {}, 'service_string') and svc_from == 'service_name'):
                    ctx.report('registry lookup uses %s (initialised from %s), not the message destination'
                               % (estr(c['args'][1]), svc_from), c['line'], key=('lookup',))
            if cal == 'bus_dispatch_matches':
                nmatch[0] += 1
                a = c['args'][2]
                if not is_ref(a, 'addressed_recipient'):
                    ctx.report('bus_dispatch_matches gets %s as addressed recipient' % estr(a), c['line'],
                               key=('arg',))
                else:
                    v = ctx.var(a)
                    if v and v[0] == 'c' and v[1] == 0:
                        pass
                    elif v and v[0] == 'call':
                        oc = id2call[v[1]]
                        okc = oc.get('callee') == 'bus_service_get_primary_owners_connection'
                        if okc:
                            sv = ctx.origin_call(oc['args'][0])
                            sc = id2call.get(sv[0]) if sv else None
                            okc = sc is not None and sc.get('callee') == 'bus_registry_lookup'
                        if not okc:
                            ctx.report('addressed_recipient comes from %s, not from the primary owner of the '
                                       'looked-up service' % estr(oc), c['line'], key=('origin',))
                    else:
                        ctx.report('addressed_recipient has unknown origin %s' % (v,), c['line'], key=('origin?',))
        for lhs, how, rhs in written_lvalues(ev):
            if is_ref(lhs, 'service_name') and how in ('=', 'decl'):
                if rhs is None:
                    continue
                if is_call(rhs, 'dbus_message_get_destination') and lib.arg_is_param(rhs, 0, 'message'):
                    stale = False
                else:
                    ctx.report('service_name assigned from %s' % estr(rhs), ev['line'], key=('assign',))
        return (stale, svc_from)

    ex = Explorer(fn, init=(False, None), on_event=on_event, track={'addressed_recipient', 'service'},
                  calls={'bus_registry_lookup'}).run()
    if not nmatch[0] or nuse[0] < 2:
        raise AnalysisBroken('bus_dispatch: anchors for C05.1 vanished (matches=%d, uses=%d)' % (nmatch[0], nuse[0]))
    if not ex.reports:
        r.ok('bus_dispatch:recipient-origin', {'states': ex.nstates})
        r.ok('bus_dispatch:service_name-not-stale', {'uses': nuse[0]})
        r.ok('bus_dispatch:lookup-of-own-destination')
    r.from_reports(ex.reports, keyfn=lambda k, rep: 'bus_dispatch:%s' % '/'.join(str(x) for x in k))
    # branch conditions on service_name while stale
    g = prog.fn('bus_service_get_primary_owners_connection', 'bus/services.c')
    if not g.calls('bus_service_get_primary_owner'):
        r.violation('primary_owners_connection', g.name, g.file, g.line,
                    'bus_service_get_primary_owners_connection no longer derives from the primary owner')
    po = prog.fn('bus_service_get_primary_owner', 'bus/services.c')
    if not po.calls('_dbus_list_get_first'):
        r.violation('primary_owner=head', po.name, po.file, po.line,
                    'the primary owner is no longer the head of service->owners')


def c05_2(ck, prog):
    r = ck.rule('C05.2', 'one staging to the addressee, behind the policy gate and the fd-capability test; '
                'the addressee is stamped so that match rules cannot deliver a second copy', 'DOM',
                breaks='duplicate delivery, or delivery that bypasses policy', floor=5)
    fn = prog.fn('bus_dispatch_matches', 'bus/dispatch.c')
    sends = [(b, i, c) for b, i, c in fn.calls('bus_transaction_send')
             if is_ref(c['args'][2], 'addressed_recipient')]
    key = 'bus_dispatch_matches:single-send'
    if len(sends) != 1:
        r.violation(key, fn.name, fn.file, fn.line,
                    '%d bus_transaction_send sites to addressed_recipient (expected exactly 1)' % len(sends))
    else:
        # not inside a loop
        b = sends[0][0]
        inloop = False
        for (src, dst) in back_edges(fn):
            # natural loop of back edge: blocks that can reach src without passing dst
            body = {dst}
            st = [src]
            preds = fn.preds()
            while st:
                x = st.pop()
                if x in body:
                    continue
                body.add(x)
                st.extend(preds[x])
            if b in body:
                inloop = True
        if inloop:
            r.violation(key, fn.name, fn.file, sends[0][2]['line'], 'the send to the addressee is inside a loop')
        else:
            r.ok(key, {'site': '%s:%d' % (fn.file, sends[0][2]['line'])})

    def sinks(ev, ctx):
        if ev['ev'] == 'call' and ev['e'].get('callee') == 'bus_transaction_send' \
                and is_ref(ev['e']['args'][2], 'addressed_recipient'):
            return 'bus_transaction_send(addressed_recipient)'
        return None
    gate = lib.Guard('policy gate(proposed=addressed_recipient)',
                     lambda c, ctx: c.get('callee') == 'bus_context_check_security_policy'
                     and is_ref(c['args'][3], 'addressed_recipient') and is_ref(c['args'][4], 'addressed_recipient')
                     and lib.arg_is_param(c, 5, 'message') and lib.arg_is_param(c, 2, 'sender'))
    lib.must_precede(fn, r, sinks, [gate])
    fd_gate(prog, r, fn, 'addressed_recipient', sinks)
    # send_one_message
    som = prog.fn('send_one_message', 'bus/dispatch.c')
    rcp = lib.recipient_param(som)

    def sinks2(ev, ctx):
        if ev['ev'] == 'call' and ev['e'].get('callee') == 'bus_transaction_send':
            if not is_ref(ev['e']['args'][2], rcp):
                return 'bus_transaction_send(%s)' % estr(ev['e']['args'][2])
            return 'bus_transaction_send(connection)'
        return None
    gate2 = lib.Guard('policy gate(proposed=connection)',
                      lambda c, ctx: c.get('callee') == 'bus_context_check_security_policy'
                      and is_ref(c['args'][4], rcp) and is_ref(c['args'][3], 'addressed_recipient')
                      and lib.arg_is_param(c, 5, 'message') and lib.arg_is_param(c, 2, 'sender'))
    lib.must_precede(som, r, sinks2, [gate2])
    fd_gate(prog, r, som, rcp, sinks2, label='connection')

    # stamps
    r2 = ck.rule('C05.2b', 'recipient collection: stamp incremented, addressee stamped, a connection is '
                 'appended only when its stamp was fresh and its rule matched', 'DOM', floor=4)
    gr = prog.fn('bus_matchmaker_get_recipients', 'bus/signals.c')

    def sinks3(ev, ctx):
        if ev['ev'] == 'call' and ev['e'].get('callee') == 'get_recipients_from_list':
            return 'get_recipients_from_list'
        return None
    inc = lib.Guard('bus_connections_increment_stamp', lambda c, ctx: c.get('callee') == 'bus_connections_increment_stamp'
                    and lib.arg_is_param(c, 0, 'connections'), untested=True)
    lib.must_precede(gr, r2, sinks3, [inc])
    # mark_stamp(addressed_recipient) before lists whenever addressed_recipient != NULL
    bad = []
    seen = [0]

    def on_event(user, ev, ctx):
        if ev['ev'] == 'call':
            c = ev['e']
            if c.get('callee') == 'bus_connections_increment_stamp':
                return 'inc'
            if c.get('callee') == 'bus_connection_mark_stamp' and lib.arg_is_param(c, 0, 'addressed_recipient'):
                if user != 'inc':
                    ctx.report('addressee stamped before the stamp was incremented', c['line'], key='order')
                return 'marked'
            if c.get('callee') == 'get_recipients_from_list':
                seen[0] += 1
                t = ctx.truth_of({'k': 'ref', 'name': 'addressed_recipient', 'kind': 'param',
                                  'id': gr.param('addressed_recipient')['id']})
                if t is not False and user != 'marked':
                    ctx.report('rule lists are scanned without having stamped a non-NULL addressee',
                               c['line'], key='unmarked')
        return user
    ex = Explorer(gr, init=None, on_event=on_event, track={'addressed_recipient'}).run()
    if not seen[0]:
        raise AnalysisBroken('get_recipients_from_list calls vanished')
    if ex.reports:
        r2.from_reports(ex.reports, keyfn=lambda k, rep: 'bus_matchmaker_get_recipients:%s' % k)
    else:
        r2.ok('bus_matchmaker_get_recipients:addressee-stamped')
    gl = prog.fn('get_recipients_from_list', 'bus/signals.c')

    def sinks4(ev, ctx):
        if ev['ev'] == 'call' and ev['e'].get('callee') in lib_list_ins() \
                and lib.arg_is_param(ev['e'], 0, 'recipients_p'):
            a = ev['e']['args'][1]
            if not is_member(a, 'matches_go_to', 'BusMatchRule'):
                return 'append(%s)' % estr(a)
            return 'append(rule->matches_go_to)'
        return None
    g1 = lib.Guard('bus_connection_mark_stamp(rule->matches_go_to)',
                   lambda c, ctx: c.get('callee') == 'bus_connection_mark_stamp'
                   and is_member(c['args'][0], 'matches_go_to', 'BusMatchRule'))
    g2 = lib.Guard('match_rule_matches(rule, sender, addressed_recipient, message)',
                   lambda c, ctx: c.get('callee') == 'match_rule_matches' and is_ref(c['args'][0], 'rule')
                   and lib.arg_is_param(c, 1, 'sender') and lib.arg_is_param(c, 2, 'addressed_recipient')
                   and lib.arg_is_param(c, 3, 'message'))
    n, ex = lib.must_precede(gl, r2, sinks4, [g1, g2])
    if n != 1:
        r2.violation('get_recipients_from_list:one-append', gl.name, gl.file, gl.line,
                     '%d append sites to the recipient list (expected 1)' % n)
    # mark_stamp semantics
    ms = prog.fn('bus_connection_mark_stamp', 'bus/connection.c')
    okm = [True]

    def on_exit(user, ctx, ret, ev):
        v = ctx.const_of(ret)
        if v is None:
            okm[0] = False
            ctx.report('mark_stamp returns a non-constant', ev['line'], key='nonconst')
        elif v != 0 and not user:
            ctx.report('returns TRUE without recording the current stamp', ev['line'], key='nostore')
        elif v == 0 and ctx.atom('stamp-eq') is not True:
            ctx.report('returns FALSE although the stamp was not current', ev['line'], key='falsefresh')

    def on_event2(user, ev, ctx):
        for lhs, how, rhs in written_lvalues(ev):
            if is_member(lhs, 'stamp', 'BusConnectionData') and how == '=' and is_member(rhs, 'stamp', 'BusConnections'):
                return True
        return user

    def atom_key(atom, resolve):
        if atom[0] == 'cmp' and atom[1] == '==':
            l, rr = atom[2], atom[3]
            if (is_member(l, 'stamp', 'BusConnectionData') and is_member(rr, 'stamp', 'BusConnections')) or \
                    (is_member(rr, 'stamp', 'BusConnectionData') and is_member(l, 'stamp', 'BusConnections')):
                return 'stamp-eq'
        return None
    ex = Explorer(ms, init=False, on_event=on_event2, on_exit=on_exit, atom_key=atom_key, track='auto').run()
    if ex.reports:
        r2.from_reports(ex.reports, keyfn=lambda k, rep: 'bus_connection_mark_stamp:%s' % k)
    else:
        r2.ok('bus_connection_mark_stamp:semantics')
    lib.who_writes_field(prog, r2, 'BusConnections', 'stamp', {'bus_connections_increment_stamp', 'bus_connections_new'})
    lib.who_writes_field(prog, r2, 'BusConnectionData', 'stamp', {'bus_connection_mark_stamp',
                                                                 'bus_connections_setup_connection'})


def lib_list_ins():
    return {'_dbus_list_append', '_dbus_list_prepend', '_dbus_list_append_link', '_dbus_list_prepend_link'}


def fd_gate(prog, r, fn, destvar, sinks, label=None):
    """bus_transaction_send to destvar is reached only if the message has no fds
    or the destination can take them."""
    contains = {c['id'] for b, i, c in fn.calls('dbus_message_contains_unix_fds')
                if lib.arg_is_param(c, 0, 'message')}
    can = {c['id'] for b, i, c in fn.calls('dbus_connection_can_send_type')
           if is_ref(c['args'][0], destvar) and is_int(c['args'][1], ord('h'))}
    key = '%s:fd-capability(%s)' % (fn.name, label or destvar)
    if not contains or not can:
        r.violation(key, fn.name, fn.file, fn.line,
                    'the test dbus_message_contains_unix_fds(message) && !dbus_connection_can_send_type(%s, '
                    'UNIX_FD) is missing' % destvar)
        return

    def on_event(user, ev, ctx):
        if sinks(ev, ctx):
            no_fds = any(ctx.result_known(c) is False for c in contains)
            can_take = any(ctx.result_known(c) is True for c in can)
            if not (no_fds or can_take):
                ctx.report('send reachable without (message has no fds || destination accepts fds)',
                           ev['line'], key='fd')
        return user
    ex = Explorer(fn, on_event=on_event, calls={'dbus_message_contains_unix_fds', 'dbus_connection_can_send_type'},
                  track='auto').run()
    if ex.reports:
        r.from_reports(ex.reports, keyfn=lambda k, rep: key)
    else:
        r.ok(key)


def c05_3(ck, prog):
    r = ck.rule('C05.3', 'once an error is set in bus_dispatch no delivery is staged; the error reply '
                'answers the original message', 'DOM', breaks='an undeliverable call is both answered with '
                'an error and delivered, or answered with the wrong serial', floor=3)
    fn = prog.fn('bus_dispatch', 'bus/dispatch.c')
    nset = [0]

    def on_event(user, ev, ctx):
        if ev['ev'] == 'call':
            c = ev['e']
            cal = c.get('callee')
            if cal in ('dbus_set_error', 'dbus_set_error_const') and is_ref(strip_addr(c['args'][0]) or {}, 'error'):
                nset[0] += 1
                return c['line']
            if user:
                idx = ROUTING_SINKS.get(cal)
                if idx is not None and lib.arg_is_param(c, idx, 'message'):
                    ctx.report('routing sink %s reached after an error was set at line %d' % (cal, user),
                               c['line'], key=('after-error', cal))
        return user
    ex = Explorer(fn, init=None, on_event=on_event, track=None).run()
    if nset[0] < 5:
        raise AnalysisBroken('bus_dispatch: only %d error-setting sites found' % nset[0])
    if ex.reports:
        r.from_reports(ex.reports, keyfn=lambda k, rep: 'bus_dispatch:%s' % '/'.join(map(str, k)))
    else:
        r.ok('bus_dispatch:no-sink-after-error', {'error_sites': nset[0]})
    # a failed gated call inside bus_dispatch_matches cannot have staged the send first (order)
    # error reply is built from the in_reply_to parameter, which bus_dispatch passes as `message`
    er = prog.fn('bus_transaction_send_error_reply', 'bus/connection.c')
    okn = False
    for b, i, c in er.calls('dbus_message_new_error'):
        if lib.arg_is_param(c, 0, 'in_reply_to'):
            okn = True
    if okn:
        r.ok('bus_transaction_send_error_reply:reply-to-parameter')
    else:
        r.violation('bus_transaction_send_error_reply:reply-to-parameter', er.name, er.file, er.line,
                    'error reply is not built from the in_reply_to parameter')
    for b, i, c in fn.calls('bus_transaction_send_error_reply'):
        if lib.arg_is_param(c, 3, 'message') and lib.arg_is_param(c, 1, 'connection'):
            r.ok('bus_dispatch:error-reply(connection, message)')
        else:
            r.violation('bus_dispatch:error-reply(connection, message)', fn.name, fn.file, c['line'],
                        'error reply is addressed to %s about %s' % (estr(c['args'][1]), estr(c['args'][3])))
    # exactly one error: a refused call must not also have opened a reply slot (-> later NoReply)
    from rules.C09 import slot_opened_last
    slot_opened_last(prog, r)
    ne = prog.fn('dbus_message_new_error', 'dbus/dbus-message.c')
    okr = False
    for b, i, c in ne.calls('dbus_message_set_reply_serial'):
        a = c['args'][1]
        if is_call(a, 'dbus_message_get_serial') and lib.arg_is_param(a, 0, 'reply_to'):
            okr = True
    if okr:
        r.ok('dbus_message_new_error:reply_serial=serial(reply_to)')
    else:
        r.violation('dbus_message_new_error:reply_serial', ne.name, ne.file, ne.line,
                    'dbus_message_new_error does not set reply_serial from the serial of reply_to')


HEAD_INS = {'_dbus_list_prepend', '_dbus_list_prepend_link'}
TAIL_INS = {'_dbus_list_append', '_dbus_list_append_link'}
HEAD_READ = {'_dbus_list_get_first', '_dbus_list_get_first_link', '_dbus_list_pop_first', '_dbus_list_pop_first_link'}
TAIL_READ = {'_dbus_list_get_last', '_dbus_list_get_last_link', '_dbus_list_pop_last', '_dbus_list_pop_last_link'}
NEXT = {'_dbus_list_get_next_link'}
PREV = {'_dbus_list_get_prev_link'}

QUEUES = [
    # rec, field, insertion end, delivery functions (must read from the opposite end), put-back functions
    ('BusConnectionData', 'transaction_messages', 'head', {'connection_execute_transaction'}, set()),
    ('DBusConnection', 'outgoing_messages', 'head',
     {'_dbus_connection_get_message_to_send', '_dbus_connection_message_sent_unlocked'}, set()),
    ('DBusConnection', 'incoming_messages', 'tail',
     {'dbus_connection_borrow_message', '_dbus_connection_pop_message_link_unlocked',
      'dbus_connection_steal_borrowed_message'},
     {'_dbus_connection_putback_message_link_unlocked', 'dbus_connection_return_message',
      '_dbus_connection_failed_pop'}),
    ('DBusMessageLoader', 'messages', 'tail',
     {'_dbus_message_loader_pop_message', '_dbus_message_loader_pop_message_link',
      '_dbus_message_loader_peek_message'},
     {'_dbus_message_loader_putback_message_link'}),
    ('BusPendingActivation', 'entries', 'tail',
     {'bus_activation_send_pending_auto_activation_messages'}, set()),
]


def c05_4(ck, prog):
    r = ck.rule('C05.4', 'every message queue is filled at one end and drained from the other '
                '(transaction, outgoing, incoming, loader, pending activation)', 'TAB',
                breaks='messages between one sender and one recipient are reordered', floor=12)
    for rec, field, ins_end, delivery, putback in QUEUES:
        ins_ok = HEAD_INS if ins_end == 'head' else TAIL_INS
        ins_bad = TAIL_INS if ins_end == 'head' else HEAD_INS
        read_ok = TAIL_READ if ins_end == 'head' else HEAD_READ
        read_bad = HEAD_READ if ins_end == 'head' else TAIL_READ
        step_bad = NEXT if ins_end == 'head' else PREV
        n_ins = 0
        n_del = 0
        for f in lib.prod_funcs(prog):
            for b, i, c in f.calls():
                if not c['args']:
                    continue
                a0 = strip_addr(c['args'][0])
                if a0 is None or not is_member(a0, field, rec):
                    continue
                cal = c.get('callee')
                key = '%s.%s:%s@%s' % (rec, field, cal, f.name)
                if cal in ins_ok | ins_bad:
                    n_ins += 1
                    if f.name in putback:
                        if cal in ins_bad:
                            r.ok(key, 'put-back at the consumption end')
                        else:
                            r.violation(key, f.name, f.file, c['line'],
                                        'put-back function inserts at the production end (%s)' % cal)
                    elif cal in ins_ok:
                        r.ok(key, {'site': '%s:%d' % (f.file, c['line']), 'end': ins_end})
                    else:
                        r.violation(key, f.name, f.file, c['line'],
                                    '%s inserts into %s.%s at the wrong end (%s; queue is filled at the %s)'
                                    % (f.name, rec, field, cal, ins_end))
                elif f.name in delivery:
                    if cal in read_ok:
                        n_del += 1
                        r.ok(key)
                    elif cal in read_bad or cal in step_bad:
                        r.violation(key, f.name, f.file, c['line'],
                                    'delivery function %s reads %s.%s from the wrong end / direction (%s)'
                                    % (f.name, rec, field, cal))
        for d in delivery:
            if not prog.has_fn(d):
                raise AnalysisBroken('delivery function %s vanished' % d)
        if n_ins == 0 or n_del == 0:
            raise AnalysisBroken('queue %s.%s: %d insertions, %d delivery reads found' % (rec, field, n_ins, n_del))
    # loader peek reads the head without a list call
    pk = prog.fn('_dbus_message_loader_peek_message', 'dbus/dbus-message.c')


def run(ck):
    ck.explanation = (
        'Static rules over bus/dispatch.c, bus/signals.c, bus/connection.c, bus/services.c, dbus-connection.c, '
        'dbus-message.c, bus/activation.c: (TS) the recipient handed to bus_dispatch_matches is NULL or the '
        'primary owner of the service looked up from the re-fetched destination (no stale pointer use after a '
        'header edit); (DOM) exactly one staging to the addressee, outside any loop, behind the policy gate and '
        'the fd-capability test; the addressee is stamped and a connection is appended to the recipient list '
        'only on the fresh-stamp edge; (DOM) no routing sink after an error was set; (TAB) every message queue '
        'is filled at one end and drained from the other.')
    ck.not_decided = ('delivery under races with ownership change (runtime history); body/field integrity '
                      '(C12); match-rule evaluation (C07)')
    ck.level = 'other'
    for v, prog in ck.programs(thorough_variants=('B',)):
        c05_1(ck, prog)
        c05_2(ck, prog)
        c05_3(ck, prog)
        c05_4(ck, prog)
        r = ck.rule('C05.7', 'the bus state a message is routed by outlives every operation: the name registry, the '
                    'pending-activation table and the activation object are created once and released only by their '
                    'owners\' destructors', 'WHO',
                    breaks='after a reload (or any operation that recreated a container) a held or addressed message '
                    'is neither delivered nor answered', floor=4)
        lib.state_lifetime(prog, r, [('BusActivation', 'pending_activations'), ('BusContext', 'activation'),
                                     ('BusRegistry', 'service_hash'), ('BusContext', 'registry')])
        from rules import listshape
        r = ck.rule('C05.8', 'the list primitives behind every FIFO of the bus (outgoing queues, transactions, recipient '
                    'lists) keep the ring intact and insert at the position asked for (shape analysis shared with '
                    'C04.9)', 'ABS', breaks='messages are reordered or lost inside a queue', floor=5)
        listshape.check(prog, r)
        from rules import listops
        from rules.C10 import c10_12
        c10_12(ck, prog, 'C05.12')
        from rules.C12 import c12_2
        lib.shared_rule(ck, prog, 'C05.14', 'the destination a message is routed by is read from where it is: every header edit '
                        'the bus makes before routing (stripping unknown fields, stamping the sender) invalidates the cached '
                        'field positions before it returns success (shared with C12.2)', 'DOM', 'after an unknown field was '
                        'stripped the bus reads DESTINATION through a stale offset and delivers a unicast message to the owner '
                        'of whatever name lies there', 3, c12_2)
        from rules.C11 import c11_8
        c11_8(ck, prog, 'C05.13')
        rq = ck.rule('C05.11', 'the public list operations do what their names say (dbus/dbus-list.c; abstract interpretation of their CFG over every circular list of 0..3 links with equal and distinct data, every link / anchor / data argument, with and without memory for a new link): resulting order, return value, freed and detached links agree with the specification of append, prepend, insert_after, remove (first match), remove_last / find_last (last match), remove_link, clear, get/pop first/last (link), get_length, length_is_one', 'ABS', breaks='messages of one sender overtake each other: the outgoing queue is not first-in first-out when the primitive that takes from it returns another element', floor=15)
        listops.check(prog, rq)
        from rules.C06 import c06_10
        c06_10(ck, prog, 'C05.9')
        from rules.C09 import c09_8
        c09_8(ck, prog, 'C05.10')
