"""Region discipline of the grammar predicates (C16.6, shared as C01.12).

A small abstract interpretation over the explorer: for every byte cursor of a validator the state carries a lower
bound of `end - cursor` (how many bytes of the region are known to lie at or after the cursor).  Transfer functions:
`end = base + len` (with the lower bound known for `len`), cursor copies, `++` / `+= k`, and branch refinement on
`cursor (+ k) ==/!=/< end` and on `len == 0`.  Every read through a cursor (`*s`, `*(s + k)`, `s[k]`) must lie
strictly inside the region; every advance must stay at or before `end`.  "Cannot prove" is reported, never assumed.
Precondition taken from the functions' contract (asserted in the reference configuration): `len >= 0`."""
from engine.cfg import Explorer, estr, is_call, is_int, is_member, is_ref, walk, written_lvalues
from engine.facts import AnalysisBroken

VAL = 'dbus/dbus-marshal-validate.c'
FUNCS = ('_dbus_validate_path', '_dbus_validate_interface', '_dbus_validate_member', '_dbus_validate_bus_name_full')


def _offset(e):
    """cursor expression -> (var id, name, k) for `s`, `s + k`, `k + s`; else None"""
    while e is not None and e.get('k') in ('paren', 'cast'):
        e = e.get('e')
    if is_ref(e) and 'id' in e:
        return e['id'], e['name'], 0
    if e is not None and e.get('k') == 'bin' and e['op'] == '+':
        for a, b in ((e['l'], e['r']), (e['r'], e['l'])):
            if is_ref(a) and 'id' in a and is_int(b):
                return a['id'], a['name'], b['v']
    if e is not None and e.get('k') == 'bin' and e['op'] == '-' and is_ref(e['l']) and is_int(e['r']):
        return e['l']['id'], e['l']['name'], -e['r']['v']
    return None


def analyse(fn, r, tag):
    ptr_ids = set()
    for b, i, ev in fn.events():
        if ev['ev'] == 'decl' and '*' in (ev['var'].get('t') or '') and 'char' in (ev['var'].get('t') or ''):
            ptr_ids.add(ev['var']['id'])
    len_ids = {p['id'] for p in fn.params if p['name'] in ('len', 'length') or p.get('t') == 'int' and p is fn.params[-1]}
    if len(fn.params) >= 3:
        len_ids.add(fn.params[2]['id'])
    nread = [0]
    unsupported = []

    # user state: (lenlb, endid, frozenset((cursor id, lb)))
    def get(user, cid):
        for k, v in user[2]:
            if k == cid:
                return v
        return None

    def put(user, cid, v):
        d = dict(user[2])
        if v is None:
            d.pop(cid, None)
        else:
            d[cid] = min(v, 4)
        return (user[0], user[1], frozenset(d.items()))

    def check_read(user, e, ctx, line):
        o = _offset(e)
        if o is None or o[0] not in ptr_ids:
            return
        if o[0] == user[1]:
            ctx.report('the byte at the end of the region is read (*%s)' % o[1], line, key=('read-at-end', line))
            return
        nread[0] += 1
        lb = get(user, o[0])
        if o[2] < 0:
            return
        if lb is None or lb < o[2] + 1:
            ctx.report('%s is read while only %s byte(s) of the region are known to remain from %s: the predicate may '
                       'look at bytes outside the string it was asked about' % (
                           estr(e) if e.get('k') != 'ref' else '*' + o[1],
                           'no' if not lb else str(lb), o[1]), line, key=('read-outside', line))

    def on_event(user, ev, ctx):
        k = ev['ev']
        if k == 'deref':
            x = ev['e']
            if x.get('k') == 'un' and x['op'] == '*':
                check_read(user, x['e'], ctx, ev['line'])
            return user
        if k == 'sub':
            x = ev['e']
            if x.get('k') == 'sub' and is_ref(x['base']) and is_int(x['idx']):
                check_read(user, {'k': 'bin', 'op': '+', 'l': x['base'], 'r': x['idx']}, ctx, ev['line'])
            elif x.get('k') == 'sub' and is_ref(x['base']) and x['base'].get('id') in ptr_ids:
                unsupported.append('%s at line %d' % (estr(x), ev['line']))
            return user
        for lhs, how, rhs in written_lvalues(ev):
            lid = lhs.get('id') if (is_ref(lhs) or 'k' not in lhs) else None
            if lid is None or lid not in ptr_ids:
                continue
            if how in ('++', '--'):
                step = 1 if how == '++' else -1
            elif how in ('+=', '-=') and is_int(rhs):
                step = rhs['v'] if how == '+=' else -rhs['v']
            else:
                step = None
                if how in ('+=', '-='):
                    unsupported.append('%s %s %s at line %d' % (lhs.get('name'), how, estr(rhs), ev['line']))
            if step is not None:
                if lid == user[1]:
                    return put(user, lid, None)
                lb = get(user, lid)
                if step > 0:
                    if lb is None or lb < step:
                        ctx.report('%s is advanced by %d while only %s byte(s) are known to remain: it may pass the '
                                   'end of the region' % (lhs.get('name'), step, 'no' if not lb else lb), ev['line'],
                                   key=('advance-past-end', ev['line']))
                        return put(user, lid, 0)
                    return put(user, lid, lb - step)
                return put(user, lid, None if lb is None else lb - step)
            if how in ('=', 'decl') and rhs is not None:
                o = _offset(rhs)
                # end = base + len
                if rhs.get('k') == 'bin' and rhs['op'] == '+' and is_ref(rhs['l']) and rhs['l'].get('id') in ptr_ids \
                        and is_ref(rhs['r']) and rhs['r'].get('id') in len_ids:
                    base = rhs['l']['id']
                    u = (user[0], lid, user[2])
                    d = dict(u[2])
                    # every cursor that currently equals the base starts with lb = lower bound of len
                    for cid, v in list(d.items()):
                        if v == 'base:%d' % base or cid == base:
                            d[cid] = min(user[0], 4)
                    d[base] = min(user[0], 4)
                    return (u[0], u[1], frozenset(d.items()))
                if o is not None and o[0] in ptr_ids:
                    src = get(user, o[0])
                    if src is None:
                        return put(user, lid, None)
                    if isinstance(src, int):
                        return put(user, lid, max(src - o[2], 0) if o[2] >= 0 else src - o[2])
                    return put(user, lid, None)
                # a fresh base pointer: bound unknown until `end` is derived from it
                return put(user, lid, None)
            if how == '&arg':
                return put(user, lid, None)
        return user

    def on_edge(user, bid, idx, atom, sense, ctx):
        if atom is None:
            return user
        if atom[0] == 'truthy' and is_ref(atom[1]) and atom[1].get('id') in len_ids:
            return (max(user[0], 1), user[1], user[2]) if sense else user
        if atom[0] == 'cmp' and is_ref(atom[2]) and atom[2].get('id') in len_ids and is_int(atom[3]):
            # len == K / len < K / len <= K
            if atom[1] == '==' and sense:
                return (max(user[0], atom[3]['v']), user[1], user[2])
            if atom[1] == '<' and not sense:
                return (max(user[0], atom[3]['v']), user[1], user[2])
            if atom[1] == '<=' and not sense:
                return (max(user[0], atom[3]['v'] + 1), user[1], user[2])
            return user
        if atom[0] == 'cmp' and user[1] is not None:
            for a, b2, flipped in ((atom[2], atom[3], False), (atom[3], atom[2], True)):
                o = _offset(a)
                if o is None or o[0] not in ptr_ids or o[0] == user[1]:
                    continue
                if not (is_ref(b2) and b2.get('id') == user[1]):
                    continue
                lb = get(user, o[0])
                if lb is None:
                    continue
                k = o[2]
                if atom[1] == '==':
                    if sense:
                        return put(user, o[0], k) if lb <= k else 'INFEASIBLE'
                    if lb == k:
                        return put(user, o[0], k + 1)
                    return user
                if atom[1] == '<' and not flipped:
                    # s + k < end
                    if sense:
                        return put(user, o[0], max(lb, k + 1))
                    return user
                if atom[1] == '<=' and flipped:
                    # end <= s + k  is the negation of s + k < end
                    if not sense:
                        return put(user, o[0], max(lb, k + 1))
                    return user
        return user

    def edge(user, bid, idx, atom, sense, ctx):
        u = on_edge(user, bid, idx, atom, sense, ctx)
        if u == 'INFEASIBLE':
            from engine.cfg import INFEASIBLE
            return INFEASIBLE
        return u
    ex = Explorer(fn, init=(0, None, frozenset()), on_event=on_event, on_edge=edge, track={'_dbus_boolean_var_'}, cap=400000).run()
    if unsupported:
        r.note('%s: not analysable by this domain (%s); no verdict' % (fn.name, unsupported[0]))
        return False
    if nread[0] < 2:
        raise AnalysisBroken('%s: reads through a region cursor not found (%d)' % (fn.name, nread[0]))
    if ex.reports:
        r.from_reports(ex.reports, keyfn=lambda k, rep: '%s:%s@%s' % (tag, k[0], rep['line']))
    else:
        r.ok('%s:reads-inside-region' % tag, {'reads': nread[0]})
        r.ok('%s:cursor-never-passes-end' % tag)
    return True


def check(ck, prog, rid):
    r = ck.rule(rid, 'the name and path predicates look only at the bytes they were asked about: with `len >= 0`, every '
                'read through a cursor lies strictly inside [start, start + len) and no cursor is advanced beyond the '
                'end of that region (abstract interpretation of the lower bound of end - cursor, with branch '
                'refinement on cursor (+k) ==/!=/< end and len == 0)', 'ABS',
                breaks='the verdict on a name depends on the byte that follows it in the buffer (a header field inside '
                'a message, a substring of a match rule): the same string is accepted on one route and refused on '
                'another; with an empty string the first byte outside is read', floor=8)
    for name in FUNCS:
        if not analyse(prog.fn(name, VAL), r, name):
            raise AnalysisBroken('%s uses an access the region analysis cannot follow' % name)
    for name in ('_dbus_string_validate_ascii', '_dbus_string_validate_nul'):
        analyse(prog.fn(name, 'dbus/dbus-string.c'), r, name)
