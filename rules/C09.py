"""C09 - only the addressee of a pending call can answer it, once.
DESIGN.md C09.1 - C09.4."""
from engine.cfg import (Explorer, estr, is_call, is_int, is_member, is_ref, strip_addr, walk,
                        written_lvalues)
from engine.facts import AnalysisBroken
from engine import lib

GATE = 'bus_context_check_security_policy'


def triple_key(pairs):
    """atom_key recognising `pending-><field> == <param>` comparisons.
    pairs: field -> predicate(expr, resolve) for the other side."""
    def key(atom, resolve):
        if atom[0] != 'cmp' or atom[1] != '==':
            return None
        for l, r in ((atom[2], atom[3]), (atom[3], atom[2])):
            if is_member(l, None, 'BusPendingReply') and l['field'] in pairs:
                if pairs[l['field']](r, resolve):
                    return ('trip', l['field'])
                return ('trip-wrong', l['field'], estr(r))
        return None
    return key


def slot_opened_last(prog, r):
    """The reply slot is the gate's last step: no refusal after it was opened
    (otherwise the caller gets the refusal and later a NoReply for the same serial)."""
    fn = prog.fn(GATE, 'bus/bus.c')
    exp = {c['id'] for b, i, c in fn.calls('bus_connections_expect_reply')}
    if not exp:
        raise AnalysisBroken('the gate no longer calls bus_connections_expect_reply')

    def on_exit_g(user, ctx, ret, ev):
        v = ctx.const_of(ret) if ret is not None else None
        if any(ctx.result_known(e) is True for e in exp) and v == 0:
            ctx.report('the gate refuses the message after a reply slot was opened for it (the caller would get '
                       'the refusal and later a NoReply for the same serial)', ev['line'], key='refuse-after-slot')
    exg = Explorer(fn, on_exit=on_exit_g, calls={'bus_connections_expect_reply'}, track='auto', cap=200000).run()
    if exg.reports:
        r.from_reports(exg.reports, keyfn=lambda k, rep: 'gate:%s' % k)
    else:
        r.ok('gate:slot-opened-last')
    # ... and the gate is the last thing that can refuse the addressed message: between its success and the
    # staging of the message only out-of-memory may fail (any other error executes the transaction, keeping
    # the slot the gate opened or the consumption of the slot a reply used)
    dm = prog.fn('bus_dispatch_matches', 'bus/dispatch.c')
    gates = {c['id'] for b, i, c in dm.calls(GATE)}
    if not gates:
        raise AnalysisBroken('bus_dispatch_matches no longer calls the policy gate')
    OOM = 'org.freedesktop.DBus.Error.NoMemory'
    # only what is reported through the function's own DBusError parameter is a refusal of the addressed message
    err_params = {p['id'] for p in dm.params if 'DBusError' in (p.get('t') or '')}

    def on_event_d(user, ev, ctx):
        if ev['ev'] == 'call':
            c = ev['e']
            if c.get('callee') in ('bus_transaction_send', 'bus_transaction_send_from_driver'):
                return 'staged'
            if user != 'staged' and c.get('callee') in ('dbus_set_error', 'dbus_set_error_const') \
                    and c['args'] and is_ref(c['args'][0]) and c['args'][0].get('id') in err_params \
                    and any(ctx.result_known(g) is True for g in gates):
                nm = c['args'][1] if len(c['args']) > 1 else None
                if not (nm is not None and nm.get('k') == 'str' and nm.get('v') == OOM):
                    ctx.report('bus_dispatch_matches refuses the addressed message with %s after the policy gate '
                               'admitted it (and recorded or consumed its reply slot): the refusal does not cancel '
                               'the transaction, so the caller is told the call failed while its pending-reply slot '
                               'stays taken' % (nm.get('v') if nm is not None and nm.get('k') == 'str' else estr(nm)),
                               c['line'], key='refuse-after-gate')
        return user
    exd = Explorer(dm, init=None, on_event=on_event_d, calls={GATE}, track='auto', cap=400000).run()
    if exd.reports:
        r.from_reports(exd.reports, keyfn=lambda k, rep: 'dispatch_matches:%s' % k)
    else:
        r.ok('dispatch_matches:gate-is-last-refusal')


def c09_1(ck, prog):
    r = ck.rule('C09.1', 'a reply slot is opened only by the policy gate, for an addressed method call '
                'that both policy checks admitted, and never for a no-reply call', 'DOM',
                breaks='a denied or unaddressed call opens a reply slot, or a no-reply call does', floor=5)
    lib.who_calls(prog, r, 'bus_connections_expect_reply', {GATE})
    lib.who_calls(prog, r, 'bus_connections_check_reply', {GATE})
    fn = prog.fn(GATE, 'bus/bus.c')
    mc = prog.enums.get('DBUS_MESSAGE_TYPE_METHOD_CALL', 1)
    P = {p['name']: p['id'] for p in fn.params}
    n = [0]

    def atom_key(atom, resolve):
        if atom[0] == 'cmp' and atom[1] == '==':
            l, rr = atom[2], atom[3]
            if is_ref(l, 'type') and is_int(rr, 1):
                return ('type==METHOD_CALL',)
            if {estr(l), estr(rr)} == {'addressed_recipient', 'proposed_recipient'}:
                return ('addressed==proposed',)
        return None

    def on_event(user, ev, ctx):
        if ev['ev'] == 'call' and ev['e'].get('callee') == 'bus_connections_expect_reply':
            c = ev['e']
            n[0] += 1
            probs = []
            if ctx.atom(('type==METHOD_CALL',)) is not True:
                probs.append('message type not known to be METHOD_CALL')
            if ctx.atom(('addressed==proposed',)) is not True:
                probs.append('addressed_recipient == proposed_recipient not established (eavesdropper?)')
            for nm in ('sender', 'addressed_recipient'):
                t = ctx.truth_of({'k': 'ref', 'name': nm, 'kind': 'param', 'id': P[nm]})
                if t is not True:
                    probs.append('%s not known to be non-NULL' % nm)
            for chk, pol in (('bus_client_policy_check_can_send', 'sender_policy'),
                             ('bus_client_policy_check_can_receive', 'recipient_policy')):
                ids = [x['id'] for b, i, x in fn.calls(chk)]
                passed = any(ctx.result_known(i) is True for i in ids)
                pv = None
                for k, v in ctx.env.items():
                    if k[0] == 'v' and ctx.ex.tracked.get(k[1]) == pol:
                        pv = v
                nopol = pv is not None and ((pv[0] == 'c' and pv[1] == 0)
                                            or (pv[0] == 'call' and ctx.result_known(pv[1]) is False))
                if not (passed or nopol):
                    probs.append('%s has not succeeded (and %s is not known to be NULL)' % (chk, pol))
            a = c['args']
            if not (is_ref(a[2], 'sender') and is_ref(a[3], 'addressed_recipient') and is_ref(a[4], 'message')):
                probs.append('arguments are (%s, %s, %s), expected (sender, addressed_recipient, message)'
                             % (estr(a[2]), estr(a[3]), estr(a[4])))
            for p in probs:
                ctx.report('reply slot opened although ' + p, c['line'], key=p)
        return user
    ex = Explorer(fn, on_event=on_event, atom_key=atom_key, track='auto',
                  calls={'bus_client_policy_check_can_send', 'bus_client_policy_check_can_receive',
                         'bus_connection_get_policy', 'bus_connection_is_active'}, cap=200000).run()
    if not n[0]:
        raise AnalysisBroken('the gate no longer calls bus_connections_expect_reply')
    if ex.reports:
        r.from_reports(ex.reports, keyfn=lambda k, rep: 'gate:expect_reply:%s' % k[:60])
    else:
        r.ok('gate:expect_reply-conditions', {'states': ex.nstates})

    slot_opened_last(prog, r)

    er = prog.fn('bus_connections_expect_reply', 'bus/connection.c')
    lib.must_precede(er, r, lambda ev, ctx: 'bus_expire_list_add' if ev['ev'] == 'call'
                     and ev['e'].get('callee') in ('bus_expire_list_add', 'bus_expire_list_add_link') else None,
                     [lib.guard_call('!dbus_message_get_no_reply(reply_to_this)', 'dbus_message_get_no_reply', 0,
                                     'reply_to_this', expect=False)])
    # duplicate (serial, caller, callee) is refused
    pairs = {'reply_serial': lambda e, res: is_ref(e, 'reply_serial'),
             'will_get_reply': lambda e, res: is_ref(e, 'will_get_reply') and e.get('kind') == 'param',
             'will_send_reply': lambda e, res: is_ref(e, 'will_send_reply') and e.get('kind') == 'param'}
    seen = set()

    def on_event2(user, ev, ctx):
        for k, v in ctx.atoms().items():
            if k[0] == 'trip' and v is True:
                seen.add(k[1])
        if ev['ev'] == 'call' and ev['e'].get('callee') in ('bus_expire_list_add', 'dbus_malloc0', 'dbus_malloc'):
            at = ctx.atoms()
            if all(at.get(('trip', f)) is True for f in pairs):
                ctx.report('a slot is added although an identical (serial, caller, callee) slot was just found',
                           ev['line'], key='dup')
        return user
    ex2 = Explorer(er, on_event=on_event2, atom_key=triple_key(pairs), track='auto').run()
    key = 'expect_reply:duplicate-refused'
    if seen != set(pairs):
        r.violation(key, er.name, er.file, er.line,
                    'duplicate scan does not compare %s against the parameters' % sorted(set(pairs) - seen))
    elif ex2.reports:
        r.from_reports(ex2.reports, keyfn=lambda k, rep: key)
    else:
        r.ok(key)
    # serial comes from the message
    oks = False
    for b, i, ev in er.events():
        for lhs, how, rhs in written_lvalues(ev):
            if is_ref(lhs, 'reply_serial') and is_call(rhs, 'dbus_message_get_serial') \
                    and lib.arg_is_param(rhs, 0, 'reply_to_this'):
                oks = True
    if oks:
        r.ok('expect_reply:serial-of-call')
    else:
        r.violation('expect_reply:serial-of-call', er.name, er.file, er.line,
                    'reply_serial is not dbus_message_get_serial(reply_to_this)')
    # fields of the slot
    want = {'will_get_reply': 'will_get_reply', 'will_send_reply': 'will_send_reply', 'reply_serial': 'reply_serial'}
    got = {}
    for b, i, ev in er.events():
        for lhs, how, rhs in written_lvalues(ev):
            if is_member(lhs, None, 'BusPendingReply') and lhs['field'] in want and how == '=':
                got[lhs['field']] = estr(rhs)
    for f, v in want.items():
        if got.get(f) == v:
            r.ok('expect_reply:slot.%s' % f)
        else:
            r.violation('expect_reply:slot.%s' % f, er.name, er.file, er.line,
                        'slot field %s is set from %s (expected %s)' % (f, got.get(f), v))


def c09_2(ck, prog):
    r = ck.rule('C09.2', 'a reply consumes its slot only when serial, receiver and sender all match, under '
                'an undo hook; the gate feeds the same verdict to both policy checks', 'TS',
                breaks='a reply from a non-addressee, or a second reply, is treated as requested', floor=4)
    fn = prog.fn('bus_connections_check_reply', 'bus/connection.c')
    pairs = {'reply_serial': lambda e, res: is_ref(e, 'reply_serial'),
             'will_get_reply': lambda e, res: is_ref(e, 'receiving_reply') and e.get('kind') == 'param',
             'will_send_reply': lambda e, res: is_ref(e, 'sending_reply') and e.get('kind') == 'param'}
    nun = [0]

    def on_event(user, ev, ctx):
        if ev['ev'] == 'call' and ev['e'].get('callee') == 'bus_expire_list_unlink':
            nun[0] += 1
            at = ctx.atoms()
            for f in pairs:
                if at.get(('trip', f)) is not True:
                    wrong = [k for k in at if k[0] == 'trip-wrong' and k[1] == f]
                    ctx.report('slot is consumed without pending->%s == %s having been established%s' % (
                        f, {'reply_serial': 'reply_serial', 'will_get_reply': 'receiving_reply',
                            'will_send_reply': 'sending_reply'}[f],
                        ' (compared with %s instead)' % wrong[0][2] if wrong else ''), ev['line'], key=f)
        return user

    def on_exit(user, ctx, ret, ev):
        v = ctx.const_of(ret) if ret is not None else None
        if v is None or v != 0:
            at = ctx.atoms()
            if not all(at.get(('trip', f)) is True for f in pairs):
                ctx.report('returns TRUE (requested reply) without a matching slot', ev['line'], key='true-nomatch')
    ex = Explorer(fn, on_event=on_event, on_exit=on_exit, atom_key=triple_key(pairs), track='auto').run()
    if not nun[0]:
        raise AnalysisBroken('check_reply no longer unlinks the slot')
    if ex.reports:
        r.from_reports(ex.reports, keyfn=lambda k, rep: 'check_reply:%s' % k)
    else:
        r.ok('check_reply:triple-match', {'states': ex.nstates})
    oks = any(is_ref(l, 'reply_serial') and is_call(rh, 'dbus_message_get_reply_serial')
              and lib.arg_is_param(rh, 0, 'reply')
              for b, i, ev in fn.events() for l, h, rh in written_lvalues(ev))
    if oks:
        r.ok('check_reply:serial-of-reply')
    else:
        r.violation('check_reply:serial-of-reply', fn.name, fn.file, fn.line,
                    'reply_serial is not dbus_message_get_reply_serial(reply)')
    lib.must_precede(fn, r, lambda ev, ctx: 'bus_expire_list_unlink' if ev['ev'] == 'call'
                     and ev['e'].get('callee') == 'bus_expire_list_unlink' else None,
                     [lib.Guard('bus_transaction_add_cancel_hook(cancel_check_pending_reply)',
                                lambda c, ctx: c.get('callee') == 'bus_transaction_add_cancel_hook'
                                and is_ref(c['args'][1], 'cancel_check_pending_reply'))])
    hook = prog.fn('cancel_check_pending_reply', 'bus/connection.c')
    if hook.calls('bus_expire_list_add_link'):
        r.ok('cancel_check_pending_reply:relinks')
    else:
        r.violation('cancel_check_pending_reply:relinks', hook.name, hook.file, hook.line,
                    'the undo hook no longer puts the slot back')
    # gate: requested_reply from check_reply only when addressed == proposed; same var to both checks
    g = prog.fn(GATE, 'bus/bus.c')

    def atom_key(atom, resolve):
        if atom[0] == 'cmp' and atom[1] == '==':
            if {estr(atom[2]), estr(atom[3])} == {'addressed_recipient', 'proposed_recipient'}:
                return ('addressed==proposed',)
        return None
    nck = [0]

    def on_event2(user, ev, ctx):
        if ev['ev'] == 'call':
            c = ev['e']
            if c.get('callee') == 'bus_connections_check_reply':
                nck[0] += 1
                if ctx.atom(('addressed==proposed',)) is not True:
                    ctx.report('pending-reply lookup performed for a recipient that is not the addressee',
                               c['line'], key='eavesdrop-consumes')
                a = c['args']
                if not (is_ref(a[2], 'sender') and is_ref(a[3], 'addressed_recipient') and is_ref(a[4], 'message')):
                    ctx.report('check_reply arguments are (%s, %s, %s)' % (estr(a[2]), estr(a[3]), estr(a[4])),
                               c['line'], key='args')
            if c.get('callee') in ('bus_client_policy_check_can_send', 'bus_client_policy_check_can_receive'):
                if not is_ref(c['args'][2], 'requested_reply'):
                    ctx.report('%s is given %s as requested_reply' % (c['callee'], estr(c['args'][2])),
                               c['line'], key=('rr', c['callee']))
        for lhs, how, rhs in written_lvalues(ev):
            if is_ref(lhs, 'requested_reply') and how == '=':
                if is_int(rhs, 0):
                    pass
                elif is_call(rhs, 'bus_connections_check_reply'):
                    pass
                elif is_int(rhs, 1):
                    # bus driver replies: only when sender == NULL and not eavesdropping
                    s = ctx.truth_of({'k': 'ref', 'name': 'sender', 'kind': 'param', 'id': g.param('sender')['id']})
                    if s is not False or ctx.atom(('addressed==proposed',)) is not True:
                        ctx.report('requested_reply forced to TRUE for a client sender or an eavesdropper',
                                   ev['line'], key='forced')
                else:
                    ctx.report('requested_reply assigned from %s' % estr(rhs), ev['line'], key='assign')
        return user
    ex = Explorer(g, on_event=on_event2, atom_key=atom_key, track='auto', cap=200000).run()
    if not nck[0]:
        raise AnalysisBroken('gate no longer calls bus_connections_check_reply')
    if ex.reports:
        r.from_reports(ex.reports, keyfn=lambda k, rep: 'gate:%s' % (k if isinstance(k, str) else '/'.join(k)))
    else:
        r.ok('gate:requested_reply-flow', {'states': ex.nstates})


def c09_3(ck, prog):
    r = ck.rule('C09.3', 'expiry and disconnect produce the NoReply error and release the slot exactly on '
                'the path where the error was staged', 'TS',
                breaks='a caller gets no NoReply, or two, or a slot is lost on OOM', floor=4)
    fn = prog.fn('bus_pending_reply_expired', 'bus/connection.c')
    sn = {c['id'] for b, i, c in fn.calls('bus_pending_reply_send_no_reply')}
    if not sn:
        raise AnalysisBroken('bus_pending_reply_expired no longer sends NoReply')

    def on_event(user, ev, ctx):
        u = dict(user)
        if ev['ev'] == 'call':
            cal = ev['e'].get('callee')
            if cal == 'bus_expire_list_remove_link':
                u['removed'] = True
                if not any(ctx.result_known(s) is True for s in sn):
                    ctx.report('slot removed although the NoReply error was not staged', ev['line'], key='rm-early')
            if cal == 'bus_transaction_execute_and_free':
                u['exec'] = True
            if cal == 'bus_transaction_cancel_and_free':
                u['cancel'] = True
        return tuple(sorted(u.items()))

    def on_exit(user, ctx, ret, ev):
        u = dict(user)
        ok_sent = any(ctx.result_known(s) is True for s in sn)
        v = ctx.const_of(ret)
        if ok_sent:
            if not (u.get('removed') and u.get('exec')) or u.get('cancel'):
                ctx.report('NoReply staged but slot not removed / transaction not executed', ev['line'], key='sent')
            if v == 0:
                ctx.report('returns FALSE after delivering NoReply (would be retried)', ev['line'], key='ret')
        else:
            if u.get('removed') or u.get('exec'):
                ctx.report('slot removed / transaction executed without NoReply', ev['line'], key='notsent')
            if v is None or v != 0:
                ctx.report('returns TRUE although nothing was sent', ev['line'], key='ret2')
    ex = Explorer(fn, init=(), on_event=on_event, on_exit=on_exit,
                  calls={'bus_pending_reply_send_no_reply', 'bus_transaction_new'}, track='auto').run()
    if ex.reports:
        r.from_reports(ex.reports, keyfn=lambda k, rep: 'bus_pending_reply_expired:%s' % k)
    else:
        r.ok('bus_pending_reply_expired:send-then-remove')
    # NoReply message: reply serial of the slot, error name NoReply, to will_get_reply
    snf = prog.fn('bus_pending_reply_send_no_reply', 'bus/connection.c')
    checks = {
        'reply_serial': any(is_member(c['args'][1], 'reply_serial', 'BusPendingReply')
                            for b, i, c in snf.calls('dbus_message_set_reply_serial')),
        'error_name': any(c['args'][1].get('k') == 'str' and c['args'][1]['v'] == 'org.freedesktop.DBus.Error.NoReply'
                          for b, i, c in snf.calls('dbus_message_set_error_name')),
        'addressee': any(is_member(c['args'][1], 'will_get_reply', 'BusPendingReply')
                         for b, i, c in snf.calls('bus_transaction_send_from_driver')),
    }
    for k, v in checks.items():
        if v:
            r.ok('send_no_reply:%s' % k)
        else:
            r.violation('send_no_reply:%s' % k, snf.name, snf.file, snf.line,
                        'NoReply error does not carry the slot\'s %s' % k)
    # drop_pending_replies
    dp = prog.fn('bus_connection_drop_pending_replies', 'bus/connection.c')

    def akey(atom, resolve):
        if atom[0] == 'cmp' and atom[1] == '==':
            for l, rr in ((atom[2], atom[3]), (atom[3], atom[2])):
                if is_member(l, None, 'BusPendingReply') and is_ref(rr, 'connection'):
                    return ('is', l['field'])
        return None
    acts = set()

    def on_event3(user, ev, ctx):
        at = ctx.atoms()
        if ev['ev'] == 'call' and ev['e'].get('callee') == 'bus_expire_list_remove_link':
            if at.get(('is', 'will_get_reply')) is True:
                acts.add('remove')
            else:
                ctx.report('a slot is removed that does not belong to the disconnecting receiver', ev['line'], key='rm')
        if ev['ev'] == 'call' and ev['e'].get('callee') == 'bus_expire_list_recheck_immediately':
            acts.add('recheck')
        for lhs, how, rhs in written_lvalues(ev):
            if is_member(lhs, 'will_send_reply', 'BusPendingReply') and how == '=' and is_int(rhs, 0):
                if at.get(('is', 'will_send_reply')) is True and at.get(('is', 'will_get_reply')) is False:
                    acts.add('null-sender')
                else:
                    ctx.report('will_send_reply cleared for a slot whose replier is not the disconnecting connection',
                               ev['line'], key='null')
        return user
    ex = Explorer(dp, on_event=on_event3, atom_key=akey, track='auto').run()
    if ex.reports:
        r.from_reports(ex.reports, keyfn=lambda k, rep: 'drop_pending_replies:%s' % k)
    missing = {'remove', 'recheck', 'null-sender'} - acts
    if missing:
        r.violation('drop_pending_replies:actions', dp.name, dp.file, dp.line,
                    'drop_pending_replies no longer performs: %s' % ', '.join(sorted(missing)))
    elif not ex.reports:
        r.ok('drop_pending_replies:actions')
    for caller in ('bus_connection_disconnected', 'bus_connection_be_monitor'):
        f = prog.fn(caller, 'bus/connection.c')
        if any(lib.arg_is_param(c, 1, 'connection') for b, i, c in f.calls('bus_connection_drop_pending_replies')):
            r.ok('%s->drop_pending_replies' % caller)
        else:
            r.violation('%s->drop_pending_replies' % caller, f.name, f.file, f.line,
                        '%s no longer drops the connection\'s pending replies' % caller)
    # the expire list is created with the expired callback
    okcb = False
    for f, b, i, c in prog.call_sites('bus_expire_list_new'):
        if any(is_ref(a, 'bus_pending_reply_expired') for a in c['args']):
            okcb = True
    if okcb:
        r.ok('pending_replies:expired-callback')
    else:
        r.violation('pending_replies:expired-callback', 'bus_connections_new', 'bus/connection.c', None,
                    'pending_replies expire list is not created with bus_pending_reply_expired')


def c09_3b(ck, prog):
    r = ck.rule('C09.3b', 'the expiry walk examines every slot: the loop is left early only when the expire '
                'callback failed (retry later), never because one slot is not due yet', 'TS',
                breaks='older slots behind a young one never expire: no NoReply, and a stale slot still admits '
                       'a reply', floor=1)
    fn = prog.fn('do_expiration_with_monotonic_time', 'bus/expirelist.c')
    cb = set()
    for b, i, c in fn.calls():
        if c.get('callee') is None:
            fe = c.get('fn')
            while fe is not None and fe.get('k') == 'un':
                fe = fe['e']
            if is_member(fe, 'expire_func', 'BusExpireList'):
                cb.add(c['id'])
    if not cb:
        raise AnalysisBroken('do_expiration: indirect expire_func call not found')
    head, body, bad, on_transfer = lib.loop_exits_only_when(
        fn, r, 'expire-walk', lambda blk: (blk.get('term') or {}).get('kind') in ('WhileStmt', 'ForStmt'),
        lambda ctx, frm: any(ctx.result_known(c) is False for c in cb), 'expire callback failed')
    Explorer(fn, on_transfer=on_transfer, calls='ALL', track='auto').run()
    if bad:
        for (frm, to), (line, path) in bad.items():
            r.violation('do_expiration:early-exit@%s' % frm, fn.name, fn.file, line,
                        'the expiry walk is abandoned at line %s although the expire callback did not fail: slots '
                        'further down the list are not examined' % line, path)
    else:
        r.ok('do_expiration:walks-whole-list')
    # the walk starts at the head and steps with next
    from rules.C06 import walk_direction
    f1, n1, b1 = walk_direction(fn)
    if f1 == 1 and n1 and not b1:
        r.ok('do_expiration:first->next')
    else:
        r.violation('do_expiration:first->next', fn.name, fn.file, fn.line, 'walk is not first->next')


def c09_3c(ck, prog):
    r = ck.rule('C09.3c', 'the expiry timer stays armed while a slot with a finite timeout is still waiting: a walk '
                'that kept such a slot returns a non-negative interval (the "something left to expire" flag is set '
                'for every kept slot, however far away its deadline is)', 'TS',
                breaks='with a reply timeout above one hour the timer is switched off although slots are pending: '
                       'no NoReply is ever sent and a reply arriving after the timeout is still admitted', floor=1)
    fn = prog.fn('do_expiration_with_monotonic_time', 'bus/expirelist.c')
    kept_sites = [0]

    def on_event(user, ev, ctx):
        for lhs, how, rhs in written_lvalues(ev):
            # "time left for this slot" = expire_after - elapsed: computed only for a slot that is kept
            if how in ('=', 'decl') and isinstance(rhs, dict) and rhs.get('k') == 'bin' and rhs['op'] == '-' and \
                    any(is_member(x, 'expire_after', 'BusExpireList') for x in walk(rhs['l'])):
                kept_sites[0] += 1
                return True
        return user

    def on_exit(user, ctx, ret, ev):
        if not user or ret is None:
            return
        v = ctx.const_of(ret)
        if v is not None and v < 0:
            ctx.report('the walk kept a slot with a finite timeout but returns %d: the expiry timer is switched off'
                       % v, ev['line'], key='disarmed')
    ex = Explorer(fn, init=False, on_event=on_event, on_exit=on_exit, track='auto', cap=400000).run()
    if not kept_sites[0]:
        raise AnalysisBroken('do_expiration: the time-left computation was not found')
    if ex.reports:
        r.from_reports(ex.reports, keyfn=lambda k, rep: 'do_expiration:%s' % k)
    else:
        r.ok('do_expiration:kept-slot-keeps-timer-armed')


def c09_4(ck, prog):
    r = ck.rule('C09.4', 'no half-open slot: after the slot was added, every failure exit of expect_reply '
                'removes it again', 'PAIR', breaks='OOM leaves a slot without an undo hook', floor=1)
    fn = prog.fn('bus_connections_expect_reply', 'bus/connection.c')
    add = {c['id'] for b, i, c in fn.calls('bus_expire_list_add')}
    if not add:
        raise AnalysisBroken('expect_reply no longer calls bus_expire_list_add')

    def on_event(user, ev, ctx):
        if ev['ev'] == 'call' and ev['e'].get('callee') == 'bus_expire_list_remove':
            return True
        return user

    def on_exit(user, ctx, ret, ev):
        v = ctx.const_of(ret)
        if v == 0 and any(ctx.result_known(a) is True for a in add) and not user:
            ctx.report('returns FALSE after bus_expire_list_add succeeded without removing the slot',
                       ev['line'], key='halfopen')
    ex = Explorer(fn, init=False, on_event=on_event, on_exit=on_exit, calls={'bus_expire_list_add'},
                  track='auto').run()
    if ex.reports:
        r.from_reports(ex.reports, keyfn=lambda k, rep: 'expect_reply:%s' % k)
    else:
        r.ok('expect_reply:no-half-open-slot')
    hook = prog.fn('cancel_pending_reply', 'bus/connection.c')
    if hook.calls('bus_expire_list_remove'):
        r.ok('cancel_pending_reply:removes')
    else:
        r.violation('cancel_pending_reply:removes', hook.name, hook.file, hook.line,
                    'the undo hook of expect_reply no longer removes the slot')


def c09_8(ck, prog, rid='C09.8'):
    r = ck.rule(rid, 'a pending reply is stamped with the time it was recorded: on every successful exit of '
                'bus_connections_expect_reply the last value given to the record\'s time stamp comes from the monotonic '
                'clock, not from a placeholder constant', 'TS',
                breaks='every call expires the moment it is recorded (or never): the caller is sent NoReply for a call '
                'that was delivered and the real reply is then refused as unrequested', floor=1)
    fn = prog.fn('bus_connections_expect_reply', 'bus/connection.c')
    FIELDS = ('added_tv_sec', 'added_tv_usec')
    nclock = [0]

    def on_event(user, ev, ctx):
        st = dict(user)
        if ev['ev'] == 'call' and ev['e'].get('callee') == 'bus_expire_list_add':
            st['#recorded'] = 'yes'
        for lhs, how, rhs in written_lvalues(ev):
            if is_member(lhs) and lhs.get('field') in FIELDS:
                if how == '&arg' and is_call(rhs, '_dbus_get_monotonic_time'):
                    st[lhs['field']] = 'clock'
                    nclock[0] += 1
                elif how == '=':
                    st[lhs['field']] = 'const' if is_int(rhs) else 'other'
        return tuple(sorted(st.items()))

    def on_exit(user, ctx, ret, ev):
        if ctx.ret_status(ret) != 'ok':
            return
        st = dict(user)
        if st.get('#recorded') != 'yes':
            return                      # nothing was recorded on this path (e.g. the caller wants no reply)
        bad = [f for f in FIELDS if st.get(f) != 'clock']
        if bad:
            ctx.report('bus_connections_expect_reply succeeds with %s last set to %s' % (
                ', '.join(bad), ', '.join(str(st.get(f, 'nothing')) for f in bad)), ev['line'], key='stamp')
    ex = Explorer(fn, init=(), on_event=on_event, on_exit=on_exit, track='auto', calls='ALL', cap=600000).run()
    if not nclock[0]:
        r.violation('expect_reply:stamp', fn.name, fn.file, fn.line, 'the pending reply is never stamped with the clock')
    elif ex.reports:
        r.from_reports(ex.reports, keyfn=lambda k, rep: 'expect_reply:%s' % k)
    else:
        r.ok('expect_reply:stamp-from-clock-last')


def c09_10(ck, prog, rid='C09.10'):
    """Arming of the expiry timer: only "look now", and always when asked to."""
    E = 'bus/expirelist.c'
    r = ck.rule(rid, 'the expiry timer of a list is armed for "now" by the functions that add an item or ask for a '
                're-check, and the exact wait is computed only by the expiry walk: in bus_expire_list_add / _add_link / '
                '_recheck_immediately every bus_expire_timeout_set_interval is given the constant 0; '
                '_recheck_immediately reaches it on every path; add / add_link reach it on every path on which the item '
                'was stored and the timer is not running', 'DOM',
                breaks='a newer call pushes the shared timer out, so an older unanswered call is not expired at its '
                'deadline (under steady traffic: never) and its late reply is let through; or the entries of a '
                'disconnected callee are not expired at once and keep counting against the caller\'s limit', floor=4)
    n = 0
    for name in ('bus_expire_list_add', 'bus_expire_list_add_link', 'bus_expire_list_recheck_immediately'):
        fn = prog.fn(name, E)
        sets = [c for b, i, c in fn.calls('bus_expire_timeout_set_interval')]
        key = '%s:arms-for-now' % name
        n += 1
        if not sets:
            r.violation(key, fn.name, E, fn.line, '%s no longer arms the expiry timer' % name)
            continue
        badv = [c for c in sets if len(c['args']) < 2 or not is_int(c['args'][1], 0)]
        if badv:
            r.violation(key, fn.name, E, badv[0]['line'], '%s arms the timer with %s instead of 0: the walk that computes '
                        'the exact wait is put off' % (name, estr(badv[0]['args'][1]) if len(badv[0]['args']) > 1 else '?'))
        else:
            r.ok(key)
        # on which paths it is reached
        set_ids = {c['id'] for c in sets}
        en = {c['id'] for b, i, c in fn.calls('dbus_timeout_get_enabled')}
        stored = {c['id'] for b, i, c in fn.calls(('_dbus_list_prepend', '_dbus_list_prepend_link', '_dbus_list_append',
                                                  '_dbus_list_append_link'))}
        key2 = '%s:always-when-needed' % name

        def on_event(user, ev, ctx, set_ids=set_ids):
            if ev['ev'] == 'call' and ev['e'].get('id') in set_ids:
                return True
            return user

        def on_exit(user, ctx, ret, ev, name=name, en=en, stored=stored, fn=fn):
            if user:
                return
            if name != 'bus_expire_list_recheck_immediately':
                # excused: the item was not stored, or the timer was found running
                if any(ctx.result_known(i) is False for i in stored):
                    return
                if ret is not None and ctx.ret_status(ret) == 'fail':
                    return
                if any(ctx.result_known(i) is True for i in en):
                    return
            ctx.report('%s can return without having armed the timer%s' % (
                name, '' if name.endswith('immediately') else ' although the item was stored and the timer was not found running'),
                ev['line'] if ev else fn.line, key='unarmed')
        ex = Explorer(fn, init=False, on_event=on_event, on_exit=on_exit, calls='ALL', track='auto', cap=50000).run()
        n += 1
        if ex.reports:
            r.from_reports(ex.reports, keyfn=lambda k, rep, key2=key2: key2)
        else:
            r.ok(key2)


def c09_11(ck, prog, rid='C09.11'):
    """The expiry timer wakes up for the slot that is due first."""
    E = 'bus/expirelist.c'
    r = ck.rule(rid, 'the next wake-up of an expiry list is the minimum over all slots that are kept: in the walk of '
                'do_expiration_with_monotonic_time the candidate is stored into the running minimum only where it was '
                'found smaller than the minimum (min_wait_time = to_wait lies behind min_wait_time > to_wait)', 'DOM',
                breaks='the timer sleeps for the youngest call\'s remaining time: an older call is expired late by up to '
                'a full reply_timeout, and during that time its late reply still passes as a requested reply', floor=1)
    fn = prog.fn('do_expiration_with_monotonic_time', E)
    mins = {}
    for b, i, ev in fn.events():
        for lhs, how, rhs in written_lvalues(ev):
            if (is_ref(lhs) or 'k' not in lhs) and lhs.get('name') == 'min_wait_time' and how == '=' \
                    and isinstance(rhs, dict) and is_ref(rhs):
                mins[lhs['id']] = rhs['id']
    if not mins:
        raise AnalysisBroken('do_expiration: the running minimum (min_wait_time = <candidate>) was not found')

    def akey(atom, resolve):
        if atom[0] == 'cmp' and atom[1] in ('<', '<=') and is_ref(atom[2]) and is_ref(atom[3]):
            ids = (atom[2].get('id'), atom[3].get('id'))
            if any(m in ids for m in mins):
                return ('ord', atom[1], ids[0], ids[1])
        return None

    def on_event(user, ev, ctx):
        for lhs, how, rhs in written_lvalues(ev):
            if (is_ref(lhs) or 'k' not in lhs) and lhs.get('id') in mins and how == '=' and isinstance(rhs, dict) \
                    and is_ref(rhs):
                m, c = lhs['id'], rhs['id']
                at = ctx.atoms()
                smaller = at.get(('ord', '<=', m, c)) is False or at.get(('ord', '<', c, m)) is True
                if not smaller:
                    ctx.report('min_wait_time is overwritten with %s on a path where %s was not found smaller: the '
                               'minimum over the slots is lost' % (rhs['name'], rhs['name']), ev['line'],
                               key=('not-min', ev['line']))
        return user
    ex = Explorer(fn, on_event=on_event, atom_key=akey, track=None, cap=300000).run()
    if ex.reports:
        r.from_reports(ex.reports, keyfn=lambda k, rep: 'do_expiration:minimum')
    else:
        r.ok('do_expiration:minimum')


def run(ck):
    ck.explanation = (
        'Static path-sensitive rules over bus/bus.c (policy gate) and bus/connection.c (pending replies): a slot '
        'is opened only by the gate, for an addressed METHOD_CALL whose sender and addressee are non-NULL and '
        'equal to the proposed recipient, after both policy checks passed, never for a no-reply call and never '
        'as a duplicate; a reply consumes a slot only when (serial, receiver, sender) all matched, under an undo '
        'hook, and the gate hands that verdict to both policy checks; expiry/disconnect stage exactly one NoReply '
        'and release the slot on the same path; no failure exit leaves a half-open slot.')
    ck.not_decided = ('timing of expiry; that policy actually denies unrequested replies for a given '
                      'configuration (C06); histories with serial reuse across wrap-around')
    for v, prog in ck.programs(thorough_variants=('B',)):
        c09_10(ck, prog)
        c09_11(ck, prog)
        from rules import listops
        rq = ck.rule('C09.9', 'the public list operations do what their names say (dbus/dbus-list.c; abstract interpretation of their CFG over every circular list of 0..3 links with equal and distinct data, every link / anchor / data argument, with and without memory for a new link): resulting order, return value, freed and detached links agree with the specification of append, prepend, insert_after, remove (first match), remove_last / find_last (last match), remove_link, clear, get/pop first/last (link), get_length, length_is_one', 'ABS', breaks='the pending-reply list drops or duplicates an entry when another one is removed or expires: a reply is refused as unrequested, or a slot is never freed', floor=15)
        listops.check(prog, rq)
        c09_1(ck, prog)
        c09_2(ck, prog)
        c09_3(ck, prog)
        c09_3b(ck, prog)
        c09_3c(ck, prog)
        # "is this a reply?" is decided from REPLY_SERIAL, which the loader guarantees for returns and errors
        from rules.C01 import c01_4
        r5 = ck.rule('C09.5', 'method returns and errors without REPLY_SERIAL never reach the bus: the loader\'s '
                     'mandatory-field table is the specification\'s (shared with C01.4); the reply gate and both '
                     'policy evaluators classify replies by that field', 'TAB',
                     breaks='an error carrying no reply serial bypasses the pending-reply check and is delivered to '
                            'a connection that never called the sender', floor=25)
        save = ck.rule
        ck.rule = lambda *a, **k: r5
        try:
            c01_4(ck, prog)
        finally:
            ck.rule = save
        c09_4(ck, prog)
        r = ck.rule('C09.6', 'the list of pending replies lives as long as the bus (created once, released only by the '
                    'destructor)', 'WHO', breaks='recreating it forgets outstanding calls: their replies are refused '
                    'and no NoReply is ever sent', floor=1)
        lib.state_lifetime(prog, r, [('BusConnections', 'pending_replies'), ('BusContext', 'connections')])
        from rules.C06 import c06_10
        c06_10(ck, prog, 'C09.7')
        c09_8(ck, prog)
