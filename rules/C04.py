"""C04 - name ownership follows the specification's state machine.
DESIGN.md C04.1 - C04.4 (structural clauses; C04.1 by exhaustive enumeration)."""
import itertools

from engine.cfg import (Explorer, estr, is_call, is_int, is_member, is_ref, strip_addr, walk,
                        written_lvalues, event_expr)
from engine.facts import AnalysisBroken
from engine import lib

S = 'bus/services.c'
D = 'bus/driver.c'
MUTATORS = {'bus_owner_set_flags', 'bus_service_add_owner', 'bus_service_remove_owner', 'bus_service_swap_owner',
            '_dbus_list_unlink', '_dbus_list_append', '_dbus_list_insert_after', '_dbus_list_insert_after_link',
            'bus_owner_new', 'add_cancel_ownership_to_transaction', 'bus_registry_ensure'}
ALLOW, REPLACE, DNQ = 1, 2, 4


def spec_request(no_owner, is_owner, dnq, rep, allow_repl, owner_dnq):
    """doc/dbus-specification.xml, RequestName: return codes and effects."""
    if no_owner:
        return 1, set()                                             # PRIMARY_OWNER (created by ensure)
    if is_owner:
        return 4, {'bus_owner_set_flags'}                           # ALREADY_OWNER, flags refreshed
    can_replace = rep and allow_repl
    if not can_replace:
        if dnq:
            return 3, {'dequeue-if-queued'}                         # EXISTS
        return 2, {'bus_service_add_owner'}                         # IN_QUEUE
    return 1, {'bus_service_add_owner', 'bus_service_remove_owner' if owner_dnq else 'bus_service_swap_owner'}


def c04_1(ck, prog):
    r = ck.rule('C04.1', 'RequestName / ReleaseName reply codes and effects equal the specification for every '
                'combination of flags and ownership state (extracted branch structure, all assignments enumerated)',
                'DEC', breaks='a wrong reply code or queue effect for some flag combination', floor=58)
    fn = prog.fn('bus_registry_acquire_service', S)
    start = None
    for bid, blk in fn.blocks.items():
        t = blk.get('term')
        if t and t.get('cond') is not None:
            c = t['cond']
            if c.get('k') == 'bin' and c['op'] == '==' and is_ref(c['l'], 'old_owner_conn') and is_int(c['r'], 0) \
                    and not blk['events']:
                start = bid
            elif c.get('k') == 'bin' and c['op'] == '==' and is_ref(c['l'], 'old_owner_conn') and is_int(c['r'], 0):
                start = start if start is not None else bid
    # the decision chain starts at the LAST `old_owner_conn == NULL` test (after bus_registry_ensure)
    cands = sorted((blk['term']['line'], bid) for bid, blk in fn.blocks.items()
                   if blk.get('term') and blk['term'].get('cond') is not None
                   and estr(blk['term']['cond']) == '(old_owner_conn == NULL)')
    if not cands:
        raise AnalysisBroken('acquire_service: decision chain not found')
    start = cands[-1][1]
    primary_ids = {lhs['id'] for b, i, ev in fn.events() for lhs, how, rhs in written_lvalues(ev)
                   if is_ref(lhs) and rhs is not None and is_call(rhs, 'bus_service_get_primary_owner') and 'id' in lhs}
    names = ('no_owner', 'is_owner', 'DO_NOT_QUEUE', 'REPLACE_EXISTING', 'owner_allows_replacement',
             'owner_do_not_queue', 'requester_ALLOW_REPLACEMENT')
    for no_owner, is_owner, dnq, rep, ar, odq, my_allow in itertools.product((0, 1), repeat=7):
        if no_owner and is_owner:
            continue
        # the requester's own ALLOW_REPLACEMENT flag must not influence the decision
        flags = (DNQ if dnq else 0) | (REPLACE if rep else 0) | (ALLOW if my_allow else 0)

        def val(e):
            if e.get('k') == 'bin' and e['op'] == '==' and is_ref(e['l'], 'old_owner_conn'):
                if is_int(e['r'], 0):
                    return no_owner
                if is_ref(e['r'], 'connection'):
                    return is_owner
            if is_ref(e, 'flags') and e.get('kind') == 'param':
                return flags
            if is_call(e, 'bus_service_get_allow_replacement'):
                return ar
            if is_member(e, 'allow_replacement', 'BusOwner') and is_ref(e['base']) and e['base'].get('id') in primary_ids:
                return ar          # the same flag read directly: the getter returns the primary owner's field
            if is_member(e, 'do_not_queue', 'BusOwner'):
                return odq
            if is_call(e, '_bus_service_find_owner_link'):
                return 1
            if e.get('k') == 'call' and e.get('callee') in ('bus_service_add_owner', 'bus_service_remove_owner',
                                                          'bus_service_swap_owner'):
                return 1
            if is_ref(e, 'link'):
                return 1
            return None

        def stop(blk, ev):
            if ev is not None and ev['ev'] == 'call' and ev['e'].get('callee') == 'bus_context_get_activation':
                return 'decided'
            return None
        a = (no_owner, is_owner, dnq, rep, ar, odq, my_allow)
        try:
            evs, why = lib.symbolic_walk(fn, start, val, stop)
        except AnalysisBroken as e:
            r.violation('RequestName:%s' % ''.join(map(str, a)), fn.name, S, fn.line,
                        'the RequestName decision depends on a condition that is not one of the specification\'s '
                        'inputs (flags, ownership state): %s' % e)
            continue
        reply = None
        muts = set()
        for ev in evs:
            for lhs, how, rhs in written_lvalues(ev):
                if lhs.get('k') == 'un' and lhs['op'] == '*' and is_ref(lhs['e'], 'result') and is_int(rhs):
                    reply = rhs['v']
            if ev['ev'] == 'call':
                cal = ev['e'].get('callee')
                if cal in ('bus_owner_set_flags', 'bus_service_add_owner', 'bus_service_remove_owner',
                           'bus_service_swap_owner'):
                    muts.add(cal)
                if cal == '_dbus_list_unlink' and is_member(strip_addr(ev['e']['args'][0]) or {}, 'owners', 'BusService'):
                    muts.add('dequeue-if-queued')
        want_reply, want_muts = spec_request(no_owner, is_owner, dnq, rep, ar, odq)
        key = 'RequestName:%s' % ''.join(map(str, a))
        if why != 'decided':
            r.violation(key, fn.name, S, fn.line, 'decision walk ended with %s for %s' % (why, dict(zip(names, a))))
        elif reply != want_reply or muts != want_muts:
            r.violation(key, fn.name, S, fn.line,
                        'for %s the code answers %s with effects %s; the specification prescribes %s with %s' % (
                            dict(zip(names, a)), reply, sorted(muts), want_reply, sorted(want_muts)))
        else:
            r.ok(key, dict(zip(names, a), reply=reply, effects=sorted(muts)))
    # ReleaseName
    rel = prog.fn('bus_registry_release_service', S)
    cands = [bid for bid, blk in rel.blocks.items() if blk.get('term') and blk['term'].get('cond') is not None
             and estr(blk['term']['cond']) == '(service == NULL)']
    if not cands:
        raise AnalysisBroken('release_service: decision chain not found')
    for exists, queued in itertools.product((0, 1), repeat=2):
        def val(e):
            if e.get('k') == 'bin' and e['op'] == '==' and is_ref(e['l'], 'service') and is_int(e['r'], 0):
                return int(not exists)
            if is_call(e, 'bus_service_owner_in_queue'):
                return queued
            if is_call(e, 'bus_service_remove_owner'):
                return 1
            return None
        evs, why = lib.symbolic_walk(rel, cands[0], val, lambda blk, ev: None)
        reply = None
        removed = False
        for ev in evs:
            for lhs, how, rhs in written_lvalues(ev):
                if lhs.get('k') == 'un' and is_ref(lhs['e'], 'result') and is_int(rhs):
                    reply = rhs['v']
            if ev['ev'] == 'call' and ev['e'].get('callee') == 'bus_service_remove_owner':
                removed = True
        want = (2, False) if not exists else ((3, False) if not queued else (1, True))
        key = 'ReleaseName:exists=%d,queued=%d' % (exists, queued)
        if (reply, removed) == want:
            r.ok(key, {'reply': reply, 'removes_owner': removed})
        else:
            r.violation(key, rel.name, S, rel.line, 'ReleaseName answers %s (removes owner: %s); specification: %s (%s)'
                        % (reply, removed, want[0], want[1]))
    # bus_service_add_owner placement
    ao = prog.fn('bus_service_add_owner', S)
    cands = [bid for bid, blk in ao.blocks.items() if blk.get('term') and blk['term'].get('cond') is not None
             and estr(blk['term']['cond']) == '(bus_owner_link == NULL)']
    if not cands:
        raise AnalysisBroken('add_owner: placement chain not found')
    for queued, rep, empty in itertools.product((0, 1), repeat=3):
        if queued and empty:
            continue

        def val(e):
            if e.get('k') == 'bin' and e['op'] == '==' and is_ref(e['l'], 'bus_owner_link') and is_int(e['r'], 0):
                return int(not queued)
            if e.get('k') == 'bin' and e['op'] == '==' and is_member(e['l'], 'owners', 'BusService') and is_int(e['r'], 0):
                return empty
            if is_ref(e, 'flags') and e.get('kind') == 'param':
                return REPLACE if rep else 0
            if e.get('k') == 'call' and e.get('callee') in ('bus_owner_new', '_dbus_list_append', '_dbus_list_insert_after',
                                                          'add_cancel_ownership_to_transaction'):
                return 1
            if is_ref(e, 'bus_owner'):
                return 1
            return None
        try:
            evs, why = lib.symbolic_walk(ao, cands[0], val, lambda blk, ev: None)
        except AnalysisBroken as e:
            r.violation('add_owner:queued=%d,REPLACE=%d,empty=%d' % (queued, rep, empty), ao.name, S, ao.line,
                        'queue placement depends on a condition outside (already queued, REPLACE_EXISTING, queue '
                        'empty): %s' % e)
            continue
        ops = []
        for ev in evs:
            if ev['ev'] == 'call' and ev['e'].get('callee') in ('_dbus_list_append', '_dbus_list_insert_after',
                                                               '_dbus_list_unlink', '_dbus_list_insert_after_link',
                                                               'bus_owner_set_flags', 'bus_owner_new',
                                                               'add_cancel_ownership_to_transaction'):
                ops.append(ev['e']['callee'])
        if not queued:
            want = {'bus_owner_new', 'bus_owner_set_flags', 'add_cancel_ownership_to_transaction',
                    '_dbus_list_append' if (not rep or empty) else '_dbus_list_insert_after'}
        else:
            want = {'bus_owner_set_flags'} | ({'_dbus_list_unlink', '_dbus_list_insert_after_link'} if rep else set())
        key = 'add_owner:queued=%d,REPLACE=%d,empty=%d' % (queued, rep, empty)
        if set(ops) == want:
            r.ok(key, {'ops': ops})
        else:
            r.violation(key, ao.name, S, ao.line,
                        'for already_queued=%d REPLACE_EXISTING=%d queue_empty=%d add_owner performs %s; expected %s '
                        '(flags of a waiter are always refreshed; REPLACE_EXISTING moves it to second place)' % (
                            queued, rep, empty, sorted(set(ops)), sorted(want)))
    ck.proof = None


def c04_2(ck, prog):
    r = ck.rule('C04.2', 'all refusals precede the first registry change or staged signal: after a signal was '
                'staged only out-of-memory can still fail the request', 'DOM',
                breaks='a refused RequestName emits NameAcquired / NameOwnerChanged for a name that has no such owner',
                floor=4)
    from rules.C07 import error_names, NOMEM, ASSERT_HELPERS
    memo = {}
    STAGE = {'bus_driver_send_service_acquired', 'bus_driver_send_service_lost',
             'bus_driver_send_service_owner_changed', 'bus_registry_ensure', 'bus_service_add_owner',
             'bus_service_remove_owner', 'bus_service_swap_owner'}
    for name in ('bus_registry_acquire_service', 'bus_registry_release_service', 'bus_service_add_owner',
                 'bus_service_remove_owner', 'bus_service_swap_owner', 'bus_registry_ensure'):
        fn = prog.fn(name, S)
        stage_ids = {c['id'] for b, i, c in fn.calls() if c.get('callee') in STAGE and c.get('callee') != name}
        bad = {}

        def on_event(user, ev, ctx, stage_ids=stage_ids, bad=bad):
            if ev['ev'] == 'call':
                c = ev['e']
                cal = c.get('callee')
                if user and c['id'] not in stage_ids:
                    passes = any(is_ref(a, 'error') and a.get('kind') == 'param' for a in c['args'])
                    if passes and cal not in ASSERT_HELPERS:
                        if cal in ('dbus_set_error', 'dbus_set_error_const'):
                            nm = c['args'][1]
                            if not (nm.get('k') == 'str' and nm['v'] == NOMEM):
                                bad[estr(nm)[:50]] = c['line']
                        elif cal in ('dbus_move_error', 'dbus_propagate_error'):
                            bad['an error moved into *error'] = c['line']
                        else:
                            names = set()
                            for g in prog.by_name.get(cal, []):
                                names |= error_names(prog, g, memo)
                            if names - {NOMEM}:
                                bad[cal] = c['line']
                elif user and c['id'] in stage_ids:
                    # a later staging callee may itself refuse with a non-OOM error
                    names = set()
                    for g in prog.by_name.get(cal, []):
                        names |= error_names(prog, g, memo)
                    if names - {NOMEM}:
                        bad[cal] = c['line']
                if c['id'] in stage_ids:
                    return True
            return user
        Explorer(fn, init=False, on_event=on_event, track=None, cap=300000).run()
        key = '%s:refusals-before-signals' % name
        if bad:
            for what, line in bad.items():
                r.violation(key + ':' + what.split('.')[-1], name, S, line,
                            '%s can refuse with a non-out-of-memory error (%s) after a signal / registry change was '
                            'already staged; such errors do not cancel the transaction' % (name, what))
        else:
            r.ok(key)


def c04_3(ck, prog):
    r = ck.rule('C04.3', 'ownership signals are staged before the queue is edited and before the reply; the reply '
                'carries the registry\'s result', 'DOM', breaks='the requester sees its reply before NameAcquired, '
                'or a signal is lost when the edit succeeds but staging fails', floor=5)
    for hname, reg in (('bus_driver_handle_acquire_service', 'bus_registry_acquire_service'),
                       ('bus_driver_handle_release_service', 'bus_registry_release_service')):
        fn = prog.fn(hname, D)
        lib.must_precede(fn, r, lambda ev, ctx: 'reply' if ev['ev'] == 'call'
                         and ev['e'].get('callee') == 'bus_transaction_send_from_driver' else None,
                         [lib.Guard('%s(...)' % reg, (lambda reg: lambda c, ctx: c.get('callee') == reg)(reg))])
        ok = any(any(is_ref(strip_addr(a) or {}, 'service_reply') for a in c['args'])
                 for b, i, c in fn.calls('dbus_message_append_args'))
        ok2 = any(any(is_ref(strip_addr(a) or {}, 'service_reply') for a in c['args']) for b, i, c in fn.calls(reg))
        key = '%s:reply-is-registry-result' % hname
        if ok and ok2:
            r.ok(key)
        else:
            r.violation(key, hname, D, fn.line, 'the reply code is not the value the registry stored in service_reply')
    # inside remove/swap: notifications, then the restore hook, then the edit
    for name in ('bus_service_remove_owner', 'bus_service_swap_owner'):
        fn = prog.fn(name, S)

        def sinks(ev, ctx):
            if ev['ev'] == 'call' and ev['e'].get('callee') in ('bus_service_unlink_owner', 'bus_service_unlink',
                                                               '_dbus_list_remove_link', '_dbus_list_insert_after_link'):
                return ev['e']['callee']
            return None
        lib.must_precede(fn, r, sinks, [
            lib.Guard('bus_driver_send_service_lost', lambda c, ctx: c.get('callee') == 'bus_driver_send_service_lost'),
            lib.Guard('add_restore_ownership_to_transaction',
                      lambda c, ctx: c.get('callee') == 'add_restore_ownership_to_transaction'),
        ])


def c04_4(ck, prog):
    r = ck.rule('C04.4', 'single source of truth: the owner queue and the name table are edited only in '
                'services.c, and the queries read them through the registry', 'WHO',
                breaks='GetNameOwner / ListQueuedOwners disagree with the real ownership state', floor=4)
    for f in lib.prod_funcs(prog):
        for b, i, c in f.calls():
            if c['args']:
                a0 = strip_addr(c['args'][0])
                if a0 is not None and is_member(a0, 'owners', 'BusService') and (c.get('callee') or '').startswith('_dbus_list_') \
                        and c.get('callee') not in ('_dbus_list_get_first_link', '_dbus_list_get_first', '_dbus_list_get_next_link',
                                                    '_dbus_list_length_is_one', '_dbus_list_get_last_link',
                                                    '_dbus_list_get_length', '_dbus_list_get_last'):
                    key = 'owners-edit@%s' % f.name
                    if f.file == S:
                        r.ok(key)
                    else:
                        r.violation(key, f.name, f.file, c['line'], '%s edits service->owners outside services.c' % f.name)
    for q, via in (('bus_driver_handle_get_service_owner', 'bus_registry_lookup'),
                   ('bus_driver_handle_service_exists', 'bus_registry_lookup'),
                   ('bus_driver_handle_list_services', 'bus_registry_list_services'),
                   ('bus_driver_handle_list_queued_owners', 'bus_service_list_queued_owners')):
        fn = prog.fn(q, D)
        if fn.calls(via):
            r.ok('%s->%s' % (q, via))
        else:
            r.violation('%s->%s' % (q, via), q, D, fn.line, '%s no longer reads the registry through %s' % (q, via))


def c04_5(ck, prog):
    r = ck.rule('C04.5', 'queue positions: an owner enters the queue only at the tail (new waiter) or right after '
                'the head (replaced primary owner, REPLACE_EXISTING waiter); the head that is swapped out is the '
                'first link; only the transaction restore hook re-inserts at a computed place', 'TAB',
                breaks='after a replacement the old owner is not second in line: the name later goes to the wrong '
                       'connection and ListQueuedOwners shows the wrong order', floor=4)
    INS = {'_dbus_list_append', '_dbus_list_prepend', '_dbus_list_insert_after', '_dbus_list_insert_after_link',
           '_dbus_list_insert_before_link', '_dbus_list_insert_before', '_dbus_list_append_link',
           '_dbus_list_prepend_link'}
    EDIT = INS | {'_dbus_list_unlink', '_dbus_list_remove_link', '_dbus_list_remove', '_dbus_list_remove_last'}

    def owners_arg(c):
        a0 = strip_addr(c['args'][0]) if c['args'] else None
        return a0 is not None and is_member(a0, 'owners', 'BusService')

    def is_first_link(e):
        return is_call(e, '_dbus_list_get_first_link') and owners_arg(e)
    for f in lib.prod_funcs(prog, {S}):
        for bid, blk in f.blocks.items():
            evs = blk['events']
            for i, ev in enumerate(evs):
                if ev['ev'] != 'call' or ev['e'].get('callee') not in INS or not owners_arg(ev['e']):
                    continue
                c = ev['e']
                cal = c['callee']
                key = '%s:%s' % (f.name, cal)
                if cal == '_dbus_list_append':
                    r.ok(key, {'site': '%s:%d' % (S, c['line']), 'position': 'tail'})
                    continue
                if cal in ('_dbus_list_insert_after', '_dbus_list_insert_after_link'):
                    anchor = c['args'][1]
                    good = is_first_link(anchor)
                    if not good and is_ref(anchor):
                        # the anchor variable was loaded from the head on the straight-line code leading here
                        # (this block and its chain of single predecessors), after the last edit
                        hist = list(evs[:i])
                        pb = bid
                        preds = f.preds()
                        live = f.reachable_blocks()
                        for _hop in range(6):
                            ps = [x for x in preds.get(pb, []) if x in live]
                            if len(ps) != 1 or len(f.succs(ps[0])) != 1:
                                break
                            pb = ps[0]
                            hist = list(f.blocks[pb]['events']) + hist
                        for j in range(len(hist) - 1, -1, -1):
                            e2 = hist[j]
                            if e2['ev'] == 'call' and e2['e'].get('callee') in EDIT and owners_arg(e2['e']):
                                break
                            hit = [rhs for l, h, rhs in written_lvalues(e2)
                                   if is_ref(l) and l.get('id') == anchor.get('id') and h in ('=', 'decl')]
                            if hit:
                                good = hit[0] is not None and is_first_link(hit[0])
                                break
                    if good:
                        r.ok(key, {'site': '%s:%d' % (S, c['line']), 'position': 'after the head'})
                    else:
                        r.violation(key, f.name, S, c['line'],
                                    '%s inserts into the owner queue after %s, which is not the current head link'
                                    % (f.name, estr(anchor)))
                    continue
                if cal == '_dbus_list_insert_before_link' and f.name == 'restore_ownership':
                    r.ok(key, {'site': '%s:%d' % (S, c['line']), 'position': 'restored by the cancel hook'})
                    continue
                r.violation(key, f.name, S, c['line'], '%s enters the owner queue with %s (neither the tail nor '
                            'right after the head)' % (f.name, cal))
    # the link that swap_owner moves is the head
    sw = prog.fn('bus_service_swap_owner', S)
    un = [c for b, i, c in sw.calls('_dbus_list_unlink') if owners_arg(c)]
    okh = False
    for c in un:
        a = c['args'][1]
        if is_ref(a):
            defs = [rhs for b, i, ev in sw.events() for l, h, rhs in written_lvalues(ev)
                    if is_ref(l) and l.get('id') == a.get('id') and rhs is not None]
            okh = bool(defs) and all(is_first_link(d) for d in defs)
            ins = [cc for b, i, cc in sw.calls('_dbus_list_insert_after_link') if owners_arg(cc)]
            okh = okh and ins and all(is_ref(cc['args'][2]) and cc['args'][2].get('id') == a.get('id') for cc in ins)
    if okh:
        r.ok('bus_service_swap_owner:moves-the-head')
    else:
        r.violation('bus_service_swap_owner:moves-the-head', sw.name, S, sw.line,
                    'the link unlinked and re-inserted by bus_service_swap_owner is not the head of the queue')


def c04_6(ck, prog):
    r = ck.rule('C04.6', 'names are recognised by whole-string equality: the comparators the name code relies on '
                '(_dbus_string_equal_c_str for org.freedesktop.DBus, _dbus_string_equal) answer TRUE only when '
                'every byte was compared and both strings are exhausted; the name methods are reachable with the '
                'specification\'s signatures on any object path', 'TS',
                breaks='a proper prefix of org.freedesktop.DBus is treated as the reserved bus name: requests for '
                       'it are refused and the queries disagree about its owner', floor=2)
    lib.whole_string_equality(prog, r)
    from rules.C18 import handler_reference
    handler_reference(prog, r, names=('RequestName', 'ReleaseName', 'GetNameOwner', 'NameHasOwner', 'ListNames',
                                      'ListQueuedOwners'))


def run(ck):
    ck.explanation = (
        'Static rules over bus/services.c and bus/driver.c: (DEC) the if-chains of bus_registry_acquire_service, '
        'bus_registry_release_service and bus_service_add_owner are extracted as branch structures and every '
        'assignment of their boolean atoms (flags, ownership state: 48 + 4 + 6 cases) is pushed through them; the '
        'reply code and the set of registry mutators reached are compared with a table transcribed from the '
        'specification; (DOM) after a signal / registry change was staged only out-of-memory can fail the request; '
        'signals and the restore hook precede queue edits and the reply; (WHO) the owner queue is edited only in '
        'services.c and queries go through the registry.')
    ck.not_decided = ('behaviour over histories (that restore_ownership restores the exact order; signal argument '
                      'values and addressees); disconnect-driven ownership changes')
    for v, prog in ck.programs(thorough_variants=('B',)):
        c04_1(ck, prog)
        c04_2(ck, prog)
        c04_3(ck, prog)
        c04_4(ck, prog)
        c04_5(ck, prog)
        c04_6(ck, prog)
        r = ck.rule('C04.8', 'name ownership is kept in one registry for the life of the bus: the registry object and its '
                    'table of names are created once and released only by their destructors', 'WHO',
                    breaks='a reload or any other operation that recreated the registry forgets every owner and queue',
                    floor=2)
        lib.state_lifetime(prog, r, [('BusRegistry', 'service_hash'), ('BusContext', 'registry')])
        from rules import listshape
        r = ck.rule('C04.9', 'the list primitives the owner queue is edited with keep a circular doubly-linked list a '
                    'circular doubly-linked list, for an anchor at any position (shape analysis of link_before / '
                    'link_after / _dbus_list_unlink over all lists of up to three nodes; locality extends it to any '
                    'length)', 'ABS',
                    breaks='inserting a queued owner in the middle of the queue (REPLACE_EXISTING with waiters) '
                    'corrupts the backward chain: waiting owners vanish from the queue', floor=5)
        listshape.check(prog, r)
        from rules import listops
        rq = ck.rule('C04.10', 'the public list operations do what their names say (dbus/dbus-list.c; abstract interpretation of their CFG over every circular list of 0..3 links with equal and distinct data, every link / anchor / data argument, with and without memory for a new link): resulting order, return value, freed and detached links agree with the specification of append, prepend, insert_after, remove (first match), remove_last / find_last (last match), remove_link, clear, get/pop first/last (link), get_length, length_is_one', 'ABS', breaks='the owner queue loses or reorders waiting connections: append puts a new waiter elsewhere than at the end, or removing one owner unlinks another', floor=15)
        listops.check(prog, rq)
