"""Shared by C01.5 / C02.1: the per-type switch statements of the marshalling
layer agree with each other and with the specification's type table."""
from engine.cfg import (estr, is_call, is_int, is_member, is_ref, walk, written_lvalues, event_expr,
                        reach_from)
from engine.facts import AnalysisBroken

# doc/dbus-specification.xml, "Summary of types" / marshalling: code -> (alignment, width class)
SPEC = {
    'y': (1, 1), 'b': (4, 4), 'n': (2, 2), 'q': (2, 2), 'i': (4, 4), 'u': (4, 4), 'x': (8, 8), 't': (8, 8),
    'd': (8, 8), 'h': (4, 4), 's': (4, 'len4'), 'o': (4, 'len4'), 'g': (1, 'len1'),
    'a': (4, 'array'), 'v': (1, 'variant'), 'r': (8, 'struct'), 'e': (8, 'struct'),
    '(': (8, 'struct'), '{': (8, 'struct'),
}
BASIC13 = 'ybnqiuxtdsogh'
FIXED10 = 'ybnqiuxtdh'
ALL17 = BASIC13 + 'avre'

SWITCHES = [
    # function, file, switch variable, required codes, group rule
    ('_dbus_marshal_set_basic', 'dbus/dbus-marshal-basic.c', 'type', BASIC13, 'width'),
    ('_dbus_marshal_read_basic', 'dbus/dbus-marshal-basic.c', 'type', BASIC13, 'width'),
    ('_dbus_marshal_write_basic', 'dbus/dbus-marshal-basic.c', 'type', BASIC13, 'width'),
    ('_dbus_marshal_write_fixed_multi', 'dbus/dbus-marshal-basic.c', 'element_type', FIXED10, 'width'),
    ('_dbus_marshal_skip_basic', 'dbus/dbus-marshal-basic.c', 'type', BASIC13, 'width'),
    ('_dbus_type_get_alignment', 'dbus/dbus-marshal-basic.c', 'typecode', ALL17, 'align'),
    ('byteswap_body_helper', 'dbus/dbus-marshal-byteswap.c', 'current_type', ALL17, 'width'),
    ('validate_body_helper', 'dbus/dbus-marshal-validate.c', 'current_type', ALL17, 'width'),
    ('dbus_type_is_fixed', 'dbus/dbus-signature.c', 'typecode', FIXED10, 'any'),
    ('dbus_type_is_valid', 'dbus/dbus-signature.c', 'typecode', ALL17, 'any'),
]


def switch_map(fn, var):
    """code -> case block id ; default block id"""
    sw = [b for b in fn.blocks.values() if (b.get('term') or {}).get('kind') == 'SwitchStmt'
          and is_ref(b['term'].get('cond') or {}, var)]
    if not sw:
        raise AnalysisBroken('%s: switch (%s) not found' % (fn.name, var))
    # the type switch is the one with most cases
    best = max(sw, key=lambda b: len(b['succs']))
    cases, default = {}, None
    for s in best['succs']:
        if s < 0:
            continue
        sb = fn.blocks[s]
        if sb.get('case'):
            for v in range(sb['case'][0], sb['case'][1] + 1):
                cases[v] = s
        else:
            default = s
    return cases, default, best


def body_of(fn, start):
    """Follow fall-through from a case label to the block that holds the body:
    returns the first block (from start) that has events or a terminator."""
    b = start
    seen = set()
    while b not in seen:
        seen.add(b)
        blk = fn.blocks[b]
        if blk['events'] or blk.get('term') or len(blk['succs']) != 1:
            return b
        b = blk['succs'][0]
    return b


def abort_only(fn, b):
    blk = fn.blocks[b]
    calls = [ev['e'].get('callee') for ev in blk['events'] if ev['ev'] == 'call']
    return bool(blk.get('noreturn')) and all(c in ('_dbus_real_assert_not_reached', '_dbus_abort') for c in calls) \
        and bool(calls)


def check_type_tables(prog, r):
    for name, file, var, required, mode in SWITCHES:
        fn = prog.fn(name, file)
        cases, default, sw = switch_map(fn, var)
        groups = {}
        for ch in required:
            key = '%s:%s' % (name, ch)
            b = cases.get(ord(ch))
            if b is None:
                r.violation(key, name, file, sw['term']['line'],
                            '%s has no case for type code \'%s\' (it would take the default branch)' % (name, ch))
                continue
            body = body_of(fn, b)
            if abort_only(fn, body):
                r.violation(key, name, file, fn.blocks[b].get('label_line') or sw['term']['line'],
                            '%s treats the valid type code \'%s\' as unreachable (its case only asserts): a '
                            'validated value of that type aborts the process or is skipped without advancing'
                            % (name, ch))
                continue
            groups.setdefault(body, []).append(ch)
            r.ok(key)
        if mode == 'width':
            for body, chs in groups.items():
                classes = {SPEC[c][1] for c in chs}
                # strings/paths/arrays may share the length-prefixed branch in byteswap / validate
                if classes <= {'len4', 'array'}:
                    continue
                # a branch that derives the size from _dbus_type_get_alignment(type) is width-generic
                region = reach_from(fn, [body])
                if any(ev['ev'] == 'call' and ev['e'].get('callee') == '_dbus_type_get_alignment'
                       and any(is_ref(a, var) for a in ev['e']['args'])
                       for bb in region for ev in fn.blocks[bb]['events']) and classes <= {1, 2, 4, 8}:
                    continue
                if len(classes) > 1:
                    r.violation('%s:group(%s)' % (name, ''.join(chs)), name, file, sw['term']['line'],
                                '%s handles type codes %s in one branch although they have different wire '
                                'sizes %s' % (name, ','.join(chs), sorted(map(str, classes))))
        if mode == 'align':
            for ch in required:
                b = cases.get(ord(ch))
                if b is None:
                    continue
                body = body_of(fn, b)
                rets = [ev['e'] for bb in reach_from(fn, [body]) for ev in fn.blocks[bb]['events']
                        if ev['ev'] == 'return']
                vals = {x['v'] for x in rets if is_int(x)}
                key = '%s:%s:alignment' % (name, ch)
                if vals == {SPEC[ch][0]}:
                    r.ok(key, {'alignment': SPEC[ch][0]})
                else:
                    r.violation(key, name, file, fn.blocks[b].get('label_line') or fn.line,
                                'alignment of \'%s\' is %s, the specification says %d' % (
                                    ch, sorted(vals), SPEC[ch][0]))
    # skip_basic: the cursor advances by the wire size
    fn = prog.fn('_dbus_marshal_skip_basic', 'dbus/dbus-marshal-basic.c')
    cases, default, sw = switch_map(fn, 'type')
    for ch in FIXED10:
        b = cases.get(ord(ch))
        if b is None:
            continue
        body = body_of(fn, b)
        adv = set()
        for ev in fn.blocks[body]['events']:
            for lhs, how, rhs in written_lvalues(ev):
                if lhs.get('k') == 'un' and lhs['op'] == '*' and is_ref(lhs['e'], 'pos'):
                    if how == '+=' and is_int(rhs):
                        adv.add(rhs['v'])
                    elif how == '++':
                        adv.add(1)
        key = '_dbus_marshal_skip_basic:%s:width' % ch
        if adv == {SPEC[ch][1]}:
            r.ok(key, {'width': SPEC[ch][1]})
        else:
            r.violation(key, fn.name, fn.file, fn.blocks[b].get('label_line') or fn.line,
                        'skipping a \'%s\' advances by %s bytes, its wire size is %s' % (ch, sorted(adv), SPEC[ch][1]))
    # byte-swapper: every multi-byte fixed value, and the length word of strings / paths / arrays, is
    # rewritten in place with a store of its own width (a case that only steps over the bytes converts nothing)
    fn = prog.fn('byteswap_body_helper', 'dbus/dbus-marshal-byteswap.c')
    cases, default, sw = switch_map(fn, 'current_type')
    want = {'n': '16', 'q': '16', 'b': '32', 'i': '32', 'u': '32', 'h': '32', 'x': '64', 't': '64', 'd': '64',
            's': '32', 'o': '32', 'a': '32'}
    for ch, bits in want.items():
        b = cases.get(ord(ch))
        if b is None:
            continue
        body = body_of(fn, b)
        stores = set()
        # the case body: everything reachable from its first block without going round the type loop again
        region = reach_from(fn, [body], stop={sw['id']})
        for ev in [e for bb in region for e in fn.blocks[bb]['events']]:
            for lhs, how, rhs in written_lvalues(ev):
                if lhs.get('k') == 'un' and lhs['op'] == '*' and how == '=' and isinstance(rhs, dict):
                    # the extractor drops casts: the width is that of the swap primitive whose result is stored
                    for x in walk(rhs):
                        if x.get('k') == 'call':
                            nm = (x.get('m') or '') + ' ' + (x.get('callee') or '')
                            for bb in ('16', '32', '64'):
                                if bb in nm and ('SWAP' in nm.upper()):
                                    stores.add(bb)
        key = 'byteswap_body_helper:%s:swapped-in-place' % ch
        if bits in stores:
            r.ok(key, {'store_bits': bits})
        else:
            r.violation(key, fn.name, fn.file, fn.blocks[b].get('label_line') or sw['term']['line'],
                        'the byte-swapper has no %s-bit store for type code \'%s\' (found stores: %s): the value '
                        'keeps its old byte order' % (bits, ch, sorted(stores) or 'none'))
    # the type-code macros themselves
    names = {'y': 'BYTE', 'b': 'BOOLEAN', 'n': 'INT16', 'q': 'UINT16', 'i': 'INT32', 'u': 'UINT32', 'x': 'INT64',
             't': 'UINT64', 'd': 'DOUBLE', 's': 'STRING', 'o': 'OBJECT_PATH', 'g': 'SIGNATURE', 'h': 'UNIX_FD',
             'a': 'ARRAY', 'v': 'VARIANT', 'r': 'STRUCT', 'e': 'DICT_ENTRY'}
    for ch, nm in names.items():
        v = prog.macro_int('DBUS_TYPE_' + nm)
        key = 'DBUS_TYPE_%s' % nm
        if v == ord(ch):
            r.ok(key)
        else:
            r.violation(key, 'dbus-protocol.h', 'dbus/dbus-protocol.h', None,
                        'DBUS_TYPE_%s is %r, the specification says \'%s\'' % (nm, v, ch))
