"""Shape rule for the circular doubly-linked list primitives of dbus/dbus-list.c (shared by the properties whose
ordering guarantees rest on them: owner queues C04, delivery order C05).

Abstract interpretation of link_before / link_after / _dbus_list_unlink over the finite set of canonical shapes:
every circular list of 0..3 nodes, the anchor (or the link to remove) at every position, the head at every
position.  The primitives are straight-line code with pointer-equality branches; the transfer functions are the
field stores and loads of the CFG events themselves (no code is run: the CFG facts are interpreted over shape
graphs).  Locality -- every access is at most two field hops away from a parameter, checked on the expression
trees -- is what lets three nodes stand for any length: nodes further away are never read or written."""
from engine.cfg import estr, is_int, is_member, is_ref, walk, written_lvalues, event_expr
from engine.facts import AnalysisBroken

LIST = 'dbus/dbus-list.c'
NEW = 'L'


class Stuck(Exception):
    pass


def hops(e):
    n = 0
    while e is not None and e.get('k') == 'member':
        n += 1
        e = e['base']
    return n, e


def interp(fn, args, heap, head, prog=None, depth=0, shared=None):
    """Interpret fn's CFG over the shape (heap: node -> {'next','prev'}, head).  args: param name -> node|None|'LISTP'.
    Returns (heap, head)."""
    if shared is None:
        heap = {k: dict(v) for k, v in heap.items()}
        state = {'head': head}
    else:
        heap, state = shared
    args = dict(args)

    def ev_expr(e):
        k = e.get('k')
        if k == 'int':
            if e['v'] == 0:
                return None
            raise Stuck('integer %s as pointer' % e['v'])
        if k == 'ref':
            if e['name'] in args:
                return args[e['name']]
            raise Stuck('unknown variable %s' % e['name'])
        if k == 'un' and e['op'] == '*':
            b = ev_expr(e['e'])
            if b == 'LISTP':
                return state['head']
            raise Stuck('dereference of %s' % estr(e))
        if k == 'member' and e['field'] in ('next', 'prev') and e.get('rec') == 'DBusList':
            b = ev_expr(e['base'])
            if b is None or b == 'LISTP':
                raise Stuck('NULL->%s in %s' % (e['field'], estr(e)))
            return heap[b][e['field']]
        if k == 'bin' and e['op'] in ('==', '!='):
            a, b = ev_expr(e['l']), ev_expr(e['r'])
            return int((a == b) == (e['op'] == '=='))
        if k == 'un' and e['op'] == '!':
            return int(not ev_expr(e['e']))
        raise Stuck('expression %s' % estr(e))

    def store(lhs, val):
        if lhs.get('k') == 'ref' or 'k' not in lhs:
            args[lhs['name']] = val          # a pointer kept in a local
            return
        if lhs.get('k') == 'un' and lhs['op'] == '*' and ev_expr(lhs['e']) == 'LISTP':
            state['head'] = val
            return
        if lhs.get('k') == 'member' and lhs['field'] in ('next', 'prev'):
            b = ev_expr(lhs['base'])
            if b is None or b == 'LISTP':
                raise Stuck('store through NULL in %s' % estr(lhs))
            heap[b][lhs['field']] = val
            return
        raise Stuck('store to %s' % estr(lhs))
    b = fn.entry
    for _ in range(200):
        blk = fn.blocks[b]
        for ev in blk['events']:
            if ev['ev'] == 'assign':
                if ev['e']['op'] != '=':
                    raise Stuck('compound assignment')
                store(ev['e']['l'], ev_expr(ev['e']['r']))
            elif ev['ev'] in ('deref', 'sub'):
                continue
            elif ev['ev'] == 'return':
                return heap, state['head']
            elif ev['ev'] == 'call':
                cal = ev['e'].get('callee')
                if cal in ('_dbus_real_assert',):
                    continue
                sub = None
                if prog is not None and cal and depth < 4:
                    try:
                        sub = prog.fn(cal, LIST)
                    except Exception:
                        sub = None
                if sub is None:
                    raise Stuck('call to %s' % cal)
                vals = [ev_expr(a) for a in ev['e']['args']]
                interp(sub, {p['name']: v for p, v in zip(sub.params, vals)}, None, None, prog, depth + 1,
                       (heap, state))
            elif ev['ev'] == 'decl':
                if ev.get('init') is not None:
                    args[ev['var']['name']] = ev_expr(ev['init'])
            else:
                raise Stuck('event %s' % ev['ev'])
        succs = [s for s in blk['succs']]
        t = blk.get('term')
        if b == fn.exit or not succs:
            return heap, state['head']
        if t and t.get('cond') is not None and len(succs) == 2:
            v = ev_expr(t['cond'])
            b = succs[0] if v not in (0, None) else succs[1]
        else:
            b = succs[0]
    raise Stuck('did not terminate')


def ring(seq):
    heap = {}
    n = len(seq)
    for i, x in enumerate(seq):
        heap[x] = {'next': seq[(i + 1) % n], 'prev': seq[(i - 1) % n]}
    return heap


def is_ring(heap, head, seq):
    """heap restricted to seq is exactly the circular list seq starting at head"""
    if not seq:
        return head is None
    if head != seq[0]:
        return False
    want = ring(seq)
    return all(heap.get(x) == want[x] for x in seq)


def check(prog, r):
    for name in ('link_before', 'link_after', '_dbus_list_unlink'):
        fn = prog.fn(name, LIST)
        # locality
        deep = 0
        for b, i, ev in fn.events():
            for x in walk(event_expr(ev)):
                if x.get('k') == 'member':
                    h, root = hops(x)
                    deep = max(deep, h)
        if deep > 2:
            r.violation('%s:local' % name, fn.name, LIST, fn.line,
                        '%s reaches %d links away from its arguments: the three-node shapes no longer cover it' % (name, deep))
            continue
        plist = [p['name'] for p in fn.params if '**' in (p.get('t') or '')]
        pothers = [p['name'] for p in fn.params if '**' not in (p.get('t') or '')]
        if len(plist) != 1:
            raise AnalysisBroken('%s: list head parameter not found' % name)

        def attempt(pn):
            cases = 0
            bad = None
            for n in range(0, 4):
                nodes = list(range(n))
                for hpos in range(max(n, 1)):
                    seq = nodes[hpos:] + nodes[:hpos]         # list order starting at the head
                    head = seq[0] if seq else None
                    if name == '_dbus_list_unlink':
                        if n == 0:
                            continue
                        for victim in nodes:
                            heap = ring(seq)
                            try:
                                h2, head2 = interp(fn, {pn[0]: 'LISTP', pn[1]: victim}, heap, head)
                            except Stuck as e:
                                bad = bad or ('shape n=%d head=%d link=%d: %s' % (n, head, victim, e))
                                continue
                            cases += 1
                            rest = [x for x in seq if x != victim]
                            if victim == head and rest:
                                i = seq.index(victim)
                                rest = seq[i + 1:] + seq[:i]
                            ok = is_ring(h2, head2, rest) and h2[victim] == {'next': None, 'prev': None}
                            if not ok:
                                bad = bad or ('removing node %d from the list %s (head %s) leaves head=%s, links=%s; '
                                              'expected the list %s and a detached link' % (
                                                  victim, seq, head, head2, {k: (v['prev'], v['next']) for k, v in h2.items()}, rest))
                    else:
                        anchors = nodes if n else [None]
                        for anchor in anchors:
                            heap = ring(seq)
                            heap[NEW] = {'next': None, 'prev': None}
                            try:
                                h2, head2 = interp(fn, {pn[0]: 'LISTP', pn[1]: anchor, pn[2]: NEW}, heap, head)
                            except Stuck as e:
                                bad = bad or ('shape n=%d head=%s anchor=%s: %s' % (n, head, anchor, e))
                                continue
                            cases += 1
                            if n == 0:
                                want = [NEW]
                            else:
                                i = seq.index(anchor)
                                if name == 'link_before':
                                    want = seq[:i] + [NEW] + seq[i:]
                                    if anchor == head:
                                        want = [NEW] + seq       # inserting before the head makes the link the new head
                                else:
                                    want = seq[:i + 1] + [NEW] + seq[i + 1:]
                            if not is_ring(h2, head2, want):
                                bad = bad or ('inserting %s node %s into the list %s (head %s) gives head=%s, (prev,next)=%s; '
                                              'expected the circular list %s' % (
                                                  'before' if name == 'link_before' else 'after', anchor, seq, head, head2,
                                                  {k: (v['prev'], v['next']) for k, v in h2.items()}, want))

            return cases, bad
        orders = [pothers] if len(pothers) == 1 else [pothers, pothers[::-1]]
        results = [attempt([plist[0]] + o) for o in orders]
        cases, bad = min(results, key=lambda cb: (cb[1] is not None, -cb[0]))
        key = '%s:keeps-the-ring' % name
        if cases < 4:
            raise AnalysisBroken('%s: only %d shapes could be interpreted (%s)' % (name, cases, bad))
        if bad:
            r.violation(key, fn.name, LIST, fn.line, bad)
        else:
            r.ok(key, {'shapes': cases})
    # the public link operations, interpreted through their calls into the primitives
    ops = {
        '_dbus_list_append_link': lambda seq, a: seq + [NEW],
        '_dbus_list_prepend_link': lambda seq, a: [NEW] + seq,
        '_dbus_list_insert_after_link': lambda seq, a: ([NEW] + seq) if a is None else
            (seq[:seq.index(a) + 1] + [NEW] + seq[seq.index(a) + 1:]),
        '_dbus_list_insert_before_link': lambda seq, a: (seq + [NEW]) if a is None else
            ([NEW] + seq if seq.index(a) == 0 else seq[:seq.index(a)] + [NEW] + seq[seq.index(a):]),
    }
    for name, model in ops.items():
        fn = prog.fn(name, LIST)
        pn = [p['name'] for p in fn.params]
        bad = None
        cases = 0
        for n in range(0, 4):
            nodes = list(range(n))
            for hpos in range(max(n, 1)):
                seq = nodes[hpos:] + nodes[:hpos]
                head = seq[0] if seq else None
                anchors = [None] + nodes if len(pn) == 3 else [None]
                for anchor in anchors:
                    heap = ring(seq)
                    heap[NEW] = {'next': None, 'prev': None}
                    a = {pn[0]: 'LISTP', pn[-1]: NEW}
                    if len(pn) == 3:
                        a[pn[1]] = anchor
                    try:
                        h2, head2 = interp(fn, a, heap, head, prog)
                    except Stuck as e:
                        bad = bad or ('shape n=%d head=%s anchor=%s: %s' % (n, head, anchor, e))
                        continue
                    cases += 1
                    want = model(list(seq), anchor)
                    if not is_ring(h2, head2, want):
                        bad = bad or ('%s on the list %s (head %s, anchor %s) gives head=%s, (prev,next)=%s; expected %s'
                                      % (name, seq, head, anchor, head2,
                                         {k: (v['prev'], v['next']) for k, v in h2.items()}, want))
        key = '%s:order' % name
        if cases < 4:
            raise AnalysisBroken('%s: only %d shapes could be interpreted (%s)' % (name, cases, bad))
        if bad:
            r.violation(key, fn.name, LIST, fn.line, bad)
        else:
            r.ok(key, {'shapes': cases})
