"""C11 - message framing is independent of how the byte stream is chunked.
DESIGN.md C11.1 - C11.4 (few structural clauses; sequence equality across partitions is not decided)."""
from engine.cfg import (Explorer, estr, is_call, is_int, is_member, is_ref, strip_addr, walk,
                        written_lvalues, event_expr)
from engine.facts import AnalysisBroken
from engine import lib

MSG = 'dbus/dbus-message.c'
HDR = 'dbus/dbus-marshal-header.c'
TR = 'dbus/dbus-transport.c'


def linear(e):
    """expression -> {name: coeff, '': const} for sums/differences of variables and integers, else None"""
    if e is None:
        return None
    if is_int(e):
        return {'': e['v']}
    if is_ref(e):
        return {e['name']: 1}
    if e.get('k') == 'bin' and e['op'] in ('+', '-'):
        a, b = linear(e['l']), linear(e['r'])
        if a is None or b is None:
            return None
        out = dict(a)
        for k, v in b.items():
            out[k] = out.get(k, 0) + (v if e['op'] == '+' else -v)
        return {k: v for k, v in out.items() if v != 0}
    return None


def lin_eq(a, b):
    return a is not None and b is not None and {k: v for k, v in a.items() if v} == {k: v for k, v in b.items() if v}


def c11_1(ck, prog):
    r = ck.rule('C11.1', 'a parsed message consumes exactly the framed bytes: header copy, body copy and the '
                'deletion from the loader all use the framing lengths, which are never reassigned, and bytes are '
                'deleted only on the success path', 'TS',
                breaks='the parser loses or re-reads bytes between messages: later messages are mis-framed', floor=5)
    fn = prog.fn('load_message', MSG)
    pl = {p['name']: p['id'] for p in fn.params}
    for b, i, ev in fn.events():
        for lhs, how, rhs in written_lvalues(ev):
            if is_ref(lhs) and lhs.get('id') in (pl.get('header_len'), pl.get('body_len')) and how != '&arg':
                r.violation('load_message:%s-reassigned' % lhs['name'], fn.name, MSG, ev['line'],
                            'the framing length %s is modified inside load_message' % lhs['name'])
    # header load gets (.., header_len, body_len, &loader->data, 0, header_len...) -- check it is given header_len
    hl = [c for b, i, c in fn.calls('_dbus_header_load')]
    if hl and any(is_ref(a, 'header_len') for a in hl[0]['args']) and any(is_ref(a, 'body_len') for a in hl[0]['args']):
        r.ok('load_message:header-load-gets-framing-lengths')
    else:
        r.violation('load_message:header-load-gets-framing-lengths', fn.name, MSG, fn.line,
                    '_dbus_header_load is not given header_len / body_len')
    body = [c for b, i, c in fn.calls('_dbus_string_copy_len')
            if is_member(strip_addr(c['args'][0]) or {}, 'data', 'DBusMessageLoader')
            and is_member(strip_addr(c['args'][3]) or {}, 'body', 'DBusMessage')]
    if body and all(lin_eq(linear(c['args'][1]), {'header_len': 1}) and lin_eq(linear(c['args'][2]), {'body_len': 1})
                    for c in body):
        r.ok('load_message:body-copy(header_len, body_len)')
    else:
        r.violation('load_message:body-copy(header_len, body_len)', fn.name, MSG, fn.line,
                    'the body is not copied from offset header_len with length body_len')
    dels = [c for b, i, c in fn.calls('_dbus_string_delete')
            if is_member(strip_addr(c['args'][0]) or {}, 'data', 'DBusMessageLoader')]
    total = {}
    okd = bool(dels)
    for c in dels:
        ln = linear(c['args'][2])
        if not is_int(c['args'][1], 0) or ln is None:
            okd = False
            break
        for k, v in ln.items():
            total[k] = total.get(k, 0) + v
    # deletions may be split (header, then body) as long as they add up; they must all lie on one path
    okd = okd and lin_eq(total, {'header_len': 1, 'body_len': 1})
    if okd:
        r.ok('load_message:delete(0, header_len + body_len)')
    else:
        r.violation('load_message:delete(0, header_len + body_len)', fn.name, MSG, fn.line,
                    'the bytes deleted from the front of the loader do not add up to header_len + body_len')
    # deletion only on the success path: after it, the function returns TRUE
    del_ids = {c['id'] for c in dels}
    body_ids = {c['id'] for c in body}

    def on_event(user, ev, ctx):
        if ev['ev'] == 'call' and ev['e']['id'] in del_ids:
            if not any(ctx.result_known(bid) is True for bid in body_ids):
                ctx.report('loader bytes are deleted although the body copy did not succeed', ev['line'], key='early')
            return True
        return user

    def on_exit(user, ctx, ret, ev):
        st = ctx.ret_status(ret)
        if user and st == 'fail':
            ctx.report('returns FALSE after the loader bytes were deleted', ev['line'], key='fail-after-delete')
        if not user and st == 'ok':
            ctx.report('returns TRUE without consuming the message bytes (the same message would be parsed again)',
                       ev['line'], key='ok-without-delete')
    ex = Explorer(fn, init=False, on_event=on_event, on_exit=on_exit, calls={'_dbus_string_copy_len'},
                  track='auto', cap=400000).run()
    if ex.reports:
        r.from_reports(ex.reports, keyfn=lambda k, rep: 'load_message:%s' % k)
    else:
        r.ok('load_message:delete-iff-success')
    # framing lengths come from the fixed-header check of the same iteration
    q = prog.fn('_dbus_message_loader_queue_messages', MSG)
    hv = [c for b, i, c in q.calls('_dbus_header_have_message_untrusted')]
    lm = [c for b, i, c in q.calls('load_message')]
    okq = hv and lm and all(any(is_ref(strip_addr(a) or {}, 'header_len') for a in c['args'])
                            and any(is_ref(strip_addr(a) or {}, 'body_len') for a in c['args']) for c in hv) \
        and all(any(is_ref(a, 'header_len') for a in c['args']) and any(is_ref(a, 'body_len') for a in c['args']) for c in lm)
    if okq:
        r.ok('queue_messages:lengths-from-have_message')
    else:
        r.violation('queue_messages:lengths-from-have_message', q.name, MSG, q.line,
                    'load_message is not given the lengths computed by _dbus_header_have_message_untrusted')
    lib.must_precede(q, r, lambda ev, ctx: 'load_message' if ev['ev'] == 'call' and ev['e'].get('callee') == 'load_message' else None,
                     [lib.Guard('_dbus_header_have_message_untrusted', lambda c, ctx: c.get('callee') ==
                                '_dbus_header_have_message_untrusted')])
    # have_message: TRUE only when the whole message is in the buffer
    hm = prog.fn('_dbus_header_have_message_untrusted', HDR)
    found = False
    for bid, blk in hm.blocks.items():
        for ev in blk['events']:
            if ev['ev'] == 'return' and ev.get('e') is not None:
                for x in walk(ev['e']):
                    if x.get('k') == 'bin' and x['op'] in ('<=', '>=') and \
                            any(is_ref(y, 'len') for y in walk(x)) and \
                            any(is_ref(y) and 'body_len' in y['name'] for y in walk(x)):
                        found = True
        t = blk.get('term')
        if t and t.get('cond') is not None:
            for x in walk(t['cond']):
                if x.get('k') == 'bin' and x['op'] in ('<=', '>=', '<', '>') and any(is_ref(y, 'len') for y in walk(x)) \
                        and any(is_ref(y) and 'body_len' in y['name'] for y in walk(x)):
                    found = True
    if found:
        r.ok('have_message:whole-message-present')
    else:
        r.violation('have_message:whole-message-present', hm.name, HDR, hm.line,
                    'the test header_len + body_len <= len was not found')


def c11_3(ck, prog):
    r = ck.rule('C11.3', 'bytes that followed BEGIN are handed from the auth conversation to the loader exactly '
                'once, before any message is framed, and removed from the auth buffer only after the copy '
                'succeeded', 'DOM', breaks='pipelined bytes after BEGIN are lost or parsed twice', floor=4)

    def val(f, how, rhs):
        if f.name == '_dbus_transport_init_base':
            return None if is_int(rhs, 0) else 'initialised to %s' % estr(rhs)
        return None if (how == '=' and is_int(rhs) and rhs['v'] != 0) else 'written with %s %s' % (how, estr(rhs))
    lib.who_writes_field(prog, r, 'DBusTransport', 'unused_bytes_recovered',
                         {'_dbus_transport_init_base', '_dbus_transport_get_dispatch_status'}, value_ok=val)
    gs = prog.fn('_dbus_transport_get_dispatch_status', TR)
    rec = {c['id'] for b, i, c in gs.calls('recover_unused_bytes')}
    if not rec:
        raise AnalysisBroken('get_dispatch_status no longer recovers unused bytes')

    def akey(atom, resolve):
        if atom[0] == 'truthy' and is_member(atom[1], 'unused_bytes_recovered', 'DBusTransport'):
            return 'recovered'
        return None

    def on_event(user, ev, ctx):
        if ev['ev'] == 'call':
            c = ev['e']
            if c['id'] in rec and ctx.atom('recovered') is not False:
                ctx.report('unused bytes may be recovered a second time', c['line'], key='twice')
            if c.get('callee') == '_dbus_message_loader_queue_messages':
                if not (ctx.atom('recovered') is True or any(ctx.result_known(x) is True for x in rec)):
                    ctx.report('messages are framed before the bytes left over from authentication were handed over',
                               c['line'], key='before-recovery')
        for lhs, how, rhs in written_lvalues(ev):
            if is_member(lhs, 'unused_bytes_recovered', 'DBusTransport'):
                if not (ctx.atom('recovered') is True or any(ctx.result_known(x) is True for x in rec)):
                    ctx.report('the hand-over is marked done although recover_unused_bytes did not succeed',
                               ev['line'], key='marked-early')
        return user
    ex = Explorer(gs, on_event=on_event, atom_key=akey, calls={'recover_unused_bytes'}, track='auto').run()
    if ex.reports:
        r.from_reports(ex.reports, keyfn=lambda k, rep: 'get_dispatch_status:%s' % k)
    else:
        r.ok('get_dispatch_status:recover-once-before-framing')
    lib.who_calls(prog, r, 'recover_unused_bytes', {'_dbus_transport_get_dispatch_status'})
    ru = prog.fn('recover_unused_bytes', TR)
    # delete_unused_bytes only after a successful copy/move
    cp = {c['id'] for b, i, c in ru.calls(('_dbus_string_copy', '_dbus_string_move'))}

    def on_event2(user, ev, ctx):
        if ev['ev'] == 'call' and ev['e'].get('callee') == '_dbus_auth_delete_unused_bytes':
            t = None
            for k, v in ctx.env.items():
                if k[0] == 'v' and ctx.ex.tracked.get(k[1]) == 'succeeded':
                    t = v
            ok = any(ctx.result_known(c) is True for c in cp) or (t is not None and t == ('c', 1)) or (t is not None and t[0] == 'nz')
            if not ok:
                ctx.report('the auth buffer is emptied although the bytes were not copied to the loader', ev['line'],
                           key='delete-before-copy')
        return user
    ex2 = Explorer(ru, on_event=on_event2, calls={'_dbus_string_copy', '_dbus_string_move'}, track='auto').run()
    if ex2.reports:
        r.from_reports(ex2.reports, keyfn=lambda k, rep: 'recover_unused_bytes:%s' % k)
    else:
        r.ok('recover_unused_bytes:delete-after-copy')
    # process_command consumes exactly the line (eol + 2)
    pc = prog.fn('process_command', 'dbus/dbus-auth.c')
    dels = [c for b, i, c in pc.calls('_dbus_string_delete') if is_member(strip_addr(c['args'][0]) or {}, 'incoming', 'DBusAuth')]
    lens = sorted(estr(c['args'][2]) for c in dels if is_int(c['args'][1], 0))
    okl = len(lens) == len(dels) and lens in (['(eol + 2)'], ['2', 'eol'])
    if okl:
        r.ok('process_command:consumes-one-line')
    else:
        r.violation('process_command:consumes-one-line', pc.name, pc.file, pc.line,
                    'a handshake command does not consume exactly its line (0, eol + 2): bytes after BEGIN would be eaten')


def c11_3b(ck, prog):
    r = ck.rule('C11.3b', 'no message bytes are read in the pass in which authentication completed (bytes that '
                'followed BEGIN are still in the auth buffer and must reach the loader first); the dispatch status '
                'reports remaining data whenever the loader holds a message', 'TS',
                breaks='bytes are reordered around the end of the handshake; messages parsed before an invalid one '
                       'are dropped depending on how the stream was chunked', floor=3)
    TS_ = 'dbus/dbus-transport-socket.c'
    n = 0
    for fn in lib.prod_funcs(prog, {TS_}):
        auth = [c for b, i, c in fn.calls('do_authentication')]
        if not auth or not fn.calls('do_reading'):
            continue
        n += 1
        # the "authentication just completed" out flag (a call that passes NULL for it cannot know)
        flagids = {strip_addr(c['args'][3])['id']: strip_addr(c['args'][3])['name'] for c in auth
                   if len(c['args']) > 3 and strip_addr(c['args'][3]) is not None and is_ref(strip_addr(c['args'][3]))}

        def on_event(user, ev, ctx, flagids=flagids):
            if ev['ev'] == 'call':
                if ev['e'].get('callee') == 'do_authentication':
                    return 'authed'
                if ev['e'].get('callee') == 'do_reading' and user == 'authed':
                    ok = False
                    for k, v in ctx.env.items():
                        if k[0] == 'v' and k[1] in flagids and v == ('c', 0):
                            ok = True
                    if not ok:
                        ctx.report('do_reading can run in the same pass in which do_authentication reported that '
                                   'authentication just completed', ev['line'], key='read-after-auth')
            return user
        ex = Explorer(fn, init='start', on_event=on_event, track=set(flagids.values()), cap=300000).run()
        key = '%s:no-read-in-auth-completion-pass' % fn.name
        if ex.reports:
            r.from_reports(ex.reports, keyfn=lambda k, rep, key=key: key)
        else:
            r.ok(key)
    if n < 2:
        raise AnalysisBroken('only %d functions combine do_authentication and do_reading' % n)
    gs = prog.fn('_dbus_transport_get_dispatch_status', TR)
    q = {c['id'] for b, i, c in gs.calls('_dbus_message_loader_queue_messages')}
    pk = {c['id'] for b, i, c in gs.calls('_dbus_message_loader_peek_message')}
    complete = prog.enums.get('DBUS_DISPATCH_COMPLETE')
    remains = prog.enums.get('DBUS_DISPATCH_DATA_REMAINS')
    if not q or not pk or complete is None:
        raise AnalysisBroken('get_dispatch_status: anchors vanished')

    def on_exit(user, ctx, ret, ev):
        v = ctx.const_of(ret) if ret is not None else None
        if any(ctx.result_known(c) is True for c in q):
            has = [ctx.result_known(c) for c in pk]
            if v == complete and not any(h is False for h in has):
                ctx.report('reports COMPLETE after parsing without having found the loader queue empty (messages '
                           'parsed before an invalid one would never be handed to the connection)', ev['line'],
                           key='complete-with-messages')
            if v == remains and not any(h is True for h in has):
                ctx.report('reports DATA_REMAINS without a message in the loader', ev['line'], key='remains-empty')
    ex = Explorer(gs, on_exit=on_exit, calls={'_dbus_message_loader_queue_messages',
                                              '_dbus_message_loader_peek_message'}, track='auto').run()
    if ex.reports:
        r.from_reports(ex.reports, keyfn=lambda k, rep: 'get_dispatch_status:%s' % k)
    else:
        r.ok('get_dispatch_status:status-follows-loader-queue')


def c11_6(ck, prog, rid='C11.6'):
    r = ck.rule(rid, 'while descriptors are pending the loader asks for exactly the bytes that complete the message it '
                'is in the middle of: every read budget it hands out is (fixed header size | header_len + body_len) '
                'minus the bytes already buffered beyond whole messages, with descriptor reception switched off, and '
                'whole buffered messages are skipped by the same amount in both counters', 'ABS',
                breaks='the transport reads past the end of the current message with descriptor reception off: the '
                'descriptors of the next message are discarded by the kernel and a valid stream is declared corrupt '
                'only when it happens to be split there', floor=3)
    fn = prog.fn('_dbus_message_loader_get_buffer', MSG)
    if len(fn.params) < 4:
        raise AnalysisBroken('_dbus_message_loader_get_buffer: parameters changed')
    budget, mayfd = fn.params[2]['id'], fn.params[3]['id']
    # R: bytes buffered (and not yet skipped)
    rem = [lhs for b, i, ev in fn.events() for lhs, how, rhs in written_lvalues(ev)
           if is_ref(lhs) and how == '=' and is_call(rhs, '_dbus_string_get_length')]
    if len(rem) != 1:
        if not rem:
            r.skip('no descriptor-pending slow path in this configuration')
            return
        raise AnalysisBroken('_dbus_message_loader_get_buffer: remaining-bytes variable not found')
    R = rem[0]
    # locals with one (structurally unique) definition are expanded
    defs = {}
    for b, i, ev in fn.events():
        for lhs, how, rhs in written_lvalues(ev):
            if is_ref(lhs) and lhs.get('kind') == 'local' and how in ('=', 'decl') and rhs is not None \
                    and lhs.get('id') != R['id']:
                defs.setdefault(lhs['id'], []).append(rhs)
    from engine.cfg import same_expr
    uniq = {i: d[0] for i, d in defs.items() if all(same_expr(x, d[0]) for x in d) and not is_int(d[0])}

    def lin2(e, depth=0):
        if is_ref(e) and e.get('id') in uniq and depth < 6:
            return lin2(uniq[e['id']], depth + 1)
        if e is not None and e.get('k') == 'bin' and e['op'] in ('+', '-'):
            a, b2 = lin2(e['l'], depth + 1), lin2(e['r'], depth + 1)
            if a is None or b2 is None:
                return None
            out = dict(a)
            for k, v in b2.items():
                out[k] = out.get(k, 0) + (v if e['op'] == '+' else -v)
            return {k: v for k, v in out.items() if v}
        return linear(e)
    minhdr = prog.macro_int('DBUS_MINIMUM_HEADER_SIZE')
    n = 0
    for b, i, ev in fn.events():
        for lhs, how, rhs in written_lvalues(ev):
            if lhs.get('k') == 'un' and lhs['op'] == '*' and is_ref(lhs['e']) and lhs['e'].get('id') == budget \
                    and how == '=' and rhs is not None:
                if is_int(rhs) and rhs['v'] > 65536:
                    continue                      # the unrestricted default
                n += 1
                ln = lin2(rhs)
                key = 'get_buffer:budget@%d' % n
                okv = ln is not None and ln.get(R['name']) == -1 and (
                    {k: v for k, v in ln.items() if k != R['name']} in ({'': minhdr}, {'header_len': 1, 'body_len': 1}))
                if okv:
                    r.ok(key, {'budget': estr(rhs)})
                else:
                    r.violation(key, fn.name, MSG, ev['line'],
                                'with descriptors pending the read budget is set to %s; it must be the size of the '
                                'message being completed (%d for the fixed header, else header_len + body_len) minus '
                                '%s, the bytes already buffered for it' % (estr(rhs), minhdr, R['name']))
    if n < 2:
        raise AnalysisBroken('_dbus_message_loader_get_buffer: restricted read budgets not found (%d)' % n)
    # the skip over whole messages moves both counters by the same amount
    steps = {}
    for b, i, ev in fn.events():
        for lhs, how, rhs in written_lvalues(ev):
            if is_ref(lhs) and how in ('-=', '+=') and rhs is not None:
                steps[lhs['name']] = (how, lin2(rhs))
    okstep = steps.get(R['name'], (None, None))[0] == '-=' and any(
        h == '+=' and l == steps[R['name']][1] for nme, (h, l) in steps.items() if nme != R['name']) \
        and steps[R['name']][1] == {'header_len': 1, 'body_len': 1}
    (r.ok('get_buffer:skip-whole-messages') if okstep else
     r.violation('get_buffer:skip-whole-messages', fn.name, MSG, fn.line,
                 'a whole buffered message must be skipped by header_len + body_len in both the remaining-bytes and '
                 'the offset counter; found %s' % steps))


def c11_7(ck, prog):
    r = ck.rule('C11.7', 'one read during the handshake cannot overrun the handshake buffer: the transport\'s read '
                'quantum is smaller than the ceiling _dbus_auth_do_work puts on the unprocessed input (a command line '
                'left over plus one read must stay under it)', 'TAB',
                breaks='message bytes that arrive in the same read as BEGIN push the buffer over the ceiling before '
                'BEGIN is processed: the server disconnects although the stream is valid, depending only on how it '
                'was chunked', floor=2)
    tn = prog.fn('_dbus_transport_new_for_socket', TR.replace('dbus-transport.c', 'dbus-transport-socket.c'))
    qs = [rhs for b, i, ev in tn.events() for lhs, how, rhs in written_lvalues(ev)
          if is_member(lhs, 'max_bytes_read_per_iteration') and how == '=']
    aw = prog.fn('_dbus_auth_do_work', 'dbus/dbus-auth.c')
    ceil = None
    for blk in aw.blocks.values():
        t = blk.get('term')
        if t and t.get('cond') is not None:
            for x in walk(t['cond']):
                if x.get('k') == 'bin' and x['op'] in ('>', '>=') and is_int(x['r']) and x['r'].get('name') \
                        and is_call(x['l'], '_dbus_string_get_length') \
                        and is_member(strip_addr(x['l']['args'][0]) or {}, 'incoming', 'DBusAuth'):
                    ceil = x['r']['v']
    if not qs or ceil is None:
        raise AnalysisBroken('read quantum / handshake buffer ceiling not found')
    for q in qs:
        key = 'read-quantum<ceiling'
        if is_int(q) and 0 < q['v'] * 2 <= ceil:
            r.ok(key, {'quantum': q['v'], 'ceiling': ceil})
        else:
            r.violation(key, tn.name, tn.file, tn.line,
                        'the read quantum is %s but _dbus_auth_do_work gives up when more than %d unprocessed bytes '
                        'are buffered: a single read can exceed the ceiling (a margin of at least one quantum is '
                        'required)' % (estr(q), ceil))
    r.ok('ceiling-found', {'ceiling': ceil})


def c11_5(ck, prog):
    r = ck.rule('C11.5', 'one notion of "end of message": wherever the loader sizes a read or skips a message from '
                'the framing lengths reported by _dbus_header_have_message_untrusted, the message length is exactly '
                'header_len + body_len (the value load_message consumes)', 'TS',
                breaks='a read sized past the end of a partial message swallows the first bytes of the next one: '
                       'its file descriptors are dropped and the stream is declared corrupt for some chunkings',
                floor=2)
    M = 'dbus/dbus-message.c'
    n = 0
    for name in ('_dbus_message_loader_get_buffer', '_dbus_message_loader_queue_messages'):
        fn = prog.fn(name, M)
        lens = {}
        for b, i, c in fn.calls('_dbus_header_have_message_untrusted'):
            for idx, what in ((4, 'header_len'), (5, 'body_len')):
                a = strip_addr(c['args'][idx]) if len(c['args']) > idx else None
                if a is not None and is_ref(a):
                    lens[a['id']] = what
        if len(set(lens.values())) < 2:
            if name.endswith('queue_messages'):
                raise AnalysisBroken('%s: framing lengths not found' % name)
            continue            # built without unix-fd passing: get_buffer has no slow path
        hid = [i for i, w in lens.items() if w == 'header_len']
        bid_ = [i for i, w in lens.items() if w == 'body_len']

        def is_sum(e):
            while e is not None and e.get('k') in ('paren', 'cast'):
                e = e.get('e')
            if e is None or e.get('k') != 'bin' or e['op'] != '+':
                return False
            ids = {e['l'].get('id') if is_ref(e['l']) else None, e['r'].get('id') if is_ref(e['r']) else None}
            return bool(ids & set(hid)) and bool(ids & set(bid_)) and len(ids) == 2
        for b, i, ev in fn.events():
            tops = []
            for lhs, how, rhs in written_lvalues(ev):
                if rhs is not None and how in ('=', 'decl', '+=', '-=') and isinstance(rhs, dict) and rhs.get('k') != 'call':
                    tops.append(('value stored in %s' % estr(lhs), rhs))
            if ev['ev'] == 'call':
                for ai, a in enumerate(ev['e']['args']):
                    tops.append(('argument %d of %s' % (ai, ev['e'].get('callee')), a))
            for what, top in tops:
                if is_ref(top) or not any(is_ref(x) and x.get('id') in lens for x in walk(top)):
                    continue
                if top.get('k') == 'un' and top.get('op') == '&':
                    continue
                n += 1
                key = '%s:%s' % (name, what)
                # every maximal arithmetic expression over the framing lengths is header_len + body_len,
                # or that sum compared / combined with other quantities
                t2 = top
                while t2.get('k') in ('paren', 'cast') and isinstance(t2.get('e'), dict):
                    t2 = t2['e']
                if t2.get('k') == 'bin' and t2['op'] in ('<', '>', '<=', '>=', '==', '!='):
                    sides = [x for x in (t2['l'], t2['r']) if any(is_ref(y) and y.get('id') in lens for y in walk(x))]
                else:
                    sides = [t2]
                if all(is_sum(x) for x in sides):
                    r.ok(key, {'site': '%s:%d' % (M, ev['line'])})
                else:
                    r.violation(key, name, M, ev['line'],
                                'the message length is derived as %s, not as header_len + body_len' % estr(top)[:120])
    r.note('%d uses of the framing lengths examined' % n)
    # the loader never asks the transport for a zero-byte read: "read the rest of the fixed header" is
    # requested only while fewer bytes than that are buffered (a read of 0 bytes looks like end-of-file)
    gb = prog.fn('_dbus_message_loader_get_buffer', M)
    nst = [0]

    def akey(atom, resolve):
        if atom[0] == 'cmp' and atom[1] == '<' and is_ref(atom[2]) and is_int(atom[3]):
            return ('lt', atom[3]['v'], frozenset([atom[2]['id']]))
        return None

    def on_event(user, ev, ctx):
        for lhs, how, rhs in written_lvalues(ev):
            if lhs.get('k') == 'un' and lhs['op'] == '*' and is_ref(lhs['e'], 'max_to_read') and how == '=' \
                    and isinstance(rhs, dict) and rhs.get('k') == 'bin' and rhs['op'] == '-' and is_int(rhs['l']) \
                    and is_ref(rhs['r']):
                nst[0] += 1
                ok = any(k[0] == 'lt' and k[1] <= rhs['l']['v'] and rhs['r']['id'] in k[2] and v is True
                         for k, v in ctx.atoms().items())
                if not ok:
                    ctx.report('*max_to_read = %s can be 0 (or negative): %s is not known to be smaller than %d here; '
                               'a zero-byte read is taken for end-of-file' % (estr(rhs), rhs['r']['name'],
                                                                             rhs['l']['v']), ev['line'], key='zero-read')
        return user
    ex = Explorer(gb, on_event=on_event, atom_key=akey, track=None, cap=300000).run()
    if nst[0]:
        if ex.reports:
            r.from_reports(ex.reports, keyfn=lambda k, rep: 'get_buffer:%s' % k)
        else:
            r.ok('get_buffer:never-a-zero-byte-read')


def c11_8(ck, prog, rid='C11.8'):
    """The errno predicates the I/O paths branch on test the errno they are named after."""
    def strip(e):
        while e is not None and e.get('k') in ('paren', 'cast'):
            e = e['e']
        return e
    r = ck.rule(rid, 'each errno predicate _dbus_get_is_errno_<name> compares its argument for equality with the '
                'errno constant(s) it is named after and with nothing else', 'TAB',
                breaks='the I/O loops take the wrong branch on a system-call failure: a write interrupted by a signal '
                'is treated as a broken pipe (the connection is dropped in the middle of a message), or a peer that '
                'went away is retried forever', floor=4)
    n = 0
    for f in prog.funcs.values():
        if not f.name.startswith('_dbus_get_is_errno_') or not prog.is_production(f) or not f.params:
            continue
        want = {w.upper() for w in f.name[len('_dbus_get_is_errno_'):].split('_or_')}
        pid = f.params[0]['id']
        got, other = set(), []
        for b, i, ev in f.events():
            if ev['ev'] != 'return' or ev.get('e') is None:
                continue
            for x in walk(ev['e']):
                if x.get('k') == 'bin' and x['op'] in ('==', '!=', '<', '>', '<=', '>='):
                    sides = [x['l'], x['r']]
                    ref = [y for y in sides if is_ref(strip(y)) and strip(y).get('id') == pid]
                    con = [strip(y) for y in sides if is_int(strip(y))]
                    if x['op'] == '==' and len(ref) == 1 and len(con) == 1 and con[0].get('name'):
                        got.add(con[0]['name'])
                    else:
                        other.append(estr(x))
            top = strip(ev['e'])
            if not (top.get('k') == 'bin' and top['op'] in ('==', '||')):
                other.append(estr(top))
        n += 1
        key = '%s:tests-its-errno' % f.name
        if other or not got or not got <= want:
            r.violation(key, f.name, f.file, f.line, '%s answers %s' % (
                f.name, ('whether its argument is ' + ' / '.join(sorted(got))) if got and not other else
                ('with ' + '; '.join(other)) if other else 'without comparing its argument'))
        else:
            r.ok(key, {'errno': sorted(got)})
    if n < 4:
        raise AnalysisBroken('only %d errno predicates found' % n)


def run(ck):
    ck.explanation = (
        'Static rules over dbus-message.c, dbus-marshal-header.c, dbus-transport.c, dbus-auth.c: load_message uses '
        'the framing lengths unchanged for header load, body copy and the single deletion, deletes only on the '
        'success path and never reports success without consuming; the lengths come from the fixed-header check of '
        'the same iteration, which requires the whole message to be buffered; corruption is sticky (C01.2); bytes '
        'left over from the handshake are handed to the loader once, before framing, and dropped from the auth '
        'buffer only after the copy; a handshake command consumes exactly its line.')
    ck.not_decided = ('equality of the produced message sequence across all partitions of the byte stream '
                      '(a run-time property); the point of corruption detection')
    for v, prog in ck.programs(thorough_variants=('B',)):
        c11_1(ck, prog)
        from rules.C01 import c01_2
        c11_2 = ck.rule('C11.2', 'corruption is sticky and stops framing (shared with C01.2)', 'WHO', floor=3)
        save = ck.rule
        ck.rule = lambda *a, **k: c11_2
        try:
            c01_2(ck, prog)
        finally:
            ck.rule = save
        c11_3(ck, prog)
        c11_3b(ck, prog)
        c11_5(ck, prog)
        c11_6(ck, prog)
        c11_7(ck, prog)
        c11_8(ck, prog)
        from rules.C10 import c10_12
        c10_12(ck, prog, 'C11.9')
        r = ck.rule('C11.10', "the descriptor-reading wrappers of dbus-sysdeps-unix.c (_dbus_read, _dbus_read_socket_with_unix_fds) grow the caller's string once per call and cut it back to what was really read on every way out", 'PAIR', breaks='after an interrupted or failed read the loader buffer keeps space '
                    'that was never filled: a valid stream is declared corrupt (or old bytes are parsed again as a '
                    'message) depending on where the read boundary fell', floor=2)
        lib.read_wrappers_keep_buffer(prog, r)
        from rules.C05 import QUEUES, c05_4
        r4 = ck.rule('C11.4', 'the loader queue and the connection\'s incoming queue are FIFOs (shared with C05.4)',
                     'TAB', floor=4)
        save = ck.rule
        ck.rule = lambda *a, **k: r4
        try:
            c05_4(ck, prog)
        finally:
            ck.rule = save
