"""C07 - broadcasts reach exactly the connections whose match rules match.
DESIGN.md C07.1 - C07.5 (structural clauses)."""
from engine.cfg import (same_expr, Explorer, estr, is_call, is_int, is_member, is_ref, strip_addr, walk,
                        written_lvalues, event_expr, dominators, reach_from)
from engine.facts import AnalysisBroken
from engine import lib

SIG = 'bus/signals.c'

# flag -> (BusMatchRule fields that carry its value, setter)
FLAGS = {
    'BUS_MATCH_MESSAGE_TYPE': (['message_type'], 'bus_match_rule_set_message_type'),
    'BUS_MATCH_INTERFACE': (['interface'], 'bus_match_rule_set_interface'),
    'BUS_MATCH_MEMBER': (['member'], 'bus_match_rule_set_member'),
    'BUS_MATCH_SENDER': (['sender'], 'bus_match_rule_set_sender'),
    'BUS_MATCH_DESTINATION': (['destination'], 'bus_match_rule_set_destination'),
    'BUS_MATCH_PATH': (['path'], 'bus_match_rule_set_path'),
    'BUS_MATCH_PATH_NAMESPACE': (['path'], 'bus_match_rule_set_path'),
    'BUS_MATCH_ARGS': (['args', 'arg_lens', 'args_len'], 'bus_match_rule_set_arg'),
    'BUS_MATCH_CLIENT_IS_EAVESDROPPING': ([], 'bus_match_rule_set_client_is_eavesdropping'),
}


# comparison primitives the matcher must use under each flag
MATCH_CALLS = {
    'BUS_MATCH_MESSAGE_TYPE': {'dbus_message_get_type'},
    'BUS_MATCH_INTERFACE': {'dbus_message_get_interface', 'strcmp'},
    'BUS_MATCH_MEMBER': {'dbus_message_get_member', 'strcmp'},
    'BUS_MATCH_SENDER': {'connection_is_primary_owner', 'strcmp'},
    'BUS_MATCH_DESTINATION': {'connection_is_primary_owner', 'dbus_message_get_destination', 'strcmp'},
    'BUS_MATCH_PATH': {'dbus_message_get_path', 'strcmp'},
    'BUS_MATCH_PATH_NAMESPACE': {'dbus_message_get_path', 'str_has_prefix'},
    'BUS_MATCH_ARGS': {'dbus_message_iter_init', 'dbus_message_iter_get_arg_type', 'dbus_message_iter_get_basic',
                       'memcmp', 'dbus_message_iter_next'},
}


def flag_regions(fn, flagsexpr_ok):
    """[(K, set(fields referenced in the region guarded by `flags & K`), line)].
    The region is the set of blocks dominated by the TRUE successor of the test."""
    dom = dominators(fn)
    out = []
    for bid, blk in fn.blocks.items():
        t = blk.get('term')
        if not t or t.get('cond') is None or len(blk['succs']) != 2:
            continue
        c = t['cond']
        if c.get('k') == 'bin' and c['op'] == '&' and flagsexpr_ok(c['l']) and is_int(c['r']):
            K = c['r']['v']
            s = blk['succs'][0]
            if s < 0:
                continue
            region = {b for b in dom if s in dom[b]}
            fields = set()
            callees = set()
            for b in region:
                for ev in fn.blocks[b]['events']:
                    for x in walk(event_expr(ev)):
                        if is_member(x, None, 'BusMatchRule'):
                            fields.add(x['field'])
                        if x.get('k') == 'call':
                            callees.add(x.get('callee'))
                tt = fn.blocks[b].get('term')
                if tt and tt.get('cond') is not None:
                    for x in walk(tt['cond']):
                        if is_member(x, None, 'BusMatchRule'):
                            fields.add(x['field'])
            out.append((K, fields, callees, t['line']))
    return out


def c07_1(ck, prog):
    r = ck.rule('C07.1', 'every match-rule key is set by one setter, tested by the matcher, compared by '
                'match_rule_equal, and its storage freed', 'TAB',
                breaks='a key is parsed but not matched (rule too wide), or matched but not compared '
                       '(RemoveMatch removes a different rule)', floor=30)
    vals = {}
    for f in FLAGS:
        if f not in prog.enums:
            raise AnalysisBroken('%s vanished' % f)
        vals[f] = prog.enums[f]
    known = sum(vals.values())
    extra = [n for n in prog.enums if n.startswith('BUS_MATCH_') and n not in FLAGS
             and not n.startswith('BUS_MATCH_ARG_')]
    for n in extra:
        r.violation('flag:%s' % n, 'BusMatchFlags', 'bus/signals.h', None,
                    'match flag %s is not covered by the key table of rules/C07.py' % n)
    # setters
    for flag, (fields, setter) in FLAGS.items():
        fn = prog.fn(setter, SIG)
        sets = False
        for b, i, ev in fn.events():
            for lhs, how, rhs in written_lvalues(ev):
                if is_member(lhs, 'flags', 'BusMatchRule') and how == '|=' and is_int(rhs) and rhs['v'] & vals[flag]:
                    sets = True
        wr = {l['field'] for b, i, ev in fn.events() for l, h, rh in written_lvalues(ev)
              if is_member(l, None, 'BusMatchRule')}
        key = '%s:setter' % flag
        if not sets:
            r.violation(key, fn.name, SIG, fn.line, '%s does not set %s' % (setter, flag))
        elif not set(f for f in fields if f != 'args_len') <= wr and fields:
            r.violation(key, fn.name, SIG, fn.line, '%s sets %s but does not store %s' % (
                setter, flag, sorted(set(fields) - wr)))
        else:
            r.ok(key, {'setter': setter})
        # nobody else writes the flag bit
    for f, line, how, rhs, lhs in lib.field_writes(prog, 'BusMatchRule', 'flags'):
        key = 'flags-writer:%s' % f.name
        if f.name in {s for _, s in FLAGS.values()} | {'bus_match_rule_new'}:
            r.ok(key)
        else:
            r.violation(key, f.name, f.file, line, 'BusMatchRule.flags is written in %s' % f.name)
    # matcher
    mm = prog.fn('match_rule_matches', SIG)
    regs = flag_regions(mm, lambda e: is_ref(e, 'flags'))
    for flag, (fields, setter) in FLAGS.items():
        key = '%s:matched' % flag
        hit = [x for x in regs if x[0] & vals[flag]]
        if not hit:
            r.violation(key, mm.name, SIG, mm.line, 'match_rule_matches never tests %s' % flag)
            continue
        ff = set().union(*[x[1] for x in hit])
        cc = set().union(*[x[2] for x in hit])
        needcall = set(MATCH_CALLS.get(flag, set()))
        # a comparison primitive may be spelled through the local helper or directly
        for alts in ({'str_has_prefix', 'strncmp', 'memcmp'}, {'strcmp', '_dbus_string_equal_c_str'}):
            if needcall & alts and cc & alts:
                needcall -= alts
        missing = [f for f in fields if f not in ff]
        if needcall - cc:
            r.violation(key, mm.name, SIG, hit[0][3],
                        'under %s the matcher no longer calls %s' % (flag, ', '.join(sorted(needcall - cc))))
        elif missing:
            r.violation(key, mm.name, SIG, hit[0][3],
                        'under %s the matcher never looks at rule->%s' % (flag, ', '.join(missing)))
        else:
            r.ok(key, {'fields': sorted(ff & set(fields))})
    # each string key of the rule is compared with the same-named attribute of the message
    GETTER = {'interface': 'dbus_message_get_interface', 'member': 'dbus_message_get_member',
              'path': 'dbus_message_get_path', 'destination': 'dbus_message_get_destination'}
    for b, i, c in mm.calls(('strcmp', 'str_has_prefix', 'strncmp')):
        sides = [(k, a) for k, a in enumerate(c['args'][:2])]
        rf = [(k, a) for k, a in sides if is_member(a, None, 'BusMatchRule')]
        if len(rf) != 1:
            continue
        fld = rf[0][1]['field']
        other = c['args'][1 - rf[0][0]]
        key = 'matcher:%s-compared-with-message' % fld
        if fld == 'sender':
            if other.get('k') == 'str' and other.get('v') == 'org.freedesktop.DBus':
                r.ok(key)
            else:
                r.violation(key, mm.name, SIG, c['line'], 'rule->sender is compared with %s' % estr(other))
            continue
        want = GETTER.get(fld)
        if want is None:
            continue
        srcs = [other] if is_call(other) else [
            rhs for b2, i2, ev in mm.events() for l, h, rhs in written_lvalues(ev)
            if is_ref(other) and is_ref(l) and l.get('id') == other.get('id') and rhs is not None]
        if srcs and all(is_call(x, want) for x in srcs):
            r.ok(key)
        else:
            r.violation(key, mm.name, SIG, c['line'],
                        'rule->%s is compared with %s, which is not %s(message): the key is matched against '
                        'something other than the message\'s own %s' % (fld, estr(other), want, fld))
    # `flags` in the matcher is rule->flags minus already_matched
    okf = False
    for b, i, ev in mm.events():
        for lhs, how, rhs in written_lvalues(ev):
            if is_ref(lhs, 'flags') and how in ('=', 'decl') and rhs is not None and \
                    any(is_member(x, 'flags', 'BusMatchRule') for x in walk(rhs)):
                okf = True
    if not okf:
        r.violation('matcher:flags-source', mm.name, SIG, mm.line, 'local flags is not derived from rule->flags')
    # equality
    eq = prog.fn('match_rule_equal', SIG)
    regs = flag_regions(eq, lambda e: is_member(e, 'flags', 'BusMatchRule'))
    whole = False
    for bid, blk in eq.blocks.items():
        t = blk.get('term')
        if t and t.get('cond') is not None:
            c = t['cond']
            if c.get('k') == 'bin' and c['op'] in ('!=', '==') and is_member(c['l'], 'flags', 'BusMatchRule') \
                    and is_member(c['r'], 'flags', 'BusMatchRule'):
                whole = True
    for flag, (fields, setter) in FLAGS.items():
        key = '%s:equal' % flag
        if not fields:
            if whole:
                r.ok(key, 'flag word compared as a whole')
            else:
                r.violation(key, eq.name, SIG, eq.line, 'flags are not compared as a whole')
            continue
        hit = [x for x in regs if x[0] & vals[flag]]
        ff = set().union(*[x[1] for x in hit]) if hit else set()
        missing = [f for f in fields if f not in ff]
        if missing:
            r.violation(key, eq.name, SIG, hit[0][3] if hit else eq.line,
                        'match_rule_equal does not compare rule->%s for rules with %s: two such rules with '
                        'different values are "equal" and RemoveMatch removes the wrong one'
                        % (', '.join(missing), flag))
        else:
            r.ok(key)
    # whole-value comparison: each key is compared directly between the two rules (scalars with `!=`,
    # strings with strcmp / memcmp over both rules' pointers), not through a masked or derived value
    def side(e):
        while e is not None and e.get('k') in ('cast', 'paren'):
            e = e.get('e')
        idx = False
        if e is not None and e.get('k') == 'sub':
            idx = True
            e = e.get('base')
        if e is not None and e.get('k') == 'member' and e.get('rec') == 'BusMatchRule' and is_ref(e.get('base')):
            return (e['base'].get('id'), e['field'], idx)
        return None
    direct = set()
    for bid, blk in eq.blocks.items():
        c = (blk.get('term') or {}).get('cond')
        if c is None or c.get('k') != 'bin' or c['op'] not in ('!=', '=='):
            continue
        l, rr = c['l'], c['r']
        if l.get('k') == 'call' and l.get('callee') in ('strcmp', 'memcmp') and is_int(rr, 0) and len(l['args']) >= 2:
            l, rr = l['args'][0], l['args'][1]
        sl, sr = side(l), side(rr)
        if sl and sr and sl[0] != sr[0] and sl[1:] == sr[1:]:
            direct.add(sl[1])
    for fld in ('flags', 'message_type', 'matches_go_to', 'interface', 'member', 'sender', 'destination', 'path',
                'args_len', 'arg_lens', 'args'):
        key = 'equal:whole-value:%s' % fld
        if fld in direct:
            r.ok(key)
        else:
            r.violation(key, eq.name, SIG, eq.line,
                        'match_rule_equal has no direct comparison of a->%s with b->%s (the field is compared '
                        'only through a masked / derived value, or not at all): rules that differ in it are '
                        '"equal" and RemoveMatch removes a different rule' % (fld, fld))
    # the byte comparison of argument i runs over argument i's own length
    ldefs = {}
    for b, i, ev in eq.events():
        for lhs, how, rhs in written_lvalues(ev):
            if is_ref(lhs) and lhs.get('kind') == 'local' and how in ('=', 'decl') and rhs is not None:
                ldefs.setdefault(lhs['id'], []).append(rhs)
    for b, i, c in eq.calls('memcmp'):
        a0 = c['args'][0]
        while a0 is not None and a0.get('k') in ('cast', 'paren'):
            a0 = a0.get('e')
        if not (a0 is not None and a0.get('k') == 'sub' and is_member(a0['base'], 'args', 'BusMatchRule')):
            continue
        ln = c['args'][2]
        if is_ref(ln) and len(ldefs.get(ln.get('id'), [])) == 1:
            ln = ldefs[ln['id']][0]
        own = any(x.get('k') == 'sub' and is_member(x['base'], 'arg_lens', 'BusMatchRule')
                  and same_expr(x['idx'], a0['idx']) for x in walk(ln))
        other = [estr(x) for x in walk(ln) if is_member(x, None, 'BusMatchRule')
                 and x['field'] not in ('arg_lens',)]
        key = 'equal:args-length'
        if own and not other:
            r.ok(key)
        else:
            r.violation(key, eq.name, SIG, c['line'],
                        'the bytes of argument i are compared over %s, not over arg_lens[i]: values that differ after '
                        'that many bytes compare equal (and a longer length reads past the buffers)' % estr(ln))
    if any(is_member(x, 'matches_go_to', 'BusMatchRule') for bid, blk in eq.blocks.items()
           for x in walk((blk.get('term') or {}).get('cond') or {})):
        r.ok('owner:equal')
    else:
        r.violation('owner:equal', eq.name, SIG, eq.line, 'match_rule_equal does not compare the owning connection')
    # storage
    rec = prog.record('BusMatchRule')
    un = prog.fn('bus_match_rule_unref', SIG)
    freed = set()
    for b, i, c in un.calls('dbus_free'):
        a = c['args'][0]
        if is_member(a, None, 'BusMatchRule'):
            freed.add(a['field'])
    for f in rec['fields']:
        if f['t'] in ('char *', 'char **', 'int *'):
            key = 'field:%s:freed' % f['name']
            if f['name'] in freed:
                r.ok(key)
            else:
                r.violation(key, un.name, SIG, un.line, 'bus_match_rule_unref does not free rule->%s' % f['name'])


VALIDATORS = {
    'bus_match_rule_set_sender': '_dbus_validate_bus_name',
    'bus_match_rule_set_interface': '_dbus_validate_interface',
    'bus_match_rule_set_member': '_dbus_validate_member',
    'bus_match_rule_set_path': '_dbus_validate_path',
    'bus_match_rule_set_destination': '_dbus_validate_bus_name',
}


def c07_2(ck, prog):
    r = ck.rule('C07.2', 'AddMatch stores a key only after the grammar predicate for that key accepted the '
                'whole value, after the "specified twice" test, and within the rule-length / arg-number limits',
                'DOM', breaks='invalid names enter the matcher; a repeated key silently overrides', floor=8)
    fn = prog.fn('bus_match_rule_parse', SIG)
    vals = {f: prog.enums[f] for f in FLAGS}
    setflag = {'bus_match_rule_set_sender': 'BUS_MATCH_SENDER', 'bus_match_rule_set_interface': 'BUS_MATCH_INTERFACE',
               'bus_match_rule_set_member': 'BUS_MATCH_MEMBER', 'bus_match_rule_set_destination': 'BUS_MATCH_DESTINATION',
               'bus_match_rule_set_message_type': 'BUS_MATCH_MESSAGE_TYPE'}
    seen = set()

    def akey(atom, resolve):
        if atom[0] == 'truthy':
            e = atom[1]
            if e.get('k') == 'bin' and e['op'] == '&' and is_member(e['l'], 'flags', 'BusMatchRule') and is_int(e['r']):
                return ('twice', e['r']['v'])
        return None

    def on_event(user, ev, ctx):
        if ev['ev'] != 'call':
            return user
        c = ev['e']
        cal = c.get('callee')
        if cal in VALIDATORS.values() or cal == '_dbus_validate_bus_namespace':
            a = c['args']
            # the whole value: start 0, length = the length of the very string object that is validated
            sobj = strip_addr(a[0])

            def is_len_of(e):
                return is_call(e, '_dbus_string_get_length') and sobj is not None and \
                    same_expr(strip_addr(e['args'][0]), sobj)
            if is_ref(a[2]):
                defs = [rhs for b2, i2, e2 in fn.events() for l, h, rhs in written_lvalues(e2)
                        if is_ref(l) and l.get('id') == a[2].get('id') and rhs is not None]
                lenok = bool(defs) and all(is_len_of(d) for d in defs)
            else:
                lenok = is_len_of(a[2])
            whole = sobj is not None and is_ref(sobj) and is_int(a[1], 0) and lenok
            return user | {(cal, c['id'], whole)}
        if cal in VALIDATORS or cal in setflag:
            seen.add(cal)
            if cal in VALIDATORS:
                v = VALIDATORS[cal]
                okv = any(n == v and whole and ctx.result_known(cid) is True for (n, cid, whole) in user)
                if not okv:
                    ctx.report('%s is called without %s(&str, 0, length of str) having accepted the whole value' % (cal, v),
                               c['line'], key=('validate', cal))
            need = (vals['BUS_MATCH_PATH'] | vals['BUS_MATCH_PATH_NAMESPACE']) if cal == 'bus_match_rule_set_path' \
                else vals[setflag[cal]]
            okt = any(k[0] == 'twice' and (k[1] & need) == need and v is False for k, v in ctx.atoms().items())
            if not okt:
                ctx.report('%s is called without the "key specified twice" test having passed' % cal,
                           c['line'], key=('twice', cal))
        return user
    ex = Explorer(fn, init=frozenset(), on_event=on_event, atom_key=akey, track='auto',
                  calls=set(VALIDATORS.values()), cap=400000).run()
    want = set(VALIDATORS) | {'bus_match_rule_set_message_type'}
    if seen != want:
        raise AnalysisBroken('parser no longer calls setters %s' % sorted(want - seen))
    for s in sorted(want):
        bad = {k: v for k, v in ex.reports.items() if k[1] == s}
        if bad:
            r.from_reports(bad, keyfn=lambda k, rep: 'parse:%s:%s' % (k[1], k[0]))
        else:
            r.ok('parse:%s' % s)
    # message type: from the string table, INVALID rejected
    lib.must_precede(fn, r, lambda ev, ctx: 'set_message_type' if ev['ev'] == 'call'
                     and ev['e'].get('callee') == 'bus_match_rule_set_message_type' else None,
                     [lib.Guard('type != DBUS_MESSAGE_TYPE_INVALID',
                                lambda c, ctx: c.get('callee') == 'dbus_message_type_from_string', expect=True)])
    # length limit before tokenising
    lib.must_precede(fn, r, lambda ev, ctx: 'tokenize_rule' if ev['ev'] == 'call'
                     and ev['e'].get('callee') == 'tokenize_rule' else None, [])
    lim = prog.macro_int('DBUS_MAXIMUM_MATCH_RULE_LENGTH')
    # the two limits the parser compares with are the specification's
    for mac, want in (('DBUS_MAXIMUM_MATCH_RULE_LENGTH', 1024), ('DBUS_MAXIMUM_MATCH_RULE_ARG_NUMBER', 63)):
        got = prog.macro_int(mac)
        if got == want:
            r.ok('spec:' + mac, {'value': want})
        else:
            r.violation('spec:' + mac, 'dbus-protocol.h', 'dbus/dbus-protocol.h', None,
                        '%s is %s, specification: %d' % (mac, got, want))
    oklen = False
    for bid, blk in fn.blocks.items():
        t = blk.get('term')
        if t and t.get('cond') is not None:
            c = t['cond']
            if c.get('k') == 'bin' and c['op'] == '>' and is_call(c['l'], '_dbus_string_get_length') \
                    and lib.arg_is_param(c['l'], 0, 'rule_text') and is_int(c['r'], lim):
                oklen = True
    if oklen:
        r.ok('parse:length-limit', {'limit': lim})
    else:
        r.violation('parse:length-limit', fn.name, SIG, fn.line,
                    'the rule text is not compared with DBUS_MAXIMUM_MATCH_RULE_LENGTH (%d)' % lim)
    # arg keys
    am = prog.fn('bus_match_rule_parse_arg_match', SIG)
    argmax = prog.macro_int('DBUS_MAXIMUM_MATCH_RULE_ARG_NUMBER')

    def akey2(atom, resolve):
        if atom[0] == 'cmp' and atom[1] == '<=' and is_ref(atom[2], 'arg') and is_int(atom[3], argmax):
            return ('arg<=max',)
        return None
    bad = []

    def on_event2(user, ev, ctx):
        if ev['ev'] == 'call' and ev['e'].get('callee') == 'bus_match_rule_set_arg':
            if ctx.atom(('arg<=max',)) is not True:
                ctx.report('an argN key is stored without arg <= DBUS_MAXIMUM_MATCH_RULE_ARG_NUMBER (%d)' % argmax,
                           ev['line'], key='argmax')
            ns = ev['e']['args'][4] if len(ev['e']['args']) > 4 else None
        return user
    ex2 = Explorer(am, on_event=on_event2, atom_key=akey2, track='auto').run()
    if ex2.reports:
        r.from_reports(ex2.reports, keyfn=lambda k, rep: 'parse_arg:%s' % k)
    else:
        r.ok('parse_arg:arg-number-limit', {'limit': argmax})
    if am.calls('_dbus_validate_bus_namespace'):
        r.ok('parse_arg:namespace-validated')
    else:
        r.violation('parse_arg:namespace-validated', am.name, SIG, am.line,
                    'arg0namespace values are no longer validated')
    # set_arg: twice test inside the setter or parser
    sa = prog.fn('bus_match_rule_set_arg', SIG)


ARG_LENS_NONNEG = [False]


def arg_lens_invariant(prog, r):
    """Every store into an element of BusMatchRule.arg_lens is 0, a
    _dbus_string_get_length() value, or |= a positive constant below 2^31."""
    ok = True
    n = 0
    for f in lib.prod_funcs(prog, {SIG}):
        defs = {}
        for b, i, ev in f.events():
            for lhs, how, rhs in written_lvalues(ev):
                if is_ref(lhs) and 'id' in lhs and how in ('=', 'decl') and rhs is not None:
                    defs.setdefault(lhs['id'], []).append(rhs)
        for b, i, ev in f.events():
            for lhs, how, rhs in written_lvalues(ev):
                base = lhs.get('base') if lhs.get('k') == 'sub' else None
                if base is None:
                    continue
                isal = is_member(base, 'arg_lens', 'BusMatchRule') or is_ref(base, 'new_arg_lens')
                if not isal:
                    continue
                n += 1
                good = False
                if how == '=' and is_int(rhs) and rhs['v'] >= 0:
                    good = True
                elif how == '=' and is_ref(rhs) and all(is_call(d, '_dbus_string_get_length')
                                                         for d in defs.get(rhs.get('id'), [None])):
                    good = True
                elif how == '|=' and is_int(rhs) and 0 < rhs['v'] < 2 ** 31:
                    good = True
                if not good:
                    ok = False
                    r.violation('arg_lens:store@%s' % f.name, f.name, f.file, ev['line'],
                                'arg_lens element written with %s %s: lengths may become negative' % (how, estr(rhs)))
    if ok and n >= 3:
        r.ok('arg_lens:stores-non-negative', {'stores': n})
        ARG_LENS_NONNEG[0] = True
    elif n < 3:
        raise AnalysisBroken('only %d stores into arg_lens found' % n)


def lower_bound(expr, ctx, fn, defs):
    """Sound lower bound of an int expression on this path (None = unknown)."""
    if is_int(expr):
        return expr['v']
    if expr.get('k') == 'bin' and expr['op'] == '-' and is_int(expr['r']):
        lb = lower_bound(expr['l'], ctx, fn, defs)
        return None if lb is None else lb - expr['r']['v']
    if expr.get('k') == 'bin' and expr['op'] == '&' and is_int(expr['r']) and expr['r']['v'] >= 0:
        return 0
    if expr.get('k') == 'bin' and expr['op'] == '&' and expr['l'].get('k') == 'sub' \
            and is_member(expr['l']['base'], 'arg_lens', 'BusMatchRule') and ARG_LENS_NONNEG[0]:
        # every stored element is (non-negative int length) | positive flag constants (checked by
        # arg_lens_invariant), so masking keeps it a non-negative int
        return 0
    if is_call(expr, 'strlen') or is_call(expr, '_dbus_string_get_length'):
        return 0
    if is_ref(expr) and 'id' in expr:
        lb = None
        d = defs.get(expr['id'])
        if d is not None and all(x is not None for x in d):
            lbs = [lower_bound(x, ctx, fn, {}) for x in d]
            if all(x is not None for x in lbs):
                lb = min(lbs)
        if expr.get('t', '').startswith('unsigned') or expr.get('t') in ('size_t',):
            lb = 0 if lb is None else max(lb, 0)
        for k, v in ctx.atoms().items():
            if k[0] == 'vnz' and k[1] == expr['id'] and v is True and lb == 0:
                lb = 1
            if k[0] != 'vc' or k[1] != expr['id']:
                continue
            _, vid, op, c, side = k[:5]
            # side 'l': atom is (var op c) ; side 'r': atom is (c op var)
            if op == '==' and c == 0 and v is False and lb == 0:
                lb = 1
            if op == '==' and v is True:
                lb = c if lb is None else max(lb, c)
            if side == 'l':
                if op == '<' and v is False:
                    lb = c if lb is None else max(lb, c)
                if op == '<=' and v is False:
                    lb = c + 1 if lb is None else max(lb, c + 1)
            else:
                if op == '<' and v is True:
                    lb = c + 1 if lb is None else max(lb, c + 1)
                if op == '<=' and v is True:
                    lb = c if lb is None else max(lb, c)
        return lb
    return None


def c07_2b(ck, prog):
    r = ck.rule('C07.2b', 'the rule tokeniser reports success only when it consumed the whole rule text: at every '
                'successful exit the position is known not to be before the end of the text', 'TS',
                breaks='what follows the last key/value pair the tokeniser has room for is silently ignored: a rule '
                'with trailing garbage is accepted, and a rule with a restricting key in that position matches more '
                'than was asked for', floor=1)
    fn = prog.fn('tokenize_rule', SIG)
    text = fn.params[0]['id']
    posv = [lhs for b, i, ev in fn.events() for lhs, how, rhs in written_lvalues(ev)
            if is_ref(lhs) and lhs.get('kind') == 'local' and how == '&arg' and is_call(rhs, ('find_key', 'find_value'))]
    ids = {v['id'] for v in posv}
    if not ids:
        raise AnalysisBroken('tokenize_rule: position variable not found')

    def akey(atom, resolve):
        if atom[0] == 'cmp' and atom[1] == '<' and is_ref(atom[2]) and atom[2].get('id') in ids \
                and is_call(atom[3], '_dbus_string_get_length') and is_ref(atom[3]['args'][0]) \
                and atom[3]['args'][0].get('id') == text:
            return ('more-text', frozenset([atom[2]['id']]))
        return None

    def on_exit(user, ctx, ret, ev):
        if ctx.ret_status(ret) == 'fail':
            return
        if not any(k[0] == 'more-text' and v is False for k, v in ctx.atoms().items() if isinstance(k, tuple)):
            ctx.report('tokenize_rule can report success while text remains after the last token it stored (the '
                       'loop also ends when the token array is full)', ev['line'] if ev else fn.line, key='text-left')
    ex = Explorer(fn, on_exit=on_exit, atom_key=akey, track='auto', calls={'find_key', 'find_value'}, cap=600000).run()
    if ex.reports:
        r.from_reports(ex.reports, keyfn=lambda k, rep: 'tokenize_rule:%s' % k)
    else:
        r.ok('tokenize_rule:whole-text-consumed')


def c07_3(ck, prog):
    r = ck.rule('C07.3', 'no negative subscript in the matcher and rule parser: every index of the form '
                'n - c is proved >= 0 on every path (interval reasoning with branch refinement)', 'ABS',
                breaks='rule text or message content makes the bus read before a heap block', floor=2)
    n = 0
    arg_lens_invariant(prog, r)
    for fn in lib.prod_funcs(prog, {SIG}):
        subs = []
        for b, i, ev in fn.events():
            if ev['ev'] == 'sub':
                idx = ev['e']['idx']
                if idx.get('k') == 'bin' and idx['op'] == '-' and is_int(idx['r']) and idx['r']['v'] > 0:
                    subs.append((ev['line'], estr(ev['e'])))
        if not subs:
            continue
        # single-assignment definitions of locals (value expressions)
        defs = {}
        for b, i, ev in fn.events():
            for lhs, how, rhs in written_lvalues(ev):
                if is_ref(lhs) and 'id' in lhs:
                    if how == 'decl' and rhs is None:
                        continue
                    if how in ('=', 'decl'):
                        defs.setdefault(lhs['id'], []).append(rhs)
                    else:
                        defs.setdefault(lhs['id'], []).append(None)

        def akey(atom, resolve):
            if atom[0] == 'cmp':
                op, l, rr = atom[1], atom[2], atom[3]
                if is_ref(l) and 'id' in l and is_int(rr):
                    return ('vc', l['id'], op, rr['v'], 'l', frozenset([l['id']]))
                if is_ref(rr) and 'id' in rr and is_int(l):
                    return ('vc', rr['id'], op, l['v'], 'r', frozenset([rr['id']]))
            if atom[0] == 'truthy' and is_ref(atom[1]) and 'id' in atom[1]:
                # `var == 0` is normalised to truthy(var) with the sense flipped
                return ('vnz', atom[1]['id'], frozenset([atom[1]['id']]))
            return None
        verdict = {}

        def on_event(user, ev, ctx, fn=fn, defs=defs, verdict=verdict):
            if ev['ev'] == 'sub':
                idx = ev['e']['idx']
                if idx.get('k') == 'bin' and idx['op'] == '-' and is_int(idx['r']) and idx['r']['v'] > 0:
                    lb = lower_bound(idx, ctx, fn, defs)
                    k = (ev['line'], estr(ev['e']))
                    if lb is None or lb < 0:
                        verdict[k] = False
                        ctx.report('%s: the index can be %s on this path (nothing establishes %s >= %d)' % (
                            estr(ev['e']), 'negative' if lb is not None else 'anything', estr(idx['l']),
                            idx['r']['v']), ev['line'], key=k)
                    else:
                        verdict.setdefault(k, True)
            return user
        ex = Explorer(fn, on_event=on_event, atom_key=akey, track='auto', cap=400000).run()
        for (line, what), ok in verdict.items():
            n += 1
            key = '%s:%s' % (fn.name, what)
            if ok:
                r.ok(key, {'site': '%s:%d' % (fn.file, line)})
            else:
                rep = ex.reports[(line, what)]
                r.violation(key, fn.name, fn.file, line, rep['reason'], rep['path'])
    if n < 2:
        raise AnalysisBroken('only %d negative-offset subscripts found in %s' % (n, SIG))


def c07_4(ck, prog):
    r = ck.rule('C07.4', 'a connection\'s rules die with it: disconnect and become-monitor drop them from '
                'every pool', 'WHO', breaks='rules of a closed connection keep matching (use after free / '
                'delivery to a dead connection)', floor=3)
    for caller in ('bus_connection_disconnected', 'bus_connection_be_monitor'):
        f = prog.fn(caller, 'bus/connection.c')
        if any(lib.arg_is_param(c, 1, 'connection') for b, i, c in f.calls('bus_matchmaker_disconnected')):
            r.ok('%s->bus_matchmaker_disconnected' % caller)
        else:
            r.violation('%s->bus_matchmaker_disconnected' % caller, f.name, f.file, f.line,
                        '%s no longer removes the connection\'s match rules' % caller)
    md = prog.fn('bus_matchmaker_disconnected', SIG)
    # loops over all message types and both containers of each pool
    ntypes = prog.macro_int('DBUS_NUM_MESSAGE_TYPES')
    cond_ok = False
    for bid, blk in md.blocks.items():
        t = blk.get('term')
        if t and t.get('cond') is not None:
            c = t['cond']
            if c.get('k') == 'bin' and c['op'] == '<' and is_ref(c['l']) and is_int(c['r'], ntypes):
                cond_ok = True
    uses = {x['field'] for b, i, ev in md.events() for x in walk(event_expr(ev)) if is_member(x, None, 'RulePool')}
    if cond_ok and {'rules_without_iface', 'rules_by_iface'} <= uses and md.calls('rule_list_remove_by_connection'):
        r.ok('bus_matchmaker_disconnected:all-pools', {'types': ntypes})
    else:
        r.violation('bus_matchmaker_disconnected:all-pools', md.name, SIG, md.line,
                    'not every pool (all %d message types x both containers) is swept' % ntypes)
    rl = prog.fn('rule_list_remove_by_connection', SIG)
    okm = False
    for bid, blk in rl.blocks.items():
        t = blk.get('term')
        if t and t.get('cond') is not None:
            c = t['cond']
            if c.get('k') == 'bin' and c['op'] == '==' and {estr(c['l']), estr(c['r'])} == {'rule->matches_go_to', 'connection'}:
                okm = True
    if okm and rl.calls('bus_matchmaker_remove_rule_link'):
        r.ok('rule_list_remove_by_connection:owner-test')
    else:
        r.violation('rule_list_remove_by_connection:owner-test', rl.name, SIG, rl.line,
                    'rules owned by the connection are no longer removed')

    # C07.4b: ... and only those: a rule is removed in the sweep when it belongs to the departing connection or
    # names the departing connection's own unique name
    r2 = ck.rule('C07.4b', 'the disconnect sweep removes a rule only when the rule is owned by the departing '
                 'connection, or its sender= / destination= equals the unique name of the departing connection '
                 '(obtained from that same connection)', 'TS',
                 breaks='a connection that is still there loses match rules it never removed: broadcasts it '
                 'subscribed to stop arriving after somebody else disconnects', floor=1)
    conn_id = rl.params[1]['id'] if len(rl.params) > 1 else None
    id2call = {c['id']: c for b, i, c in rl.calls()}
    nrem = [0]
    # a parameter may carry the departing connection's name if every caller passes bus_connection_get_name of
    # the very connection it passes as the departing one
    name_params = set()
    conn_idx = 1
    for k, prm in enumerate(rl.params):
        if k == conn_idx or 'char' not in (prm.get('t') or ''):
            continue
        sites = [(f, c) for (f, b, i, c) in prog.call_sites(rl.name) if prog.is_production(f)]
        okp = bool(sites)
        for f, c in sites:
            if len(c['args']) <= max(k, conn_idx):
                okp = False
                continue
            a = c['args'][k]
            src = a if is_call(a, 'bus_connection_get_name') else None
            if src is None and is_ref(a):
                ds = [rhs for b, i, ev in f.events() for lhs, how, rhs in written_lvalues(ev)
                      if is_ref(lhs) and lhs.get('id') == a.get('id') and rhs is not None and how in ('=', 'decl')]
                if len(ds) == 1 and is_call(ds[0], 'bus_connection_get_name'):
                    src = ds[0]
            if src is None or not src['args'] or not same_expr(src['args'][0], c['args'][conn_idx]):
                okp = False
        if okp:
            name_params.add(prm['id'])

    def akey(atom, resolve):
        if atom[0] == 'cmp' and atom[1] == '==':
            l, rr = atom[2], atom[3]
            for a, b2 in ((l, rr), (rr, l)):
                if is_member(a, 'matches_go_to', 'BusMatchRule') and is_ref(b2) and b2.get('id') == conn_id:
                    return 'owned'
        return None

    def on_event(user, ev, ctx):
        if ev['ev'] == 'call' and ev['e'].get('callee') == 'bus_matchmaker_remove_rule_link':
            nrem[0] += 1
            if ctx.atom('owned') is True:
                return user
            # a strcmp (rule->sender|destination, name) == 0 fact with name = bus_connection_get_name (connection)
            named = False
            for cid, c in id2call.items():
                if c.get('callee') != 'strcmp' or ctx.result_known(cid) is not False:
                    continue
                for a in c['args']:
                    if is_ref(a) and a.get('kind') == 'param' and a.get('id') in name_params:
                        named = True
                        continue
                    o = ctx.origin_call(a)
                    if o is not None and id2call.get(o[0], {}).get('callee') == 'bus_connection_get_name':
                        g = id2call[o[0]]
                        if g['args'] and is_ref(g['args'][0]) and g['args'][0].get('id') == conn_id:
                            named = True
                        else:
                            ctx.report('a rule is removed because it names %s, which is not the departing connection'
                                       % estr(g), ev['line'], key='foreign-name')
                            named = True
            if not named:
                ctx.report('a rule is removed in the disconnect sweep although it is neither owned by the departing '
                           'connection nor found to name it', ev['line'], key='unrelated-rule')
        return user
    ex = Explorer(rl, on_event=on_event, atom_key=akey, track='auto', calls={'strcmp', 'bus_connection_get_name'},
                  cap=400000).run()
    if not nrem[0]:
        raise AnalysisBroken('rule_list_remove_by_connection: no removal call found')
    if ex.reports:
        r2.from_reports(ex.reports, keyfn=lambda k, rep: 'rule_list_remove_by_connection:%s' % k)
    else:
        r2.ok('rule_list_remove_by_connection:only-related-rules')


def c07_5(ck, prog):
    r = ck.rule('C07.5', 'AddMatch is undone when its acknowledgement cannot be staged; every recipient of a '
                'broadcast is tried even if one cannot take it', 'TS',
                breaks='a client that was told NoMemory still holds the rule; one unsuitable recipient stops '
                       'delivery to the others', floor=2)
    fn = prog.fn('bus_driver_handle_add_match', 'bus/driver.c')
    add = {c['id'] for b, i, c in fn.calls('bus_matchmaker_add_rule')}
    if not add:
        raise AnalysisBroken('AddMatch no longer calls bus_matchmaker_add_rule')

    def on_event(user, ev, ctx):
        if ev['ev'] == 'call' and ev['e'].get('callee') == 'bus_matchmaker_remove_rule':
            return True
        return user

    def on_exit(user, ctx, ret, ev):
        v = ctx.const_of(ret)
        if v == 0 and any(ctx.result_known(a) is True for a in add) and not user:
            ctx.report('AddMatch fails after the rule was installed without removing it again',
                       ev['line'], key='not-undone')
    ex = Explorer(fn, init=False, on_event=on_event, on_exit=on_exit, calls={'bus_matchmaker_add_rule'},
                  track='auto').run()
    if ex.reports:
        r.from_reports(ex.reports, keyfn=lambda k, rep: 'add_match:%s' % k)
    else:
        r.ok('add_match:undone-on-failure')
    # send_one_message returns FALSE only for out of memory (error set to NoMemory)
    som = prog.fn('send_one_message', 'bus/dispatch.c')

    def on_event2(user, ev, ctx):
        if ev['ev'] == 'call' and ev['e'].get('callee') == 'dbus_set_error_const':
            a = ev['e']['args']
            if is_ref(a[0], 'error') and a[1].get('k') == 'str' and a[1]['v'] == 'org.freedesktop.DBus.Error.NoMemory':
                return True
        return user

    def on_exit2(user, ctx, ret, ev):
        v = ctx.const_of(ret)
        if v == 0 and not user:
            ctx.report('send_one_message returns FALSE (which stops delivery to all remaining recipients) '
                       'without an out-of-memory error', ev['line'], key='false-without-oom')
    ex2 = Explorer(som, init=False, on_event=on_event2, on_exit=on_exit2, track='auto').run()
    if ex2.reports:
        r.from_reports(ex2.reports, keyfn=lambda k, rep: 'send_one_message:%s' % k)
    else:
        r.ok('send_one_message:false-only-on-oom')
    # the recipient loop in bus_dispatch_matches stops only when send_one_message failed
    dm = prog.fn('bus_dispatch_matches', 'bus/dispatch.c')
    som_ids = {c['id'] for b, i, c in dm.calls('send_one_message')}
    if not som_ids:
        raise AnalysisBroken('bus_dispatch_matches no longer calls send_one_message')
    head, body, bad, on_transfer = lib.loop_exits_only_when(
        dm, r, 'recipients', lambda blk: (blk.get('term') or {}).get('kind') in ('WhileStmt', 'ForStmt'),
        lambda ctx, frm: any(ctx.result_known(c) is False for c in som_ids), 'send failed')
    Explorer(dm, on_transfer=on_transfer, calls={'send_one_message'}, track='auto').run()
    if bad:
        for (frm, to), (line, path) in bad.items():
            r.violation('dispatch_matches:early-exit@%s' % frm, dm.name, dm.file, line,
                        'the recipient loop is left although send_one_message did not fail', path)
    else:
        r.ok('dispatch_matches:all-recipients-tried')


NOMEM = 'org.freedesktop.DBus.Error.NoMemory'
ASSERT_HELPERS = {'_dbus_assert_error_is_set', '_dbus_assert_error_is_clear', '_dbus_assert_error_xor_bool',
                  'dbus_error_is_set', '_dbus_real_assert', '_dbus_verbose_real', 'dbus_error_has_name',
                  'dbus_error_free'}


def error_names(prog, fn, memo, depth=0):
    """Set of error names fn may store into its DBusError *error parameter ('?' = unknown)."""
    if fn.key in memo:
        return memo[fn.key]
    memo[fn.key] = set()          # cycle guard
    out = set()
    ep = [p['name'] for p in fn.params if p['t'].startswith('DBusError *')]
    if not ep:
        memo[fn.key] = out
        return out
    for b, i, c in fn.calls():
        cal = c.get('callee')
        passes = [ai for ai, a in enumerate(c['args']) if is_ref(a) and a.get('kind') == 'param' and a['name'] in ep]
        if not passes or cal in ASSERT_HELPERS:
            continue
        if cal in ('dbus_set_error', 'dbus_set_error_const'):
            nm = c['args'][1]
            out.add(nm['v'] if nm.get('k') == 'str' else '?')
        elif cal in ('dbus_move_error', 'dbus_propagate_error'):
            out.add('?moved')
        elif cal is None:
            out.add('?indirect')
        elif cal == 'bus_dispatch_matches' and len(c['args']) > 2 and is_int(c['args'][2], 0):
            # with no addressed recipient bus_dispatch_matches skips the policy gate and the fd test of the
            # addressee (both are under `addressed_recipient != NULL`, see C05.2); refusals of broadcast
            # recipients are swallowed by send_one_message: only out-of-memory is left
            out.add(NOMEM)
        else:
            gs = [g for g in prog.by_name.get(cal, [])]
            if not gs or depth > 12:
                out.add('?%s' % cal)
            else:
                for g in gs:
                    out |= error_names(prog, g, memo, depth + 1)
    memo[fn.key] = out
    return out


def c07_6(ck, prog):
    r = ck.rule('C07.6', 'a bus driver method answers once: after its reply was staged, no step that can fail with '
                'an error other than out-of-memory follows (non-OOM errors do not cancel the transaction, so the '
                'staged reply would be sent together with the error)', 'TS',
                breaks='RemoveMatch of an unknown rule is answered with a method return AND MatchRuleNotFound',
                floor=20)
    from rules.C18 import handler_rows, handler_reference
    rows = handler_rows(prog)
    # AddMatch and RemoveMatch are reachable alike (same object paths, same privileges, one string argument)
    handler_reference(prog, r, names=('AddMatch', 'RemoveMatch'))
    REPLY = {'bus_driver_send_ack_reply', 'bus_transaction_send_from_driver'}
    memo = {}
    n = 0
    for row in rows:
        hname = row['handler']
        if not hname or not prog.has_fn(hname):
            continue
        fn = prog.fn(hname) if len(prog.by_name.get(hname, [])) == 1 else None
        if fn is None or fn.param('error') is None:
            continue
        n += 1
        rep = {c['id'] for b, i, c in fn.calls() if c.get('callee') in REPLY}
        if not rep:
            r.ok('%s:no-direct-reply' % hname)
            continue
        bad = {}

        def on_event(user, ev, ctx, rep=rep, bad=bad):
            if ev['ev'] == 'call':
                c = ev['e']
                if user and c['id'] not in rep and any(is_ref(a, 'error') and a.get('kind') == 'param' for a in c['args']):
                    cal = c.get('callee')
                    if cal in ASSERT_HELPERS:
                        pass
                    elif cal in ('dbus_set_error', 'dbus_set_error_const'):
                        nm = c['args'][1]
                        if not (nm.get('k') == 'str' and nm['v'] == NOMEM):
                            bad['%s(%s)' % (cal, estr(nm)[:40])] = c['line']
                    else:
                        names = set()
                        for g in prog.by_name.get(cal, []):
                            names |= error_names(prog, g, memo)
                        if not prog.by_name.get(cal):
                            names.add('?%s' % cal)
                        if names - {NOMEM}:
                            bad[cal] = c['line']
                if c['id'] in rep:
                    return user | {c['id']}
            return user
        Explorer(fn, init=frozenset(), on_event=on_event, track=None, cap=200000).run()
        if bad:
            for cal, line in bad.items():
                r.violation('%s:fallible-after-reply=%s' % (hname, cal), hname, fn.file, line,
                            '%s stages its reply and afterwards calls %s, which can fail with an error other than '
                            'out-of-memory: the caller then receives both the reply and the error' % (hname, cal))
        else:
            r.ok('%s:reply-staged-last' % hname)
    if n < 20:
        raise AnalysisBroken('only %d driver handlers analysed' % n)


def c07_9(ck, prog, rid='C07.9'):
    """sender='name' / destination='name' in a match rule stand for the connection that owns the name now."""
    r = ck.rule(rid, 'a well-known name in a rule\'s sender= / destination= key matches a connection only when that '
                'connection is the name\'s primary owner: connection_is_primary_owner answers non-zero only with '
                '`bus_service_get_primary_owners_connection (service) == connection`, for the service looked up under '
                'the name it was given', 'DEC',
                breaks='a connection merely waiting in the name\'s queue counts as the name: subscribers (and monitors '
                'filtering on the name) receive traffic of connections that do not own it', floor=2)
    S = 'bus/signals.c'
    fn = prog.fn('connection_is_primary_owner', S)
    conn = fn.params[0]['id']
    name = fn.params[1]['id']
    nret = [0]

    def strip(e):
        while isinstance(e, dict) and e.get('k') in ('paren', 'cast'):
            e = e['e']
        return e

    def on_exit(user, ctx, ret, ev):
        if ret is None:
            return
        nret[0] += 1
        if ctx.const_of(ret) == 0:
            return
        e = strip(ret)
        ok = False
        if isinstance(e, dict) and e.get('k') == 'bin' and e['op'] == '==':
            for a, b in ((strip(e['l']), strip(e['r'])), (strip(e['r']), strip(e['l']))):
                if is_call(a, 'bus_service_get_primary_owners_connection') and is_ref(b) and b.get('id') == conn:
                    sv = strip(a['args'][0]) if a['args'] else None
                    o = ctx.origin_call(sv) if sv is not None else None
                    ok = o is not None and ctx.ex.call_names.get(o[0]) == 'bus_registry_lookup'
        if not ok:
            ctx.report('connection_is_primary_owner can answer %s, which is not "the primary owner of the looked-up '
                       'service is this connection"' % estr(ret), ev['line'], key=('answer', ev['line']))
    locs = {lhs['name'] for b, i, ev in fn.events() for lhs, how, rhs in written_lvalues(ev)
            if is_ref(lhs) and rhs is not None and is_call(rhs, 'bus_registry_lookup')}
    ex = Explorer(fn, on_exit=on_exit, track=locs or None, calls={'bus_registry_lookup'}, cap=100000).run()
    if nret[0] < 2:
        raise AnalysisBroken('connection_is_primary_owner: returns not found')
    if ex.reports:
        r.from_reports(ex.reports, keyfn=lambda k, rep: 'connection_is_primary_owner:%s' % k[0])
    else:
        r.ok('connection_is_primary_owner:answer')
    # the name that is looked up is the one the caller gave
    lk = [c for b, i, c in fn.calls('bus_registry_lookup')]
    inits = [c for b, i, c in fn.calls('_dbus_string_init_const')]
    okn = len(lk) == 1 and inits and all(len(c['args']) > 1 and is_ref(strip(c['args'][1])) and
                                         strip(c['args'][1]).get('id') == name for c in inits)
    (r.ok('connection_is_primary_owner:looks-up-given-name') if okn else
     r.violation('connection_is_primary_owner:looks-up-given-name', fn.name, S, fn.line,
                 'the service is not looked up under the name the rule gave'))


def run(ck):
    ck.explanation = (
        'Static rules over bus/signals.c, bus/driver.c, bus/dispatch.c, bus/connection.c: a table of the nine '
        'match flags against setter / matcher / match_rule_equal / unref (regions guarded by `flags & K` are '
        'computed from dominators and the fields they touch compared with the table); validation and '
        '"specified twice" tests dominate each setter in the parser; negative-offset subscripts are proved '
        'non-negative by interval reasoning with branch refinement; rules are swept from every pool on '
        'disconnect; AddMatch is undone on failure and the broadcast loop tries every recipient.')
    ck.not_decided = ('value-level matching semantics for every key/value/message; tokeniser quoting; '
                      'argN type handling; duplicates over histories (stamp logic is under C05.2b)')
    for v, prog in ck.programs(thorough_variants=('B',)):
        c07_1(ck, prog)
        c07_2(ck, prog)
        c07_2b(ck, prog)
        c07_3(ck, prog)
        c07_4(ck, prog)
        c07_5(ck, prog)
        c07_6(ck, prog)
        c07_9(ck, prog)
        r = ck.rule('C07.10', 'match-rule keys and values are recognised by whole-string equality (shared with C04.6): '
                    '_dbus_string_equal_c_str / _dbus_string_equal answer TRUE only when every byte was compared and both '
                    'strings are exhausted', 'TS', breaks='a truncated key (arg0namespac) is accepted and stored as a live '
                    'rule: a connection all of whose rules should have been refused receives broadcasts', floor=2)
        lib.whole_string_equality(prog, r)
        from rules.C14 import c14_13
        lib.shared_rule(ck, prog, 'C07.11', 'the hash tables the rules are kept in (rules_by_iface) stay consistent when '
                        'growing them runs out of memory (shared with C14.13)', 'TS', 'after one failed growth the table '
                        'believes in a bucket array it never got: the disconnect sweep walks beyond the array and the '
                        'bus crashes', 3, c14_13)
        from rules.C06 import c06_12
        c06_12(ck, prog, 'C07.8')
