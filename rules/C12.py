"""C12 - header edits keep a message valid and touch nothing else.
DESIGN.md C12.1 - C12.3 (structural clauses)."""
from engine.cfg import (Explorer, estr, is_call, is_int, is_member, is_ref, strip_addr, walk,
                        written_lvalues, event_expr)
from engine.facts import AnalysisBroken
from engine import lib

HDR = 'dbus/dbus-marshal-header.c'
MSG = 'dbus/dbus-message.c'
REC = 'dbus/dbus-marshal-recursive.c'
EDITORS = ('_dbus_header_set_field_basic', '_dbus_header_delete_field', '_dbus_header_remove_unknown_fields')
PADDERS = EDITORS + ('_dbus_header_create',)
BYTE_MOVERS = {'_dbus_type_reader_set_basic', '_dbus_type_reader_delete', 'write_basic_field', 'set_basic_field'}


def c12_1(ck, prog):
    r = ck.rule('C12.1', 'every header edit gives back the 7 reserved padding bytes on every exit, including '
                'out-of-memory exits', 'PAIR',
                breaks='after a failed edit the serialised header is not 8-aligned (body misaligned), although '
                       'the edit reported failure', floor=3)
    for name in PADDERS:
        fn = prog.fn(name, HDR)
        res = {c['id'] for b, i, c in fn.calls('reserve_header_padding')}
        if not res:
            raise AnalysisBroken('%s no longer calls reserve_header_padding' % name)

        def on_event(user, ev, ctx, res=res):
            if ev['ev'] == 'call':
                cal = ev['e'].get('callee')
                if cal == 'reserve_header_padding':
                    if user == 'reserved':
                        ctx.report('padding reserved twice without correcting in between', ev['line'], key='twice')
                    return ('pending', ev['e']['id'])
                if cal == 'correct_header_padding':
                    if user != 'reserved':
                        ctx.report('correct_header_padding without a successful reserve (asserts padding == 7)',
                                   ev['line'], key='unpaired-correct')
                    return 'idle'
            if isinstance(user, tuple) and user[0] == 'pending':
                k = ctx.result_known(user[1])
                if k is True:
                    return 'reserved'
                if k is False:
                    return 'idle'
            return user

        def on_exit(user, ctx, ret, ev):
            st = user
            if isinstance(st, tuple) and st[0] == 'pending':
                k = ctx.result_known(st[1])
                st = 'reserved' if k is True else ('idle' if k is False else 'reserved?')
            if st in ('reserved', 'reserved?'):
                v = ctx.const_of(ret) if ret is not None else None
                ctx.report('returns %s with the reserved header padding still in place'
                           % ('FALSE' if v == 0 else 'TRUE' if v else '?'), ev['line'],
                           key=('exit', ev['line']))
        ex = Explorer(fn, init='idle', on_event=on_event, on_exit=on_exit, calls={'reserve_header_padding'},
                      track='auto').run()
        key = '%s:reserve-without-correct' % name
        if ex.reports:
            r.from_reports(ex.reports, keyfn=lambda k, rep, key=key: key + (':%s' % k[1] if isinstance(k, tuple) else ':' + k))
        else:
            r.ok(key, {'states': ex.nstates})
    lib.who_calls(prog, r, 'reserve_header_padding', set(PADDERS))
    lib.who_calls(prog, r, 'correct_header_padding', set(PADDERS))
    # correct_header_padding cannot fail: shorten + align within the reserved space
    c = prog.fn('correct_header_padding', HDR)
    if c.calls('_dbus_string_shorten') and c.calls('_dbus_string_align_length'):
        r.ok('correct_header_padding:shape')
    else:
        r.violation('correct_header_padding:shape', c.name, HDR, c.line,
                    'correct_header_padding no longer shortens and re-aligns')


def c12_2(ck, prog):
    r = ck.rule('C12.2', 'after bytes of the header moved, the cached field positions are invalidated before '
                'the editor returns success', 'DOM',
                breaks='getters read stale offsets: other fields read back wrong or the library asserts',
                floor=3)
    for name in EDITORS:
        fn = prog.fn(name, HDR)
        movers = {c['id']: c.get('callee') for b, i, c in fn.calls() if c.get('callee') in BYTE_MOVERS}
        if not movers:
            raise AnalysisBroken('%s: no byte-moving call found' % name)

        def on_event(user, ev, ctx, movers=movers):
            if ev['ev'] == 'call':
                c = ev['e']
                if c['id'] in movers:
                    return ('moved?', c['id'])
                if c.get('callee') == '_dbus_header_cache_invalidate_all':
                    return 'clean'
            # after an append at the end of the field array (write_basic_field) only the new field's position is
            # unknown: marking that one entry unknown is an invalidation too
            if isinstance(user, tuple) and user[0] == 'moved?' and movers.get(user[1]) == 'write_basic_field':
                for lhs, how, rhs in written_lvalues(ev):
                    if is_member(lhs, 'value_pos', 'DBusHeaderField') and isinstance(rhs, dict) and is_int(rhs) \
                            and rhs.get('name') == '_DBUS_HEADER_FIELD_VALUE_UNKNOWN':
                        return 'clean'
            return user

        def on_exit(user, ctx, ret, ev):
            v = ctx.const_of(ret) if ret is not None else None
            if isinstance(user, tuple) and user[0] == 'moved?':
                k = ctx.result_known(user[1])
                if k is not False and (v is None or v != 0):
                    ctx.report('returns TRUE after %s moved header bytes without invalidating the field cache'
                               % movers[user[1]], ev['line'], key='stale')
        # a loop may move bytes several times: the dirty state must not survive to the next read either
        ex = Explorer(fn, init='clean', on_event=on_event, on_exit=on_exit, calls=set(BYTE_MOVERS),
                      track='auto').run()
        key = '%s:cache-invalidated' % name
        if ex.reports:
            r.from_reports(ex.reports, keyfn=lambda k, rep, key=key: key)
        else:
            r.ok(key)
    # in the strip loop the cache must be clean again before the next iteration reads the array
    fn = prog.fn('_dbus_header_remove_unknown_fields', HDR)

    def on_event2(user, ev, ctx):
        if ev['ev'] == 'call':
            cal = ev['e'].get('callee')
            if cal == '_dbus_type_reader_delete':
                return 'dirty'
            if cal == '_dbus_header_cache_invalidate_all':
                return 'clean'
            if cal == '_dbus_type_reader_get_current_type' and user == 'dirty':
                ctx.report('the next field is examined while the field cache is stale', ev['line'], key='loop')
        return user
    ex = Explorer(fn, init='clean', on_event=on_event2, track=None).run()
    if ex.reports:
        r.from_reports(ex.reports, keyfn=lambda k, rep: '_dbus_header_remove_unknown_fields:cache-per-deletion')
    else:
        r.ok('_dbus_header_remove_unknown_fields:cache-per-deletion')
    inv = prog.fn('_dbus_header_cache_invalidate_all', HDR)
    ok = False
    for b, i, ev in inv.events():
        for lhs, how, rhs in written_lvalues(ev):
            if is_member(lhs, 'value_pos', 'DBusHeaderField') and is_int(rhs):
                ok = True
    if ok:
        r.ok('_dbus_header_cache_invalidate_all:resets-positions')
    else:
        r.violation('_dbus_header_cache_invalidate_all:resets-positions', inv.name, HDR, inv.line,
                    'invalidate_all no longer resets fields[i].value_pos')


def c12_3(ck, prog):
    r = ck.rule('C12.3', 'header bytes and padding are written only by the header module; public setters refuse '
                'locked messages before touching the header', 'WHO',
                breaks='bytes already queued for the wire change, or the header is edited behind the cache',
                floor=10)
    lib.who_writes_field(prog, r, 'DBusHeader', 'padding',
                         {'reserve_header_padding', 'correct_header_padding', '_dbus_header_reinit',
                          '_dbus_header_init', '_dbus_header_copy', '_dbus_header_load', '_dbus_header_create',
                          '_dbus_header_byteswap'})
    # functions that pass &header->data to a mutating string/marshal function
    mutators = set()
    for f in lib.prod_funcs(prog):
        for b, i, c in f.calls():
            for a in c['args']:
                inner = strip_addr(a)
                if inner is not None and is_member(inner, 'data', 'DBusHeader'):
                    cal = c.get('callee') or ''
                    if cal in ('_dbus_string_get_length', '_dbus_string_get_byte', '_dbus_string_get_const_data',
                               '_dbus_string_get_const_data_len', '_dbus_marshal_read_basic',
                               '_dbus_marshal_read_uint32', '_dbus_type_reader_init', '_dbus_string_copy',
                               '_dbus_string_copy_len', '_dbus_verbose_bytes_of_string', '_dbus_string_equal',
                               '_dbus_validate_body_with_reason', '_dbus_string_validate_nul',
                               '_dbus_string_init_const_len', '_dbus_string_get_const_udata_len',
                               '_dbus_string_hex_encode', '_dbus_string_get_allocated_size',
                               '_dbus_string_get_const_udata'):
                        continue
                    mutators.add((f.name, f.file, cal))
    for fname, file, cal in sorted(mutators):
        key = 'header.data<-%s:%s' % (fname, cal)
        if file == HDR:
            r.ok(key)
        elif file == MSG and fname in ('dbus_message_marshal', '_dbus_message_get_network_data',
                                        'load_message', 'dbus_message_demarshal_bytes_needed'):
            r.ok(key, 'reader of the serialised form')
        else:
            r.violation(key, fname, file, None,
                        '%s (outside the header module) passes &header->data to %s' % (fname, cal))
    # public setters: the locked precondition dominates the header edit
    n = 0
    for f in lib.prod_funcs(prog, {MSG}):
        edits = [c for b, i, c in f.calls() if c.get('callee') in
                 ('_dbus_header_set_field_basic', '_dbus_header_delete_field', '_dbus_header_remove_unknown_fields',
                  '_dbus_header_toggle_flag', '_dbus_header_set_serial', 'set_or_delete_string_field')]
        if not edits or not f.exported or not f.name.startswith('dbus_message_'):
            continue
        chk = {c['id'] for b, i, c in f.calls('_dbus_message_iter_append_check')}

        def sinks(ev, ctx):
            if ev['ev'] == 'call' and ev['e'].get('callee') in (
                    '_dbus_header_set_field_basic', '_dbus_header_delete_field',
                    '_dbus_header_remove_unknown_fields', '_dbus_header_toggle_flag', 'set_or_delete_string_field'):
                return ev['e']['callee']
            return None

        def akey(atom, resolve):
            if atom[0] == 'truthy' and is_member(atom[1], 'locked', 'DBusMessage'):
                return 'locked'
            return None
        bad = []

        def on_event(user, ev, ctx):
            lab = sinks(ev, ctx)
            if lab and ctx.atom('locked') is not False and not any(ctx.result_known(c) is True for c in chk):
                ctx.report('%s is reached without the !message->locked precondition' % lab, ev['line'], key=lab)
            return user
        ex = Explorer(f, on_event=on_event, atom_key=akey, track='auto',
                      calls={'_dbus_message_iter_append_check'}).run()
        n += 1
        key = '%s:not-locked' % f.name
        if ex.reports:
            r.from_reports(ex.reports, keyfn=lambda k, rep, key=key: key)
        else:
            r.ok(key)
    if n < 8:
        raise AnalysisBroken('only %d exported header setters found in dbus-message.c' % n)
    append_check_tests_locked(prog, r)


def append_check_tests_locked(prog, r):
    ac = prog.fn('_dbus_message_iter_append_check', MSG)
    okc = [True]

    def akey2(atom, resolve):
        if atom[0] == 'truthy' and is_member(atom[1], 'locked', 'DBusMessage'):
            return 'locked'
        return None

    def on_exit(user, ctx, ret, ev):
        v = ctx.const_of(ret) if ret is not None else None
        if (v is None or v != 0) and ctx.atom('locked') is not False:
            ctx.report('_dbus_message_iter_append_check accepts an iterator without testing message->locked',
                       ev['line'], key='locked')
    ex = Explorer(ac, on_exit=on_exit, atom_key=akey2, track='auto').run()
    if ex.reports:
        r.from_reports(ex.reports, keyfn=lambda k, rep: '_dbus_message_iter_append_check:%s' % k)
    else:
        r.ok('_dbus_message_iter_append_check:tests-locked')


def c12_4(ck, prog):
    r = ck.rule('C12.4', 'in-place value replacement is all-or-nothing: the fix-ups of array lengths are '
                'applied only after the last step that can run out of memory', 'TS',
                breaks='a failed edit leaves array lengths that do not describe the (unchanged) contents',
                floor=2)
    fn = prog.fn('replacement_block_replace', REC)
    fall = {c['id']: c.get('callee') for b, i, c in fn.calls()
            if c.get('callee') in ('_dbus_type_writer_write_reader_partial', '_dbus_string_replace_len')}
    if len(fall) < 2 or not fn.calls('apply_and_free_fixups'):
        raise AnalysisBroken('replacement_block_replace: anchors vanished')

    def on_event(user, ev, ctx):
        if ev['ev'] == 'call':
            c = ev['e']
            if c.get('callee') == 'apply_and_free_fixups':
                return 'applied'
            if c['id'] in fall and user == 'applied':
                ctx.report('%s (can fail) runs after the length fix-ups were already applied to the real string'
                           % fall[c['id']], c['line'], key='fallible-after')
        return user

    def on_exit(user, ctx, ret, ev):
        v = ctx.const_of(ret) if ret is not None else None
        if user == 'applied' and v == 0:
            ctx.report('returns FALSE after the fix-ups were applied', ev['line'], key='fail-after-apply')
        if user != 'applied' and (v is None or v != 0):
            ctx.report('returns TRUE without applying the fix-ups', ev['line'], key='no-fixups')
    ex = Explorer(fn, init='start', on_event=on_event, on_exit=on_exit, track='auto').run()
    if ex.reports:
        r.from_reports(ex.reports, keyfn=lambda k, rep: 'replacement_block_replace:%s' % k)
    else:
        r.ok('replacement_block_replace:fixups-last')
    # failure restores the replacement string length
    lens = [c for b, i, c in fn.calls('_dbus_string_set_length') if is_ref(c['args'][1], 'orig_len')]
    if lens:
        r.ok('replacement_block_replace:restores-length-on-oom')
    else:
        r.violation('replacement_block_replace:restores-length-on-oom', fn.name, REC, fn.line,
                    'the oom path no longer restores the replacement block length')
    # write_basic_field deletes what it appended on failure
    wb = prog.fn('write_basic_field', HDR)

    def on_exit2(user, ctx, ret, ev):
        v = ctx.const_of(ret) if ret is not None else None
        if v == 0 and not user:
            ctx.report('write_basic_field fails without deleting the partially appended field', ev['line'],
                       key='no-restore')

    def on_event2(user, ev, ctx):
        if ev['ev'] == 'call' and ev['e'].get('callee') in ('_dbus_string_delete', '_dbus_string_set_length'):
            return True
        return user
    ex2 = Explorer(wb, init=False, on_event=on_event2, on_exit=on_exit2, track='auto').run()
    if ex2.reports:
        r.from_reports(ex2.reports, keyfn=lambda k, rep: 'write_basic_field:%s' % k)
    else:
        r.ok('write_basic_field:restores-on-failure')


def c12_5(ck, prog, rid='C12.5'):
    r = ck.rule(rid, 'every header-field setter / getter call names the wire type that the header-field table '
                '(_dbus_header_field_types, checked against the specification by C01.4) gives that field', 'TAB',
                breaks='a field is written with a type the loader of every receiver rejects ("Header field has '
                       'wrong type"), or read with the wrong width', floor=15)
    HDR = 'dbus/dbus-marshal-header.c'
    t = prog.table('_dbus_header_field_types', HDR)
    types = {}
    for el in t['init'].get('elems', []):
        f = el.get('fields') or {}
        if (f.get('code') or {}).get('v') is not None:
            types[f['code']['v']] = (f.get('type') or {}).get('v')
    ACC = {'_dbus_header_set_field_basic': (1, 2), '_dbus_header_get_field_basic': (1, 2),
           'set_or_delete_string_field': (1, 2)}
    # the file-local helper's parameters are found by role (its two int parameters: field code, then type code), so
    # that reordering them changes nothing
    for g in prog.by_name.get('set_or_delete_string_field', []):
        ints = [k for k, p2 in enumerate(g.params) if (p2.get('t') or '') == 'int']
        if len(ints) == 2:
            ACC['set_or_delete_string_field'] = (ints[0], ints[1])
    n = 0
    for f in lib.prod_funcs(prog):
        for b, i, c in f.calls():
            pos = ACC.get(c.get('callee'))
            if pos is None or len(c['args']) <= max(pos):
                continue
            fa, ta = c['args'][pos[0]], c['args'][pos[1]]
            if not is_int(fa) or not is_int(ta):
                continue                       # forwarded parameters: checked at the forwarding caller
            n += 1
            key = '%s:%s(%s)' % (f.name, c['callee'], fa.get('name') or fa['v'])
            want = types.get(fa['v'])
            if want is None:
                r.violation(key, f.name, f.file, c['line'], 'header field code %s is not in the field table' % fa['v'])
            elif want != ta['v']:
                r.violation(key, f.name, f.file, c['line'],
                            '%s accesses header field %s with type \'%s\'; the field table says \'%s\'' % (
                                f.name, fa.get('name') or fa['v'], chr(ta['v']), chr(want)))
            else:
                r.ok(key)
    if n < 15:
        raise AnalysisBroken('only %d constant header-field accesses found' % n)


def c12_6(ck, prog, rid='C12.6'):
    r = ck.rule(rid, 'string edit primitives are all-or-nothing: a dbus-string.c function that reports failure has '
                'not written into the destination string before the failing step (growing is done first, bytes '
                'are moved afterwards)', 'TS',
                breaks='a header edit that runs out of memory returns FALSE but has already overwritten header '
                       'bytes: the message no longer serialises to valid bytes', floor=6)
    STR = 'dbus/dbus-string.c'
    WR = {'memmove', 'memcpy', 'memset'}
    n = 0
    for fn in lib.prod_funcs(prog, {STR}):
        if fn.ret != 'dbus_bool_t':
            continue
        writes = [c for b, i, c in fn.calls() if c.get('callee') in WR]
        if not writes:
            continue
        n += 1

        def on_event(user, ev, ctx):
            if ev['ev'] == 'call' and ev['e'].get('callee') in WR:
                return ('written', ev['line'])
            return user

        def on_exit(user, ctx, ret, ev, fn=fn):
            if user is not None and ctx.ret_status(ret) == 'fail':
                ctx.report('%s returns FALSE after bytes were already written (line %d)' % (fn.name, user[1]),
                           ev['line'] if ev else fn.endline, key=('partial', fn.name))
        ex = Explorer(fn, init=None, on_event=on_event, on_exit=on_exit, calls='ALL', track='auto', cap=300000).run()
        key = '%s:all-or-nothing' % fn.name
        if ex.reports:
            for k, rep in ex.reports.items():
                r.violation(key, fn.name, STR, rep['line'], rep['reason'], rep['path'])
        else:
            r.ok(key)
    r.note('%d byte-moving string primitives examined' % n)


def c12_9(ck, prog, rid='C12.9'):
    r = ck.rule(rid, 'a header field that could not be appended completely is removed again from where the append began: '
                'the roll-back in write_basic_field deletes from the position saved before the first write, up to the '
                'padding that was there before', 'PAIR',
                breaks='a set_* call that fails half-way (out of memory while the header grows) returns FALSE but leaves '
                'the alignment padding and the field code behind: the message no longer marshals to a valid message',
                floor=2)
    fn = prog.fn('write_basic_field', HDR)
    wid = fn.params[0]['id']
    dels = [c for b, i, c in fn.calls('_dbus_string_delete')]
    if len(dels) != 1:
        raise AnalysisBroken('write_basic_field: expected one roll-back deletion')
    d = dels[0]
    first_write = min([c['line'] for b, i, c in fn.calls() if (c.get('callee') or '').startswith('_dbus_type_writer_')] or [0])
    defs = {}
    for b, i, ev in fn.events():
        for lhs, how, rhs in written_lvalues(ev):
            if is_ref(lhs) and lhs.get('kind') == 'local' and how in ('=', 'decl') and rhs is not None:
                defs.setdefault(lhs['id'], []).append((rhs, ev['line']))
    pos = d['args'][1]
    oks = is_ref(pos) and len(defs.get(pos.get('id'), [])) == 1 and \
        is_member(defs[pos['id']][0][0], 'value_pos', 'DBusTypeWriter') and \
        is_ref(defs[pos['id']][0][0]['base']) and defs[pos['id']][0][0]['base'].get('id') == wid and \
        defs[pos['id']][0][1] < first_write
    if oks:
        r.ok('write_basic_field:rollback-from-saved-position')
    else:
        r.violation('write_basic_field:rollback-from-saved-position', fn.name, HDR, d['line'],
                    'the roll-back deletes from %s, which is not the writer position saved before the first write' % estr(pos))
    ln = d['args'][2]
    mentions_pos = any(is_ref(x) and x.get('id') == pos.get('id') for x in walk(ln)) if is_ref(pos) else False
    has_len = any(is_call(x, '_dbus_string_get_length') for x in walk(ln))
    if mentions_pos and has_len and ln.get('k') == 'bin' and ln['op'] == '-':
        r.ok('write_basic_field:rollback-length')
    else:
        r.violation('write_basic_field:rollback-length', fn.name, HDR, d['line'],
                    'the roll-back length %s is not "current length - saved position - padding"' % estr(ln))


def run(ck):
    ck.explanation = (
        'Static rules over dbus/dbus-marshal-header.c, dbus/dbus-marshal-recursive.c, dbus/dbus-message.c: '
        '(PAIR) reserve_header_padding / correct_header_padding are paired on every exit of the three header '
        'editors, including OOM exits; (DOM) successful byte-moving edits invalidate the field cache before '
        'returning and before the strip loop reads on; (WHO) only the header module mutates header bytes and '
        'padding, and every exported setter tests !message->locked first; (TS) in-place replacement applies '
        'array-length fix-ups only after the last fallible step and restores lengths on failure.')
    ck.not_decided = ('the bytes after realignment for every layout / byte order; that the edited field reads '
                      'back as set; preservation of other fields\' values (value-level)')
    for v, prog in ck.programs(thorough_variants=('B',)):
        c12_1(ck, prog)
        c12_2(ck, prog)
        c12_3(ck, prog)
        c12_4(ck, prog)
        c12_5(ck, prog)
        c12_6(ck, prog)
        c12_9(ck, prog)
        # header edits marshal with the message's own byte order (shared with C02.5)
        from rules.C02 import c02_5
        r7 = ck.rule('C12.7', 'every marshalling call a header edit makes on the message\'s own bytes is given the '
                     'byte order read from the message (shared with C02.5)', 'TAB',
                     breaks='adding a field to a message that was byte-swapped in place writes it in the wrong byte '
                            'order: the header no longer parses', floor=12)
        save = ck.rule
        ck.rule = lambda *a, **k: r7
        try:
            c02_5(ck, prog)
        finally:
            ck.rule = save
        from rules.C03 import c03_6
        lib.shared_rule(ck, prog, 'C12.8', 'stripping unknown fields covers every code above the last known one: '
                        'unsigned field code, every comparison with DBUS_HEADER_FIELD_LAST on the right side of the '
                        'boundary (shared with C03.6)', 'TS', 'unknown fields with codes in part of 11..255 survive '
                        'the strip and the following edits', 3, c03_6)
