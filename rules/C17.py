"""C17 - every call awaiting a reply completes exactly once.
DESIGN.md C17.1 - C17.4 (structural clauses)."""
from engine.cfg import (Explorer, estr, is_call, is_int, is_member, is_ref, strip_addr, walk,
                        written_lvalues, event_expr)
from engine.facts import AnalysisBroken
from engine import lib

CONN = 'dbus/dbus-connection.c'
PEND = 'dbus/dbus-pending-call.c'


def c17_1(ck, prog):
    r = ck.rule('C17.1', 'single completion funnel: a pending call is completed only by '
                'complete_pending_call_and_unlock, which detaches it from the reply table between start and '
                'finish; timeout errors are queued only by the timeout handler, the disconnect sweep and the '
                'blocking wait', 'WHO', breaks='a call is notified twice, or never', floor=10)
    lib.who_calls(prog, r, '_dbus_pending_call_set_reply_unlocked', {'complete_pending_call_and_unlock'})
    lib.who_calls(prog, r, '_dbus_pending_call_start_completion_unlocked', {'complete_pending_call_and_unlock'})
    lib.who_calls(prog, r, '_dbus_pending_call_finish_completion', {'complete_pending_call_and_unlock'})
    lib.who_calls(prog, r, 'complete_pending_call_and_unlock',
                  {'check_for_reply_and_update_dispatch_unlocked', '_dbus_connection_block_pending_call',
                   'dbus_connection_dispatch'})
    lib.who_calls(prog, r, '_dbus_pending_call_queue_timeout_error_unlocked',
                  {'reply_handler_timeout', 'connection_timeout_and_complete_all_pending_calls_unlocked',
                   '_dbus_connection_block_pending_call'})
    fn = prog.fn('complete_pending_call_and_unlock', CONN)
    order = []
    for b, i, c in sorted(fn.calls(), key=lambda x: x[2]['line']):
        if c.get('callee') in ('_dbus_pending_call_set_reply_unlocked', '_dbus_pending_call_start_completion_unlocked',
                               '_dbus_connection_detach_pending_call_and_unlock',
                               '_dbus_pending_call_finish_completion'):
            order.append(c['callee'])
    want = ['_dbus_pending_call_set_reply_unlocked', '_dbus_pending_call_start_completion_unlocked',
            '_dbus_connection_detach_pending_call_and_unlock', '_dbus_pending_call_finish_completion']
    if order == want and len(fn.blocks) <= 4:
        r.ok('complete_pending_call_and_unlock:set-start-detach-finish')
    else:
        r.violation('complete_pending_call_and_unlock:set-start-detach-finish', fn.name, CONN, fn.line,
                    'completion sequence is %s (expected set reply, start completion, detach, finish on one path)' % order)
    # writers of the reply table
    ops = {}
    for f in lib.prod_funcs(prog):
        for b, i, c in f.calls():
            if c['args'] and is_member(c['args'][0], 'pending_replies', 'DBusConnection') and \
                    (c.get('callee') or '').startswith('_dbus_hash_table_') and \
                    ('insert' in c['callee'] or 'remove' in c['callee']):
                ops.setdefault(f.name, set()).add(c['callee'])
    allowed = {'_dbus_connection_attach_pending_call_unlocked', '_dbus_connection_detach_pending_call_unlocked',
               '_dbus_connection_detach_pending_call_and_unlock',
               'connection_timeout_and_complete_all_pending_calls_unlocked'}
    for f, cs in ops.items():
        absorbed = None
        if f not in allowed:
            for g in prog.by_name.get(f, []):
                for op in cs:
                    absorbed = absorbed or lib.absorbed_from(prog, g, allowed, op_callee=op)
        if f in allowed or absorbed:
            r.ok('pending_replies-writer:%s' % f, sorted(cs))
        else:
            r.violation('pending_replies-writer:%s' % f, f, CONN, None, '%s edits connection->pending_replies' % f)
    # cancel only detaches
    pc = prog.fn('dbus_pending_call_cancel', PEND)
    cal = {c.get('callee') for b, i, c in pc.calls()}
    if '_dbus_connection_remove_pending_call' in cal and not cal & {'_dbus_pending_call_complete',
                                                                    '_dbus_pending_call_finish_completion'}:
        r.ok('dbus_pending_call_cancel:detach-only')
    else:
        r.violation('dbus_pending_call_cancel:detach-only', pc.name, PEND, pc.line,
                    'cancel no longer just detaches the call (calls: %s)' % sorted(x for x in cal if x))
    # completion notifies once: finish_completion sets completed then calls the notify function
    sc = prog.fn('_dbus_pending_call_start_completion_unlocked', PEND)
    sets = [ev for b, i, ev in sc.events() for l, h, rh in written_lvalues(ev)
            if is_member(l, 'completed', 'DBusPendingCall') and is_int(rh) and rh['v'] != 0]
    if sets:
        r.ok('_dbus_pending_call_start_completion_unlocked:marks-completed')
    else:
        r.violation('_dbus_pending_call_start_completion_unlocked:marks-completed', sc.name, PEND, sc.line,
                    'completed is no longer set under the lock before notifying')
    lib.who_writes_field(prog, r, 'DBusPendingCall', 'completed',
                         {'_dbus_pending_call_start_completion_unlocked', '_dbus_pending_call_new_unlocked'})


WAITS = {'_dbus_connection_do_iteration_unlocked'}
COMPLETED_TESTS = {'dbus_pending_call_get_completed', '_dbus_pending_call_get_completed_unlocked'}


def c17_1b(ck, prog):
    r = ck.rule('C17.1b', 'a call is handed to the completion funnel only when it is known not to be completed '
                'yet: it was just found in the reply table (which holds only uncompleted calls), or a completed '
                'test on it came out false earlier on the path; the obligation moves to the callers of helpers '
                'that complete their argument without testing', 'DOM',
                breaks='a late or duplicate reply completes (and notifies) an already completed call a second '
                       'time', floor=4)
    funnel = {'complete_pending_call_and_unlock': 1}      # callee -> index of the pending-call argument
    files = {CONN, PEND}
    fns = [f for f in lib.prod_funcs(prog, files)]
    verdict = {}
    changed = True
    rounds = 0
    while changed and rounds < 6:
        changed = False
        rounds += 1
        verdict = {}
        for fn in fns:
            if fn.name in funnel and fn.name != 'complete_pending_call_and_unlock':
                pass
            sites = [(b, i, c) for b, i, c in fn.calls() if c.get('callee') in funnel
                     and len(c['args']) > funnel[c['callee']]]
            if not sites or fn.name == 'complete_pending_call_and_unlock':
                continue
            params = {p['id']: (k, p['name']) for k, p in enumerate(fn.params)}
            # where does the argument come from?
            for b, i, c in sites:
                a = c['args'][funnel[c['callee']]]
                key = '%s:%s@%s' % (fn.name, c['callee'], estr(a))
                if not is_ref(a):
                    verdict[key] = ('unknown', fn, c, None)
                    continue
                if a.get('id') in params:
                    verdict.setdefault(key, ('param', fn, c, a))
                else:
                    defs = [rhs for bb, ii, ev in fn.events() for l, h, rhs in written_lvalues(ev)
                            if is_ref(l) and l.get('id') == a.get('id') and rhs is not None and not is_int(rhs, 0)]
                    if defs and all(is_call(d, '_dbus_hash_table_lookup_int') and
                                    is_member(d['args'][0], 'pending_replies', 'DBusConnection') for d in defs):
                        verdict[key] = ('table', fn, c, a)
                    else:
                        verdict[key] = ('unknown', fn, c, a)
        # path check for parameter-sourced sites
        for key, (kind, fn, c, a) in list(verdict.items()):
            if kind != 'param':
                continue
            vid = a['id']
            bad = []

            def on_event(user, ev, ctx, vid=vid, bad=bad):
                if ev['ev'] == 'call':
                    cc = ev['e']
                    if cc.get('callee') in COMPLETED_TESTS and cc['args'] and is_ref(cc['args'][0]) \
                            and cc['args'][0].get('id') == vid:
                        return user if user == 'checked' else ('pending', cc['id'])
                    if cc.get('callee') in WAITS:
                        # the blocking wait: another thread's dispatch may complete the call meanwhile
                        return 'unchecked'
                    if cc.get('callee') in funnel and len(cc['args']) > funnel[cc['callee']] and \
                            is_ref(cc['args'][funnel[cc['callee']]]) and cc['args'][funnel[cc['callee']]].get('id') == vid:
                        st = user
                        if isinstance(st, tuple):
                            st = 'checked' if ctx.result_known(st[1]) is False else 'unchecked'
                        if st != 'checked':
                            ctx.report('%s(%s) is reachable without a completed test on %s having come out false'
                                       % (cc['callee'], estr(cc['args'][funnel[cc['callee']]]), a['name']), cc['line'],
                                       key=(cc['callee'], cc['line']))
                if isinstance(user, tuple):
                    k = ctx.result_known(user[1])
                    if k is False:
                        return 'checked'
                    if k is True:
                        return 'unchecked'
                return user
            ex = Explorer(fn, init='unchecked', on_event=on_event, calls=COMPLETED_TESTS | WAITS, track='auto',
                          cap=300000).run()
            mine = {k: rep for k, rep in ex.reports.items() if k[1] == c['line']}
            verdict[key] = ('guarded', fn, c, a) if not mine else ('unguarded', fn, c, a, mine)
        for key, v in verdict.items():
            if v[0] == 'unguarded':
                fn, a = v[1], v[3]
                idx = [k for k, p in enumerate(fn.params) if p['id'] == a['id']][0]
                if fn.name not in funnel:
                    funnel[fn.name] = idx
                    changed = True
    for key, v in sorted(verdict.items()):
        kind, fn, c = v[0], v[1], v[2]
        if kind in ('table', 'guarded'):
            r.ok(key, {'site': '%s:%d' % (fn.file, c['line']), 'why': kind})
        elif kind == 'unknown':
            r.violation(key, fn.name, fn.file, c['line'],
                        '%s completes %s, whose origin is neither the reply table nor a tested parameter' % (
                            fn.name, estr(c['args'][funnel[c['callee']]])))
        else:
            callers = [prog.funcs[k] for k in prog.callers(fn.key) if prog.is_production(prog.funcs[k])]
            if fn.name.startswith('dbus_') or not callers:
                rep = list(v[4].values())[0]
                r.violation(key, fn.name, fn.file, c['line'],
                            'entry point %s: %s' % (fn.name, rep['reason']), rep['path'])
            else:
                r.ok(key, {'site': '%s:%d' % (fn.file, c['line']),
                           'why': 'helper completes its argument untested; obligation checked at its callers %s'
                                  % sorted(f.name for f in callers)})
    r.note('helpers that complete their argument untested: %s' % sorted(k for k in funnel
                                                                       if k != 'complete_pending_call_and_unlock'))


def c17_1c(ck, prog):
    r = ck.rule('C17.1c', 'a synthesized error (timeout, disconnect) is queued for a call that stays in the reply '
                'table: dispatch can only complete the call if it still finds it there under the error\'s reply '
                'serial', 'TS',
                breaks='the error is dispatched to filters instead of completing the call: an asynchronous call '
                       'never completes (no notification) after its connection is lost', floor=2)
    QUEUE = '_dbus_pending_call_queue_timeout_error_unlocked'
    REMOVERS = {'_dbus_hash_iter_remove_entry', '_dbus_connection_detach_pending_call_unlocked',
                '_dbus_connection_detach_pending_call_and_unlock', '_dbus_connection_remove_pending_call'}
    n = 0
    for f in lib.prod_funcs(prog, {CONN, PEND}):
        if not f.calls(QUEUE):
            continue
        n += 1
        rem = [c for b, i, c in f.calls() if c.get('callee') in REMOVERS or (
            (c.get('callee') or '').startswith('_dbus_hash_table_remove') and c['args']
            and is_member(c['args'][0], 'pending_replies', 'DBusConnection'))]
        key = '%s:queued-error-stays-matchable' % f.name
        if rem:
            r.violation(key, f.name, f.file, rem[0]['line'],
                        '%s queues the synthesized error of a call and also removes the call from the reply table '
                        '(%s): when the error is dispatched no pending call is found for it' % (
                            f.name, rem[0]['callee']))
        else:
            r.ok(key)
    if n < 2:
        raise AnalysisBroken('producers of synthesized errors not found')


def c17_5(ck, prog):
    r = ck.rule('C17.5', 'the reply table is keyed by reply serial on both sides: a call is stored and removed '
                'under its own reply serial, and an incoming message is looked up by the reply serial it carries '
                '(never by its own serial)', 'TAB',
                breaks='an unrelated incoming message disarms the timeout of (or completes) a call it does not '
                       'answer: that call never completes', floor=5)
    KEYS_OK = {'dbus_message_get_reply_serial', '_dbus_pending_call_get_reply_serial_unlocked'}
    n = 0
    for f in lib.prod_funcs(prog, {CONN}):
        for b, i, c in f.calls():
            cal = c.get('callee') or ''
            if not (cal.startswith('_dbus_hash_table_') and cal.endswith('_int')) or len(c['args']) < 2:
                continue
            if not is_member(c['args'][0], 'pending_replies', 'DBusConnection'):
                continue
            n += 1
            k = c['args'][1]
            key = '%s:%s' % (f.name, cal)
            srcs = []
            if is_call(k):
                srcs = [k]
            elif is_ref(k):
                srcs = [rhs for b2, i2, ev in f.events() for l, h, rhs in written_lvalues(ev)
                        if is_ref(l) and l.get('id') == k.get('id') and rhs is not None]
            if srcs and all(is_call(x) and x.get('callee') in KEYS_OK for x in srcs):
                r.ok(key, {'site': '%s:%d' % (CONN, c['line']), 'key': estr(srcs[0])[:60]})
            else:
                r.violation(key, f.name, CONN, c['line'], 'the reply table is accessed with key %s (%s), which is '
                            'not a reply serial' % (estr(k), ', '.join(estr(x)[:50] for x in srcs) or 'unknown origin'))
    if n < 5:
        raise AnalysisBroken('only %d accesses of connection->pending_replies by key found' % n)


def c17_6(ck, prog):
    r = ck.rule('C17.6', 'a blocking wait never waits again without having seen, since the previous wait, that the '
                'connection is still connected (a disconnected connection completes the call with an error '
                'instead)', 'DOM',
                breaks='dbus_pending_call_block() on a call with no timeout spins forever after the peer closed',
                floor=1)
    fn = prog.fn('_dbus_connection_block_pending_call', CONN)
    CONNECTED = '_dbus_connection_get_is_connected_unlocked'
    SLEEPS = WAITS | {'_dbus_memory_pause_based_on_timeout'}
    seen = [0]

    def on_event(user, ev, ctx):
        st = user
        if isinstance(st, tuple):
            k = ctx.result_known(st[1])
            if k is True:
                st = 'fresh'
            elif k is False:
                st = 'stale'
        if ev['ev'] == 'call':
            c = ev['e']
            if c.get('callee') == CONNECTED:
                return ('pending', c['id'])
            if c.get('callee') in SLEEPS:
                seen[0] += 1
                if st != 'fresh':
                    ctx.report('%s is reached again without the connection having been found connected since the '
                               'previous wait' % c['callee'], c['line'], key=('rewait', c['callee']))
                return 'stale'
        return st
    ex = Explorer(fn, init='fresh', on_event=on_event, calls={CONNECTED}, track='auto', cap=400000).run()
    if seen[0] < 2:
        raise AnalysisBroken('block_pending_call: waits not found')
    if ex.reports:
        r.from_reports(ex.reports, keyfn=lambda k, rep: 'block_pending_call:%s' % '/'.join(k))
    else:
        r.ok('block_pending_call:connected-before-every-rewait')


def c17_7(ck, prog):
    r = ck.rule('C17.7', 'every timeout of a connection reaches the main loop: when timeout (and watch) functions are '
                'installed, the already recorded timeouts are handed over by a walk from the first link with next '
                'steps only; timed waits convert milliseconds to seconds / sub-seconds by / 1000 and % 1000', 'TAB',
                breaks='calls made before the main loop was attached have no timer (they never time out), or a '
                       'timed wait lasts a thousand times too long', floor=4)
    from rules.C06 import walk_direction
    for name, file in (('_dbus_timeout_list_set_functions', 'dbus/dbus-timeout.c'),
                       ('_dbus_watch_list_set_functions', 'dbus/dbus-watch.c')):
        fn = prog.fn(name, file)
        f1, nx, back = walk_direction(fn)
        key = '%s:first->next' % name
        if f1 >= 1 and nx >= 1 and back == 0:
            r.ok(key, {'first': f1, 'next': nx})
        else:
            r.violation(key, name, file, fn.line, 'the hand-over walk is not first -> next over the whole list '
                        '(get_first_link: %d, next steps: %d, last/prev steps: %d)' % (f1, nx, back))
    # unit conversions of millisecond timeouts
    n = 0
    for f in lib.prod_funcs(prog):
        if not f.file.startswith('dbus/'):
            continue
        for b, i, ev in f.events():
            for lhs, how, rhs in written_lvalues(ev):
                if lhs.get('k') != 'member' or lhs.get('field') not in ('tv_sec', 'tv_usec', 'tv_nsec') or how != '=' \
                        or not isinstance(rhs, dict):
                    continue
                ms = [x for x in walk(rhs) if is_ref(x) and 'millisecond' in (x.get('name') or '')]
                if not ms:
                    continue
                n += 1
                ops = [(x['op'], x['r'].get('v')) for x in walk(rhs) if x.get('k') == 'bin' and is_int(x.get('r') or {})]
                need = {'tv_sec': [('/', 1000)], 'tv_usec': [('%', 1000), ('*', 1000)],
                        'tv_nsec': [('%', 1000)]}[lhs['field']]
                key = '%s:%s' % (f.name, lhs['field'])
                if all(o in ops for o in need):
                    r.ok(key, {'site': '%s:%d' % (f.file, ev['line'])})
                else:
                    r.violation(key, f.name, f.file, ev['line'],
                                '%s = %s: a millisecond count is stored in %s without %s' % (
                                    estr(lhs), estr(rhs)[:80], lhs['field'],
                                    ' and '.join('%s %d' % o for o in need)))
    if n < 2:
        raise AnalysisBroken('millisecond conversions not found')


def lock_event(c):
    cal = c.get('callee') or ''
    if cal == '_dbus_connection_lock':
        return 'lock'
    if cal == '_dbus_connection_unlock':
        return 'unlock'
    if cal in ('_dbus_rmutex_lock', '_dbus_rmutex_unlock') and c['args'] and \
            is_member(c['args'][0], 'mutex', 'DBusConnection'):
        return 'lock' if cal.endswith('_lock') else 'unlock'
    if cal.endswith('_and_unlock'):
        return 'callee-unlocks'
    if cal.endswith('_unlocked') or cal.endswith('_unlocked_no_update') or '_unlocked_' in cal:
        return 'needs-lock'
    return None


def contract(fn):
    n = fn.name
    if n.endswith('_and_unlock'):
        return ('L', 'U')
    if n.endswith('_unlocked') or n.endswith('_unlocked_no_update') or '_unlocked_' in n:
        return ('L', 'L')
    if fn.exported and (n.startswith('dbus_connection_') or n.startswith('dbus_pending_call_')) and not fn.static:
        return ('U', 'U')
    return None


# Functions whose lock state at exit depends on the result, as their own doc comment says (reviewed)
RESULT_DEPENDENT = {
    'check_for_reply_and_update_dispatch_unlocked': {'ok': 'U', 'fail': 'L'},   # "unlocks if it returns TRUE"
}


def c17_2(ck, prog):
    r = ck.rule('C17.2', 'connection lock discipline by the tree\'s naming contract: *_unlocked functions are '
                'entered and left with the lock held, *_and_unlock release it, public functions enter and leave '
                'unlocked; callee preconditions and HAVE_LOCK_CHECK beliefs hold at every site', 'TS',
                breaks='a completion races with dispatch (lost or double notification) or deadlocks', floor=80)
    n = 0
    for fn in lib.prod_funcs(prog, {CONN, PEND}):
        ct = contract(fn)
        if ct is None:
            continue
        if not any(lock_event(c) for b, i, c in fn.calls()) and ct[0] == ct[1]:
            # no lock-relevant call: contract holds trivially
            n += 1
            r.ok('%s:lock-contract' % fn.name)
            continue

        def on_event(user, ev, ctx, fn=fn):
            st = user
            if ev['ev'] == 'call':
                c = ev['e']
                k = lock_event(c)
                if k == 'lock':
                    if st == 'L':
                        ctx.report('locks the connection while already holding it (assertion in TOOK_LOCK_CHECK)',
                                   c['line'], key=('relock', c['line']))
                    return 'L'
                if k == 'unlock':
                    if st == 'U':
                        ctx.report('unlocks the connection without holding the lock', c['line'], key=('reunlock', c['line']))
                    return 'U'
                if k == 'callee-unlocks':
                    if st == 'U':
                        ctx.report('calls %s without holding the lock' % c['callee'], c['line'], key=('pre', c['callee']))
                    return 'U'
                if k == 'needs-lock' and st == 'U':
                    ctx.report('calls %s without holding the connection lock' % c['callee'], c['line'],
                               key=('pre', c['callee']))
                if c.get('callee') == '_dbus_real_assert' and c['args'] and \
                        any(is_member(x, 'have_connection_lock', 'DBusConnection') for x in walk(c['args'][0])):
                    neg = estr(c['args'][0]).startswith('(!') or '!connection' in estr(c['args'][0])
                    if not neg and st == 'U':
                        ctx.report('HAVE_LOCK_CHECK at a point where the lock is not held', c['line'], key=('belief', c['line']))
            return st

        def on_exit(user, ctx, ret, ev, ct=ct, fn=fn):
            want = ct[1]
            if fn.name in RESULT_DEPENDENT:
                stt = ctx.ret_status(ret)
                want = RESULT_DEPENDENT[fn.name].get(stt, user)
            if user != want:
                ctx.report('%s returns with the connection %s; its naming contract says %s' % (
                    fn.name, 'locked' if user == 'L' else 'unlocked', 'locked' if ct[1] == 'L' else 'unlocked'),
                    ev['line'] if ev else fn.endline, key=('exit', ev['line'] if ev else 0))
        try:
            ex = Explorer(fn, init=ct[0], on_event=on_event, on_exit=on_exit, track='auto', cap=300000).run()
        except AnalysisBroken:
            raise
        n += 1
        key = '%s:lock-contract' % fn.name
        if ex.reports:
            for k, rep in ex.reports.items():
                r.violation(key + ':' + '/'.join(str(x) for x in k), fn.name, fn.file, rep['line'], rep['reason'], rep['path'])
        else:
            r.ok(key, {'entry': ct[0], 'exit': ct[1]})
    r.note('%d functions with a naming contract analysed; unsuffixed static helpers are not covered' % n)


def c17_3(ck, prog):
    r = ck.rule('C17.3', 'message serials are non-zero and move forward: the counter starts at 1, is only '
                'incremented, skips 0 on wrap-around, and a message gets a serial only if it has none', 'ABS',
                breaks='a reply is paired with a different call (serial 0 or a repeated serial)', floor=4)

    def value_ok(f, how, rhs):
        if f.name == '_dbus_connection_new_for_transport':
            return None if how == '=' and is_int(rhs, 1) else 'client_serial initialised to %s' % estr(rhs)
        if f.name == '_dbus_connection_get_next_client_serial':
            if how == '++' or (how == '=' and is_int(rhs, 1)):
                return None
            return 'client_serial written with %s %s' % (how, estr(rhs))
        return 'unexpected writer'
    lib.who_writes_field(prog, r, 'DBusConnection', 'client_serial',
                         {'_dbus_connection_new_for_transport', '_dbus_connection_get_next_client_serial'},
                         value_ok=value_ok)
    fn = prog.fn('_dbus_connection_get_next_client_serial', CONN)

    def akey(atom, resolve):
        if atom[0] == 'truthy' and is_member(atom[1], 'client_serial', 'DBusConnection'):
            return 'nonzero'
        return None

    def on_event(user, ev, ctx):
        for lhs, how, rhs in written_lvalues(ev):
            if is_member(lhs, 'client_serial', 'DBusConnection'):
                if how == '++':
                    return 'incremented'
                if how == '=' and is_int(rhs, 1):
                    if ctx.atom('nonzero') is not False:
                        ctx.report('the counter is reset to 1 without having wrapped to 0', ev['line'], key='reset')
                    return 'reset'
        return user

    def on_exit(user, ctx, ret, ev):
        if user == 'incremented' and ctx.atom('nonzero') is not True:
            ctx.report('returns leaving client_serial possibly 0 (the next message would get serial 0)',
                       ev['line'], key='zero')
        if user == 'start':
            ctx.report('returns without advancing the counter', ev['line'], key='noadvance')
    ex = Explorer(fn, init='start', on_event=on_event, on_exit=on_exit, atom_key=akey, track='auto').run()
    if ex.reports:
        r.from_reports(ex.reports, keyfn=lambda k, rep: 'next_client_serial:%s' % k)
    else:
        r.ok('next_client_serial:skips-zero')
    sp = prog.fn('_dbus_connection_send_preallocated_unlocked_no_update', CONN)

    def sinks(ev, ctx):
        if ev['ev'] == 'call' and ev['e'].get('callee') == 'dbus_message_set_serial':
            return 'dbus_message_set_serial'
        return None
    lib.must_precede(sp, r, sinks, [lib.Guard('dbus_message_get_serial(message) == 0',
                                              lambda c, ctx: c.get('callee') == 'dbus_message_get_serial', expect=False)])


def c17_4(ck, prog):
    r = ck.rule('C17.4', 'in dbus_connection_dispatch a reply is matched to its pending call before builtin '
                'filters, user filters and object-tree dispatch can see it', 'DOM',
                breaks='a filter consumes a reply that a blocked caller is waiting for', floor=3)
    fn = prog.fn('dbus_connection_dispatch', CONN)
    look = {c['id'] for b, i, c in fn.calls('_dbus_hash_table_lookup_int')
            if is_member(c['args'][0], 'pending_replies', 'DBusConnection')}
    if not look:
        raise AnalysisBroken('dispatch no longer looks up pending_replies')

    def on_event(user, ev, ctx):
        if ev['ev'] == 'call':
            c = ev['e']
            if c['id'] in look:
                return True
            isfilter = c.get('callee') in ('_dbus_connection_run_builtin_filters_unlocked_no_update',
                                           '_dbus_object_tree_dispatch_and_unlock') or (
                c.get('callee') is None and is_member((c.get('fn') or {}).get('e') or c.get('fn') or {}, 'function',
                                                      'DBusMessageFilter'))
            if isfilter and not user:
                ctx.report('%s can run before the message was matched against pending replies' % (
                    c.get('callee') or 'a user filter'), c['line'], key=c.get('callee') or 'filter')
        return user
    ex = Explorer(fn, init=False, on_event=on_event, track=None, cap=400000).run()
    if ex.reports:
        r.from_reports(ex.reports, keyfn=lambda k, rep: 'dispatch:%s' % k)
    else:
        r.ok('dispatch:pending-reply-first')
    # a matched reply is completed and not shown to anybody else
    comp = [c for b, i, c in fn.calls('complete_pending_call_and_unlock')]
    if comp and all(is_ref(c['args'][1], 'pending') and is_ref(c['args'][2], 'message') for c in comp):
        r.ok('dispatch:matched-reply-completes-call')
    else:
        r.violation('dispatch:matched-reply-completes-call', fn.name, CONN, fn.line,
                    'a matched reply no longer completes its pending call')
    # lookup key is the reply serial of the message
    okk = any(is_ref(c['args'][1], 'reply_serial') for b, i, c in fn.calls('_dbus_hash_table_lookup_int') if c['id'] in look)
    defs = [rhs for b, i, ev in fn.events() for l, h, rhs in written_lvalues(ev) if is_ref(l, 'reply_serial') and rhs is not None]
    if okk and defs and all(is_call(d, 'dbus_message_get_reply_serial') for d in defs):
        r.ok('dispatch:lookup-by-reply-serial')
    else:
        r.violation('dispatch:lookup-by-reply-serial', fn.name, CONN, fn.line,
                    'pending calls are not looked up by the message\'s reply serial')


def c17_8(ck, prog):
    r = ck.rule('C17.8', 'the I/O path of a connection is given back on every path on which it was obtained: each '
                'successful _dbus_connection_acquire_io_path is followed by _dbus_connection_release_io_path before '
                'the function returns', 'PAIR',
                breaks='one early return leaves the I/O path taken for ever: no thread can read or write the '
                'connection again, replies sit unread, blocking calls never return and pending calls end in NoReply',
                floor=2)
    ACQ, REL = '_dbus_connection_acquire_io_path', '_dbus_connection_release_io_path'
    n = 0
    for fn in lib.prod_funcs(prog, files={CONN}):
        acq = {c['id'] for b, i, c in fn.calls(ACQ)}
        if not acq or fn.name in (ACQ, REL):
            continue
        n += 1

        def on_event(user, ev, ctx):
            if ev['ev'] == 'call' and ev['e'].get('callee') == REL:
                return False
            return user

        def on_edge(user, bid, idx, atom, sense, ctx, acq=acq):
            if atom is not None and atom[0] == 'truthy' and atom[1].get('k') == 'call' and atom[1]['id'] in acq:
                return bool(sense)
            return user

        def on_exit(user, ctx, ret, ev, fn=fn):
            if user:
                ctx.report('%s returns with the I/O path still acquired' % fn.name,
                           ev['line'] if ev else fn.endline, key=('held', ev['line'] if ev else 0))
        ex = Explorer(fn, init=False, on_event=on_event, on_edge=on_edge, on_exit=on_exit, calls={ACQ},
                      track='auto', cap=600000).run()
        if ex.reports:
            r.from_reports(ex.reports, keyfn=lambda k, rep, fn=fn: '%s:io-path-held-at-exit' % fn.name)
        else:
            r.ok('%s:io-path-paired' % fn.name)
    if n < 2:
        raise AnalysisBroken('users of the I/O path not found (%d)' % n)


def c17_10(ck, prog):
    """Timed waits of threads queueing for the I/O path expire: the clock of the condition variable is the clock
    its deadlines are computed from."""
    PT = 'dbus/dbus-sysdeps-pthread.c'
    r = ck.rule('C17.10', 'a condition variable measures its timed waits on the clock the deadline was read from: '
                '_dbus_platform_condvar_new selects CLOCK_MONOTONIC (pthread_condattr_setclock) under exactly the '
                'conditions under which _dbus_platform_condvar_wait_timeout reads CLOCK_MONOTONIC (clock_gettime); '
                'in a build where neither is compiled in, both use the realtime clock', 'PAIR',
                breaks='a deadline taken from the realtime clock is compared with the monotonic clock (or the reverse): '
                'the wait of a second thread blocking on the same connection never times out, its call is completed '
                'late or never', floor=1)
    from engine.cfg import dominators, norm_cond, reach_from

    def guards(fn, callee, want_arg):
        out = []
        dom = dominators(fn)
        for b, i, c in fn.calls(callee):
            if not any(is_int(a) and a.get('name') == 'CLOCK_MONOTONIC' for a in c['args']) and want_arg:
                continue
            g = set()
            for d in dom.get(b, ()):
                blk = fn.blocks[d]
                t = blk.get('term')
                if d == b or not t or t.get('cond') is None or len(blk['succs']) != 2:
                    continue
                via = [k for k, s2 in enumerate(blk['succs']) if s2 is not None and s2 >= 0 and
                       b in reach_from(fn, [s2], stop={d})]
                if len(via) == 1 and any(is_ref(x) and x.get('kind') in ('global', 'slocal') for x in walk(t['cond'])):
                    # only what the two functions can share: conditions on file-level state (have_monotonic_clock)
                    a, sense = norm_cond(t['cond'])
                    g.add((estr(a[1]) if a and a[0] == 'truthy' else estr(t['cond']), sense == (via[0] == 0)))
            out.append(frozenset(g))
        return out
    new = prog.fn('_dbus_platform_condvar_new', PT)
    wait = prog.fn('_dbus_platform_condvar_wait_timeout', PT)
    if not list(new.calls('pthread_cond_init')) or not list(wait.calls('pthread_cond_timedwait')):
        raise AnalysisBroken('condition-variable constructor / timed wait no longer use pthread_cond_init / _timedwait')
    gs = guards(new, 'pthread_condattr_setclock', True)
    gw = guards(wait, 'clock_gettime', True)
    key = 'condvar:clock-agreement'
    if bool(gs) != bool(gw) or set(gs) != set(gw):
        def show(x):
            return 'never' if not x else ' / '.join(sorted(' && '.join(('' if v else '!') + n for n, v in sorted(g)) or 'always'
                                                            for g in x))
        r.violation(key, new.name, PT, new.line, 'the condition variable is put on CLOCK_MONOTONIC %s, the deadline of a '
                    'timed wait is read from CLOCK_MONOTONIC %s' % (show(gs), show(gw)))
    else:
        r.ok(key, {'monotonic': bool(gs)})


def c17_13(ck, prog):
    """The prepared timeout error is queued whenever there is one."""
    r = ck.rule('C17.13', 'the timeout error prepared for a pending call is queued whenever it still exists: '
                '_dbus_pending_call_queue_timeout_error_unlocked hands pending->timeout_link to the connection on every '
                'path on which that link is not NULL (no other condition stands in the way)', 'DOM',
                breaks='a call whose timer fires after its timeout was already taken out of the main loop gets no error '
                'queued: it stays in the reply table and completes zero times', floor=1)
    fn = prog.fn('_dbus_pending_call_queue_timeout_error_unlocked', PEND)
    q = {c['id'] for b, i, c in fn.calls('_dbus_connection_queue_synthesized_message_link')}
    if not q:
        raise AnalysisBroken('queue_timeout_error no longer queues the prepared link')

    def akey(atom, resolve):
        if atom[0] == 'truthy' and is_member(atom[1], 'timeout_link', 'DBusPendingCall'):
            return ('has-link',)
        if atom[0] == 'cmp' and atom[1] == '==' and is_member(atom[2], 'timeout_link', 'DBusPendingCall') and is_int(atom[3], 0):
            return ('no-link',)
        return None

    def on_event(user, ev, ctx):
        if ev['ev'] == 'call' and ev['e'].get('id') in q:
            return True
        return user

    def on_exit(user, ctx, ret, ev):
        has = ctx.atom(('has-link',)) is True or ctx.atom(('no-link',)) is False
        if has and not user:
            ctx.report('the function can return with pending->timeout_link still set and nothing queued', ev['line'] if ev else fn.line,
                       key='link-kept')
    ex = Explorer(fn, init=False, on_event=on_event, on_exit=on_exit, atom_key=akey, track=None).run()
    if ex.reports:
        r.from_reports(ex.reports, keyfn=lambda k, rep: 'queue_timeout_error:always-when-present')
    else:
        r.ok('queue_timeout_error:always-when-present')


def run(ck):
    ck.explanation = (
        'Static rules over dbus-connection.c and dbus-pending-call.c: (WHO) completion goes through one funnel '
        'that detaches the call from the reply table, timeout errors have three reviewed producers, cancel only '
        'detaches; (TS) lock typestate of every function with a naming contract (*_unlocked, *_and_unlock, '
        'public), including callee preconditions and HAVE_LOCK_CHECK beliefs; (ABS) the serial counter starts at '
        '1, only increments, skips 0; (DOM) replies are matched to pending calls before any filter or handler.')
    ck.not_decided = ('interleavings of reply arrival, timeout, cancellation and blocking waits across threads '
                      '(schedules); lock state of unsuffixed static helpers')
    for v, prog in ck.programs(thorough_variants=('B',)):
        c17_1(ck, prog)
        c17_1b(ck, prog)
        c17_1c(ck, prog)
        c17_5(ck, prog)
        c17_6(ck, prog)
        c17_7(ck, prog)
        c17_8(ck, prog)
        c17_10(ck, prog)
        c17_13(ck, prog)
        r = ck.rule('C17.11', 'the reply table is keyed consistently: the int-key (and uintptr-key) front ends of the hash '
                    'table convert their key with the same written casts (lookup, insert, remove ... agree)', 'TAB',
                    breaks='pending calls are stored by serial: once the serial has its top bit set (2^31 messages, or '
                    'dbus_message_set_serial) the entry is inserted and found but never removed, so a cancelled call '
                    'is still notified and a duplicated reply completes a call twice', floor=6)
        lib.hash_key_conversions_agree(prog, r)
        r = ck.rule('C17.12', 'timeouts (and watches) are taken away from the main loop they were given to: when the '
                    'timeout / watch functions of a connection are replaced, the previously registered remove function '
                    'is called with the previously registered data and the new functions with the new data', 'PAIR',
                    breaks='moving a connection to another main loop while calls are outstanding removes their timeouts '
                    'from the new loop instead of the old one: the calls never time out and are never completed',
                    floor=6)
        lib.callbacks_paired_with_their_data(prog, r, [('_dbus_timeout_list_set_functions', 'dbus/dbus-timeout.c'),
                                                       ('_dbus_watch_list_set_functions', 'dbus/dbus-watch.c')])
        from rules.C02 import c02_5
        lib.shared_rule(ck, prog, 'C17.9', 'the serial a reply is paired by is written into (and read from) the header in '
                        'the message\'s own byte order, like every other marshalling call on a message\'s bytes (shared '
                        'with C02.5)', 'TAB', 'a forwarded copy of a message received in the other byte order leaves with '
                        'a byte-swapped serial while the pending call is keyed by the real one: reply and timeout both go '
                        'unpaired and the call completes zero times', 12, c02_5)
        c17_2(ck, prog)
        c17_3(ck, prog)
        c17_4(ck, prog)
