"""C06 - security policy decisions equal the documented rule semantics.
DESIGN.md C06.1 - C06.6 (structural clauses)."""
import itertools

from engine.cfg import (same_expr, Explorer, estr, is_call, is_int, is_member, is_ref, strip_addr, walk,
                        written_lvalues, event_expr, back_edges)
from engine.facts import AnalysisBroken
from engine import lib

GATE = 'bus_context_check_security_policy'
EVALS = {
    'send': ('bus_client_policy_check_can_send', 'bus/policy.c'),
    'receive': ('bus_client_policy_check_can_receive', 'bus/policy.c'),
    'own': ('bus_rules_check_can_own', 'bus/policy.c'),
}


def pol_field(e):
    """rule->d.<kind>.<field>  ->  (kind, field)"""
    if e is not None and e.get('k') == 'member':
        b = e.get('base')
        if b is not None and b.get('k') == 'member' and b['field'] in ('send', 'receive', 'own'):
            bb = b.get('base')
            if bb is not None and bb.get('k') == 'member' and bb['field'] == 'd':
                return (b['field'], e['field'])
    return None


def c06_1(ck, prog):
    r = ck.rule('C06.1', 'each evaluator is a "last matching rule wins, default deny" scan: result starts '
                'FALSE, is only ever set to rule->allow, the list is walked first->next to exhaustion, '
                'and the result is returned', 'TS',
                breaks='first-match or default-allow semantics; a deny that cannot override an earlier allow',
                floor=3)
    for kind, (name, file) in EVALS.items():
        fn = prog.fn(name, file)
        probs = []
        # writes to the result variable
        resvar = None
        rets = [ev for b, i, ev in fn.events() if ev['ev'] == 'return']
        if len(rets) != 1 or not is_ref(rets[0]['e']):
            probs.append(('returns', 'expected exactly one `return <result variable>`, found %d returns (%s)' % (
                len(rets), ', '.join(estr(x['e']) for x in rets))))
        else:
            resvar = rets[0]['e']
        if resvar is not None:
            ws = []
            for b, i, ev in fn.events():
                for lhs, how, rhs in written_lvalues(ev):
                    if is_ref(lhs) and lhs.get('id') == resvar.get('id'):
                        ws.append((b, ev['line'], how, rhs))
            inits = [w for w in ws if is_int(w[3], 0)]
            sets = [w for w in ws if is_member(w[3], 'allow', 'BusPolicyRule')]
            other = [w for w in ws if w not in inits and w not in sets and w[3] is not None]
            if not inits:
                probs.append(('init', 'the result is not initialised to FALSE'))
            if len(sets) != 1:
                probs.append(('set', 'expected exactly one `result = rule->allow`, found %d' % len(sets)))
            for w in other:
                probs.append(('write', 'the result is also written at line %d: %s %s' % (w[1], w[2], estr(w[3]))))
            # path-sensitive: value at return is FALSE-initialised or rule->allow; the init precedes the loop
            state = {}

            def on_event(user, ev, ctx):
                for lhs, how, rhs in written_lvalues(ev):
                    if is_ref(lhs) and lhs.get('id') == resvar.get('id'):
                        if is_int(rhs, 0):
                            return 'false'
                        if is_member(rhs, 'allow', 'BusPolicyRule'):
                            return 'allow' if user in ('false', 'allow') else 'allow-uninit'
                        if rhs is None:
                            return user
                        return 'other'
                return user

            def on_exit(user, ctx, ret, ev):
                if user not in ('false', 'allow'):
                    ctx.report('result reaches the return in state %s' % user, ev['line'], key=('ret', user))
            ex = Explorer(fn, init='uninit', on_event=on_event, on_exit=on_exit, track=None).run()
            for k, rep in ex.reports.items():
                probs.append(k[0:1] + (rep['reason'],))
        # traversal direction and loop exits
        firsts, nexts, backs = walk_direction(fn)
        if firsts != 1 or not nexts or backs:
            probs.append(('direction', 'rules are not walked first -> next (first=%d next=%d last/prev=%d)' % (
                firsts, nexts, backs)))
        # the return block is entered only from the loop condition (no break / goto out of the loop)
        if rets:
            rb = [b for b, i, ev in fn.events() if ev['ev'] == 'return'][0]
            preds = fn.preds()[rb]
            heads = {dst for (src, dst) in back_edges(fn)}
            # follow empty fall-through blocks backwards
            ok = True
            for p in preds:
                blk = fn.blocks[p]
                t = blk.get('term') or {}
                if not (t.get('kind') == 'WhileStmt' or p in heads):
                    ok = False
            if not ok or not preds:
                probs.append(('exit', 'the return is reachable from inside the loop body (break/goto), so a '
                              'matching rule can end the scan early'))
        key = '%s:scan-shape' % name
        if probs:
            for k, msg in probs:
                r.violation('%s!%s' % (key, k if isinstance(k, str) else k[0]), fn.name, fn.file, fn.line, msg)
        else:
            r.ok(key, {'result': resvar['name']})
    # can_own delegates
    co = prog.fn('bus_client_policy_check_can_own', 'bus/policy.c')
    okd = any(is_member(c['args'][0], 'rules', 'BusClientPolicy') and lib.arg_is_param(c, 1, 'service_name')
              for b, i, c in co.calls('bus_rules_check_can_own'))
    if okd:
        r.ok('bus_client_policy_check_can_own:delegates')
    else:
        r.violation('bus_client_policy_check_can_own:delegates', co.name, co.file, co.line,
                    'does not evaluate the client\'s own rule list for the requested name')


def walk_direction(fn):
    """(#get_first_link, #next steps, #last/prev steps); _dbus_list_get_next_link /
    _prev_link are macros over DBusList.next / .prev."""
    firsts = len(fn.calls('_dbus_list_get_first_link'))
    nexts = len(fn.calls('_dbus_list_get_next_link'))
    backs = len(fn.calls(('_dbus_list_get_last_link', '_dbus_list_get_prev_link')))
    for b, i, ev in fn.events():
        for x in walk(event_expr(ev)):
            if is_member(x, 'next', 'DBusList'):
                nexts += 1
            if is_member(x, 'prev', 'DBusList'):
                backs += 1
    return firsts, nexts, backs


CONTEXT_RANK = {'default_rules': 0, 'rules_by_gid': 1, 'rules_by_uid': 2, 'at_console_true_rules': 3,
                'at_console_false_rules': 3, 'mandatory_rules': 4}


def c06_2(ck, prog):
    r = ck.rule('C06.2', 'a client policy is assembled in context order default -> group -> user -> console '
                '-> mandatory, then optimised', 'TS',
                breaks='a mandatory deny can be overridden by a later user rule (or default rules override '
                       'user rules)', floor=1)
    fn = prog.fn('bus_policy_create_client_policy', 'bus/policy.c')
    id2call = {c['id']: c for b, i, c in fn.calls()}
    nsites = set()

    def src_of(a, ctx):
        inner = strip_addr(a)
        if inner is not None and is_member(inner, None, 'BusPolicy'):
            return inner['field']
        o = ctx.origin_call(a)
        if o:
            c = id2call.get(o[0])
            if c is not None and c.get('callee') == '_dbus_hash_table_lookup_uintptr' \
                    and is_member(c['args'][0], None, 'BusPolicy'):
                return c['args'][0]['field']
        return None

    def on_event(user, ev, ctx):
        rank, seen, opt = user
        if ev['ev'] == 'call':
            c = ev['e']
            if c.get('callee') == '_dbus_hash_table_lookup_uintptr' and is_member(c['args'][0], None, 'BusPolicy'):
                tbl = c['args'][0]['field']
                for k, v in ctx.atoms().items():
                    if k[0] == 'entries-le0' and k[1] != tbl and v is False and \
                            not any(k2[0] == 'entries-le0' and k2[1] == tbl for k2 in ctx.atoms()):
                        ctx.report('%s is consulted only under a guard on %s: the %s context is skipped '
                                   'whenever the other table is empty' % (tbl, k[1], tbl), c['line'],
                                   key=('guard', tbl))
            if c.get('callee') == 'add_list_to_client':
                s = src_of(c['args'][0], ctx)
                nsites.add(c['line'])
                if s not in CONTEXT_RANK:
                    ctx.report('rules added from an unrecognised source %s' % estr(c['args'][0]), c['line'],
                               key=('src', c['line']))
                else:
                    k = CONTEXT_RANK[s]
                    if k < rank:
                        ctx.report('%s rules are added after a later context (order must be default, group, '
                                   'user, console, mandatory)' % s, c['line'], key=('order', s))
                    if opt:
                        ctx.report('%s rules are added after bus_client_policy_optimize' % s, c['line'],
                                   key=('afteropt', s))
                    rank = max(rank, k)
                    seen = seen | {s}
            if c.get('callee') == 'bus_client_policy_optimize':
                opt = True
        return (rank, seen, opt)

    def on_exit(user, ctx, ret, ev):
        rank, seen, opt = user
        if ret is not None and is_ref(ret, 'client'):
            for s in ('default_rules', 'mandatory_rules'):
                if s not in seen:
                    ctx.report('a client policy is returned without the %s' % s, ev['line'], key=('missing', s))
            if not opt:
                ctx.report('a client policy is returned without bus_client_policy_optimize', ev['line'],
                           key=('noopt',))
    def akey(atom, resolve):
        # _dbus_hash_table_get_n_entries (policy->T) > 0   ==   not (n <= 0)
        if atom[0] == 'cmp' and atom[1] == '<=' and is_int(atom[3], 0):
            c = resolve(atom[2])
            if c is not None and c.get('callee') == '_dbus_hash_table_get_n_entries' \
                    and is_member(c['args'][0], None, 'BusPolicy'):
                return ('entries-le0', c['args'][0]['field'])
        return None

    class Ex(Explorer):
        pass
    # normalise: atom (n <= 0) False  <=>  entries > 0
    def akey_wrap(atom, resolve):
        k = akey(atom, resolve)
        return k
    ex = Explorer(fn, init=(0, frozenset(), False), on_event=on_event, on_exit=on_exit,
                  track='auto', calls={'_dbus_hash_table_lookup_uintptr', '_dbus_hash_table_get_n_entries'},
                  atom_key=akey_wrap).run()
    if len(nsites) < 5:
        raise AnalysisBroken('only %d add_list_to_client sites in bus_policy_create_client_policy' % len(nsites))
    if ex.reports:
        r.from_reports(ex.reports, keyfn=lambda k, rep: 'create_client_policy:%s' % '/'.join(map(str, k)))
    else:
        r.ok('create_client_policy:context-order', {'sites': len(nsites), 'states': ex.nstates})
    # add_list_to_client keeps list order (first -> next, append)
    al = prog.fn('add_list_to_client', 'bus/policy.c')
    ap = prog.fn('bus_client_policy_append_rule', 'bus/policy.c')
    f1, n1, b1 = walk_direction(al)
    okl = f1 == 1 and n1 and not b1
    oka = any(is_member(strip_addr(c['args'][0]) or {}, 'rules', 'BusClientPolicy')
              for b, i, c in ap.calls('_dbus_list_append')) and not ap.calls(('_dbus_list_prepend',))
    if okl and oka:
        r.ok('add_list_to_client:order-preserving')
    else:
        r.violation('add_list_to_client:order-preserving', al.name, al.file, al.line,
                    'rule lists are no longer copied in file order (first->next, append)')


def fields_used(fn, kind):
    out = {}
    for b, i, ev in fn.events():
        for x in walk(event_expr(ev)):
            pf = pol_field(x)
            if pf and pf[0] == kind:
                out.setdefault(pf[1], ev['line'])
    for bid, blk in fn.blocks.items():
        t = blk.get('term')
        if t and t.get('cond') is not None:
            for x in walk(t['cond']):
                pf = pol_field(x)
                if pf and pf[0] == kind:
                    out.setdefault(pf[1], t['line'])
    return out


def c06_3(ck, prog):
    r = ck.rule('C06.3', 'every rule attribute is written by the config parser, read by its evaluator, and '
                '(when it can make the evaluator skip the rule) tested by the optimiser\'s catch-all '
                'predicate', 'TAB',
                breaks='an attribute is parsed but ignored, or pruning of "shadowed" rules changes decisions',
                floor=25)
    rec = prog.record('BusPolicyRule')
    kinds = {}
    for f in rec['fields']:
        if f['name'] == 'd' and 'anon' in f:
            for sub in f['anon']['fields']:
                if sub['name'] in ('send', 'receive', 'own') and 'anon' in sub:
                    kinds[sub['name']] = [x['name'] for x in sub['anon']['fields']]
    if set(kinds) != {'send', 'receive', 'own'}:
        raise AnalysisBroken('BusPolicyRule.d.{send,receive,own} not found')
    parser = prog.fn('append_rule_from_element', 'bus/config-parser.c')
    written = {}
    for b, i, ev in parser.events():
        for lhs, how, rhs in written_lvalues(ev):
            pf = pol_field(lhs)
            if pf:
                written.setdefault(pf, ev['line'])
    opt = prog.fn('bus_client_policy_optimize', 'bus/policy.c')
    # fields whose value is irrelevant once another field is unset (reason given)
    DEPENDENT = {
        ('send', 'destination_is_prefix'): 'only read when destination != NULL, which the predicate tests',
        ('own', 'prefix'): 'with service_name == NULL the rule matches every name whichever way prefix is set '
                           '(starts_with_words of NULL is never evaluated: parser sets prefix only with a name)',
        ('send', 'log'): 'does not influence whether the rule is skipped',
    }
    for kind, flds in kinds.items():
        ev_fn = prog.fn(*EVALS[kind])
        used = fields_used(ev_fn, kind)
        optused = fields_used(opt, kind)
        for f in flds:
            key = '%s.%s' % (kind, f)
            if (kind, f) in written:
                r.ok(key + ':parsed')
            else:
                r.violation(key + ':parsed', parser.name, parser.file, parser.line,
                            'rule attribute %s.%s is never set by the configuration parser' % (kind, f))
            if f in used:
                r.ok(key + ':evaluated')
            else:
                r.violation(key + ':evaluated', ev_fn.name, ev_fn.file, ev_fn.line,
                            'rule attribute %s.%s is never consulted by %s' % (kind, f, ev_fn.name))
            if (kind, f) in DEPENDENT:
                continue
            if f in optused:
                r.ok(key + ':optimiser')
            else:
                r.violation(key + ':optimiser', opt.name, opt.file, opt.line,
                            '%s can skip a rule because of %s.%s, but bus_client_policy_optimize treats a rule '
                            'as catch-all without looking at it: earlier rules are pruned although the later '
                            'rule does not shadow them for every message' % (ev_fn.name, kind, f))
    # shared attributes are consulted by both message evaluators
    su = fields_used(prog.fn(*EVALS['send']), 'send')
    ru = fields_used(prog.fn(*EVALS['receive']), 'receive')
    for f in ('message_type', 'path', 'interface', 'member', 'error', 'requested_reply', 'eavesdrop',
              'min_fds', 'max_fds'):
        if f in su and f in ru:
            r.ok('sibling:%s' % f)
        elif f in kinds['send'] and f in kinds['receive']:
            r.violation('sibling:%s' % f, EVALS['send'][0], 'bus/policy.c', None,
                        'attribute %s is consulted by only one of check_can_send / check_can_receive' % f)


def c06_4(ck, prog):
    r = ck.rule('C06.4', 'the central gate is not bypassed and consults the sender\'s send rules and the '
                'recipient\'s receive rules with the same reply verdict', 'DOM',
                breaks='a message is delivered without policy, or checked against the wrong party\'s rules',
                floor=4)
    g = prog.fn(GATE, 'bus/bus.c')
    P = {p['name']: p['id'] for p in g.params}
    id2call = {c['id']: c for b, i, c in g.calls()}
    send_ids = [c['id'] for b, i, c in g.calls('bus_client_policy_check_can_send')]
    recv_ids = [c['id'] for b, i, c in g.calls('bus_client_policy_check_can_receive')]
    if not send_ids or not recv_ids:
        raise AnalysisBroken('gate no longer consults both policy evaluators')

    def polvar(ctx, name):
        for k, v in ctx.env.items():
            if k[0] == 'v' and ctx.ex.tracked.get(k[1]) == name:
                return v
        return None

    def on_event(user, ev, ctx):
        if ev['ev'] == 'call':
            c = ev['e']
            if c.get('callee') == 'bus_client_policy_check_can_send':
                pv = polvar(ctx, 'sender_policy')
                oc = id2call.get(pv[1]) if pv and pv[0] == 'call' else None
                if not (oc is not None and oc.get('callee') == 'bus_connection_get_policy'
                        and lib.arg_is_param(oc, 0, 'sender')) or not is_ref(c['args'][0], 'sender_policy'):
                    ctx.report('send rules are taken from %s, not from the sender\'s policy' % (
                        estr(oc) if oc else estr(c['args'][0])), c['line'], key='send-policy')
                if not (lib.arg_is_param(c, 3, 'proposed_recipient') and lib.arg_is_param(c, 4, 'message')):
                    ctx.report('check_can_send is given (%s, %s)' % (estr(c['args'][3]), estr(c['args'][4])),
                               c['line'], key='send-args')
            if c.get('callee') == 'bus_client_policy_check_can_receive':
                pv = polvar(ctx, 'recipient_policy')
                oc = id2call.get(pv[1]) if pv and pv[0] == 'call' else None
                if not (oc is not None and oc.get('callee') == 'bus_connection_get_policy'
                        and lib.arg_is_param(oc, 0, 'proposed_recipient')) \
                        or not is_ref(c['args'][0], 'recipient_policy'):
                    ctx.report('receive rules are taken from %s, not from the proposed recipient\'s policy' % (
                        estr(oc) if oc else estr(c['args'][0])), c['line'], key='recv-policy')
                a = c['args']
                if not (lib.arg_is_param(c, 3, 'sender') and lib.arg_is_param(c, 4, 'addressed_recipient')
                        and lib.arg_is_param(c, 5, 'proposed_recipient') and lib.arg_is_param(c, 6, 'message')):
                    ctx.report('check_can_receive is given (%s, %s, %s, %s)' % tuple(estr(x) for x in a[3:7]),
                               c['line'], key='recv-args')
        return user

    def on_exit(user, ctx, ret, ev):
        v = ctx.const_of(ret) if ret is not None else None
        if v is None or v != 0:
            # allowed.  active sender => send check passed ; recipient with policy => receive check passed
            for ids, pol, what in ((send_ids, 'sender_policy', 'check_can_send'),
                                   (recv_ids, 'recipient_policy', 'check_can_receive')):
                pv = polvar(ctx, pol)
                passed = any(ctx.result_known(i) is True for i in ids)
                nopol = pv is not None and ((pv[0] == 'c' and pv[1] == 0)
                                            or (pv[0] == 'call' and ctx.result_known(pv[1]) is False))
                unassigned = pv is None or pv[0] == 'undef'
                if not (passed or nopol):
                    if unassigned and what == 'check_can_send' and \
                            ctx.truth_of({'k': 'ref', 'name': 'sender', 'kind': 'param', 'id': P['sender']}) is not False:
                        # Hello from an inactive sender returns before the policies are looked up
                        hello = any(c.get('callee') == 'dbus_message_is_method_call'
                                    and ctx.result_known(c['id']) is True for c in id2call.values())
                        if hello:
                            continue
                    if unassigned and what == 'check_can_receive':
                        hello = any(c.get('callee') == 'dbus_message_is_method_call'
                                    and ctx.result_known(c['id']) is True for c in id2call.values())
                        if hello:
                            continue
                    ctx.report('the gate allows a message although %s has not passed (and %s is not NULL)' % (
                        what, pol), ev['line'], key=('allow-without', what))
    ex = Explorer(g, on_event=on_event, on_exit=on_exit, track='auto', cap=300000,
                  calls={'bus_client_policy_check_can_send', 'bus_client_policy_check_can_receive',
                         'bus_connection_get_policy', 'dbus_message_is_method_call',
                         'bus_connection_is_active'}, pure={'bus_connection_is_active'}).run()
    if ex.reports:
        r.from_reports(ex.reports, keyfn=lambda k, rep: 'gate:%s' % (k if isinstance(k, str) else '/'.join(k)))
    else:
        r.ok('gate:both-policies-consulted', {'states': ex.nstates})
    # every staging of a client-visible message is behind the gate (or is the monitor copy)
    from rules.C05 import c05_2
    for (fname, file, destidx) in (('bus_dispatch_matches', 'bus/dispatch.c', 'addressed_recipient'),
                                   ('send_one_message', 'bus/dispatch.c', 'connection'),
                                   ('bus_transaction_send_from_driver', 'bus/connection.c', 'connection')):
        f = prog.fn(fname, file)
        label = destidx
        if fname == 'send_one_message':
            destidx = lib.recipient_param(f)

        def sinks(ev, ctx, destidx=destidx):
            if ev['ev'] == 'call' and ev['e'].get('callee') == 'bus_transaction_send':
                return 'bus_transaction_send'
            return None
        gate = lib.Guard('policy gate(proposed=%s)' % label,
                         (lambda destidx: lambda c, ctx: c.get('callee') == GATE
                          and is_ref(c['args'][4], destidx) and lib.arg_is_param(c, 5, 'message'))(destidx))
        lib.must_precede(f, r, sinks, [gate])
    lib.who_calls(prog, r, 'bus_transaction_send',
                  {'send_one_message', 'bus_dispatch_matches', 'bus_transaction_capture',
                   'bus_transaction_send_from_driver'})
    # activation: the gate is consulted before anything is spawned for an auto-started message
    act = prog.fn('bus_activation_activate_service', 'bus/activation.c')

    def spawn(ev, ctx):
        if ev['ev'] == 'call' and ev['e'].get('callee') in ('_dbus_spawn_async_with_babysitter',):
            return ev['e']['callee']
        return None
    gids = [c['id'] for b, i, c in act.calls(GATE)]
    if not gids:
        r.violation('activate_service:gate', act.name, act.file, act.line,
                    'activation no longer asks the policy gate before starting a service')
    else:
        aa = act.param('auto_activation')

        def on_event2(user, ev, ctx):
            if spawn(ev, ctx):
                t = ctx.truth_of({'k': 'ref', 'name': 'auto_activation', 'kind': 'param', 'id': aa['id']})
                noentry = any(k[0] == 'v' and ctx.ex.tracked.get(k[1]) == 'entry' and v == ('c', 0)
                              for k, v in ctx.env.items())
                if t is not False and not noentry and not any(ctx.result_known(i) is True for i in gids):
                    ctx.report('a service is spawned for an auto-start message without the policy gate having '
                               'allowed it', ev['line'], key='spawn-ungated')
            return user
        ex2 = Explorer(act, on_event=on_event2, calls={GATE}, track='auto', cap=300000).run()
        if ex2.reports:
            r.from_reports(ex2.reports, keyfn=lambda k, rep: 'activate_service:%s' % k)
        else:
            r.ok('activate_service:gate-before-spawn')


def c06_5(ck, prog):
    r = ck.rule('C06.5', 'RequestName consults SELinux, AppArmor and the own-rules before any registry change',
                'DOM', breaks='a denied RequestName changes ownership', floor=3)
    acq = prog.fn('bus_registry_acquire_service', 'bus/services.c')

    def sinks(ev, ctx):
        if ev['ev'] == 'call' and ev['e'].get('callee') in (
                'bus_registry_ensure', 'bus_service_add_owner', 'bus_service_swap_owner',
                'bus_service_remove_owner', 'bus_owner_set_flags', '_dbus_list_unlink'):
            return ev['e']['callee']
        return None
    guards = [
        lib.Guard('bus_client_policy_check_can_own(policy(connection), service_name)',
                  lambda c, ctx: c.get('callee') == 'bus_client_policy_check_can_own'
                  and lib.arg_is_param(c, 1, 'service_name')),
        lib.Guard('bus_selinux_allows_acquire_service', lambda c, ctx: c.get('callee') ==
                  'bus_selinux_allows_acquire_service' and lib.arg_is_param(c, 0, 'connection')),
        lib.Guard('bus_apparmor_allows_acquire_service', lambda c, ctx: c.get('callee') ==
                  'bus_apparmor_allows_acquire_service' and lib.arg_is_param(c, 0, 'connection')),
    ]
    lib.must_precede(acq, r, sinks, guards)
    # policy comes from the requesting connection
    okp = False
    for b, i, ev in acq.events():
        for lhs, how, rhs in written_lvalues(ev):
            if is_ref(lhs, 'policy') and is_call(rhs, 'bus_connection_get_policy') and lib.arg_is_param(rhs, 0, 'connection'):
                okp = True
    if okp:
        r.ok('acquire:policy-of-requester')
    else:
        r.violation('acquire:policy-of-requester', acq.name, acq.file, acq.line,
                    'own-rules are not taken from the requesting connection\'s policy')


# --- C06.6: sibling cross-check of the reply / eavesdrop skip logic -------------

def eval_cond(c, val):
    """Evaluate a condition tree under val(expr) -> int|None for leaves."""
    k = c.get('k')
    v = val(c)
    if v is not None:
        return v
    if k == 'int':
        return c['v']
    if k == 'un' and c['op'] == '!':
        x = eval_cond(c['e'], val)
        return None if x is None else int(not x)
    if k == 'bin' and c['op'] in ('&&', '||'):
        a = eval_cond(c['l'], val)
        if a is None:
            return None
        if c['op'] == '&&' and not a:
            return 0
        if c['op'] == '||' and a:
            return 1
        b = eval_cond(c['r'], val)
        return None if b is None else int(bool(b))
    if k == 'bin' and c['op'] in ('==', '!=', '<', '>', '<=', '>='):
        a, b = eval_cond(c['l'], val), eval_cond(c['r'], val)
        if a is None or b is None:
            return None
        return int({'==': a == b, '!=': a != b, '<': a < b, '>': a > b, '<=': a <= b, '>=': a >= b}[c['op']])
    if k == 'cond':
        t = eval_cond(c['c'], val)
        if t is None:
            return None
        return eval_cond(c['a'] if t else c['b'], val)
    if k == 'call' and c.get('callee') == '__builtin_expect':
        return eval_cond(c['args'][0], val)
    return None


def reply_block_table(fn, kind):
    t6 = qualifier_table(fn, kind, from_reply=True)
    return {(a[0], a[1], a[3], a[4], a[5]): v for a, v in t6.items() if a[2] == 0}


def qualifier_table(fn, kind, from_reply=False):
    """Decision (skip / continue-evaluating) of the qualifier region of an
    evaluator - the eavesdrop tests (receive only) and the reply-serial block - as a
    function of (is_reply, requested_reply, eavesdropping, allow, r.requested_reply, r.eavesdrop)."""
    start = None
    cands = []
    for bid, blk in fn.blocks.items():
        t = blk.get('term')
        if t and t.get('cond') is not None:
            if any(is_call(x, 'dbus_message_get_reply_serial') for x in walk(t['cond'])):
                cands.append((t['line'], bid, 'reply'))
            if not from_reply and any(is_ref(x, 'eavesdropping') for x in walk(t['cond'])):
                cands.append((t['line'], bid, 'eaves'))
    if not any(c[2] == 'reply' for c in cands):
        raise AnalysisBroken('%s: reply-serial test not found' % fn.name)
    start = min(cands)[1]
    heads = {dst for (src, dst) in back_edges(fn)}
    table = {}
    for is_reply, req, eav, allow, rreq, reav in itertools.product((0, 1), repeat=6):
        def val(e):
            if is_ref(e, 'eavesdropping'):
                return eav
            if is_call(e, 'dbus_message_get_reply_serial'):
                return 7 if is_reply else 0
            if is_ref(e, 'requested_reply') and e.get('kind') == 'param':
                return req
            if is_member(e, 'allow', 'BusPolicyRule'):
                return allow
            pf = pol_field(e)
            if pf == (kind, 'requested_reply'):
                return rreq
            if pf == (kind, 'eavesdrop'):
                return reav
            return None
        b = start
        steps = 0
        verdict = None
        while steps < 60:
            steps += 1
            blk = fn.blocks[b]
            t = blk.get('term')
            if b in heads and b != start:
                verdict = 'skip'
                break
            if t and t.get('cond') is not None and len(blk['succs']) == 2:
                if any(pol_field(x) == (kind, 'path') for x in walk(t['cond'])):
                    verdict = 'apply'
                    break
                v = eval_cond(t['cond'], val)
                if v is None:
                    raise AnalysisBroken('%s: cannot evaluate %s in the reply block' % (fn.name, estr(t['cond'])))
                b = blk['succs'][0] if v else blk['succs'][1]
            elif len(blk['succs']) == 1:
                b = blk['succs'][0]
            else:
                raise AnalysisBroken('%s: unexpected block shape in the reply block' % fn.name)
        if verdict is None:
            raise AnalysisBroken('%s: reply block walk did not terminate' % fn.name)
        table[(is_reply, req, eav, allow, rreq, reav)] = verdict
    return table


def c06_3b(ck, prog):
    r = ck.rule('C06.3b', 'the optimiser treats a rule as shadowing earlier ones exactly when the evaluator '
                'can never skip it: qualifier bits enumerated (2^3 per rule kind) against the evaluator\'s own '
                'skip logic, and each remaining skip attribute individually', 'DEC',
                breaks='pruning of "shadowed" rules changes policy decisions', floor=20)
    opt = prog.fn('bus_client_policy_optimize', 'bus/policy.c')
    for kind in ('send', 'receive'):
        ev_fn = prog.fn(*EVALS[kind])
        qt = qualifier_table(ev_fn, kind)
        # the predicate expression assigned to remove_preceding for this kind
        pred = None
        for b, i, ev in opt.events():
            if ev['ev'] == 'assign' and is_ref(ev['e']['l'], 'remove_preceding') and \
                    any((pol_field(x) or (None,))[0] == kind for x in walk(ev['e']['r'])):
                pred = ev['e']['r']
                line = ev['line']
        if pred is None:
            raise AnalysisBroken('optimiser predicate for %s rules not found' % kind)
        maxfds = None
        for f in (ev_fn, opt):
            for b, i, ev in f.events():
                for x in walk(event_expr(ev)):
                    if is_int(x) and x.get('name') == 'DBUS_MAXIMUM_MESSAGE_UNIX_FDS':
                        maxfds = x['v']
            for blk in f.blocks.values():
                t = blk.get('term')
                if t and t.get('cond') is not None:
                    for x in walk(t['cond']):
                        if is_int(x) and x.get('name') == 'DBUS_MAXIMUM_MESSAGE_UNIX_FDS':
                            maxfds = x['v']
        if maxfds is None:
            raise AnalysisBroken('DBUS_MAXIMUM_MESSAGE_UNIX_FDS not found in policy.c')
        base = {'message_type': 0, 'path': 0, 'interface': 0, 'member': 0, 'error': 0, 'destination': 0,
                'origin': 0, 'broadcast': 0, 'min_fds': 0, 'max_fds': maxfds, 'destination_is_prefix': 0,
                'log': 0}

        def predicate(fields, allow):
            def val(e):
                if is_member(e, 'allow', 'BusPolicyRule'):
                    return allow
                pf = pol_field(e)
                if pf and pf[0] == kind:
                    return fields.get(pf[1])
                return None
            v = eval_cond(pred, val)
            if v is None:
                raise AnalysisBroken('cannot evaluate the optimiser predicate for %s rules' % kind)
            return bool(v)
        for allow, rreq, reav in itertools.product((0, 1), repeat=3):
            never_skipped = all(qt[(ir, rq, ea, allow, rreq, reav)] == 'apply'
                                for ir in (0, 1) for rq in (0, 1) for ea in ((0, 1) if kind == 'receive' else (0,)))
            f = dict(base, requested_reply=rreq, eavesdrop=reav)
            got = predicate(f, allow)
            key = '%s:allow=%d,requested_reply=%d,eavesdrop=%d' % (kind, allow, rreq, reav)
            if got and not never_skipped:
                r.violation(key, opt.name, opt.file, line,
                            'a %s %s rule with requested_reply=%d eavesdrop=%d and no other attribute is treated '
                            'as shadowing all earlier %s rules, but %s skips it for some messages'
                            % ('allow' if allow else 'deny', kind, rreq, reav, kind, ev_fn.name))
            else:
                r.ok(key, {'catch_all': got, 'never_skipped': never_skipped})
        # every other attribute that can cause a skip must defeat the predicate
        others = {'message_type': 1, 'path': 1, 'interface': 1, 'member': 1, 'error': 1,
                  'min_fds': 1, 'max_fds': 0}
        if kind == 'send':
            others.update({'destination': 1, 'broadcast': 1})
        else:
            others['origin'] = 1
        for fld, v in others.items():
            for allow in (0, 1):
                f = dict(base, requested_reply=0 if allow else 1, eavesdrop=1 if allow else 0)
                if kind == 'send' and not allow:
                    f['eavesdrop'] = 0
                f[fld] = v
                key = '%s:%s-set,allow=%d' % (kind, fld, allow)
                if predicate(f, allow):
                    r.violation(key, opt.name, opt.file, line,
                                'a %s rule that sets %s is still treated as shadowing every earlier %s rule'
                                % (kind, fld, kind))
                else:
                    r.ok(key)
    # own rules: catch-all iff no service name
    # (prefix is only meaningful with a name; parser never sets prefix without one)


ATTR_GETTERS = {'path': 'dbus_message_get_path', 'interface': 'dbus_message_get_interface',
                'member': 'dbus_message_get_member', 'error': 'dbus_message_get_error_name'}


def attr_skip_table(fn, kind, attr):
    """skip/apply decision of one string attribute test as a function of
    (rule attr set, message has the field, values equal, rule.allow)."""
    start = None
    for bid, blk in fn.blocks.items():
        t = blk.get('term')
        if t and t.get('cond') is not None and len(blk['succs']) == 2:
            c = t['cond']
            if c.get('k') == 'bin' and c['op'] in ('!=', '==') and pol_field(c['l']) == (kind, attr) and is_int(c['r'], 0):
                start = bid
    if start is None:
        raise AnalysisBroken('%s: test of %s.%s not found' % (fn.name, kind, attr))
    heads = {dst for (src, dst) in back_edges(fn)}
    getter = ATTR_GETTERS[attr]
    table = {}
    for rset, has, equal, allow in itertools.product((0, 1), repeat=4):
        env = {}

        def val(e):
            if pol_field(e) == (kind, attr):
                return 1 if rset else 0
            if is_call(e, getter):
                return 1 if has else 0
            if is_call(e, 'strcmp'):
                return 0 if equal else 1
            if is_member(e, 'allow', 'BusPolicyRule'):
                return allow
            if is_ref(e) and e.get('id') in env:
                return env[e['id']]
            return None
        b = start
        verdict = None
        for _ in range(60):
            blk = fn.blocks[b]
            for ev in blk['events']:
                for lhs, how, rhs in written_lvalues(ev):
                    if is_ref(lhs) and lhs.get('kind') == 'local' and how in ('=', 'decl') and rhs is not None:
                        v = eval_cond(rhs, val)
                        if v is not None:
                            env[lhs['id']] = v
            t = blk.get('term')
            if b in heads:
                verdict = 'skip'
                break
            if t and t.get('cond') is not None and len(blk['succs']) == 2:
                others = {pol_field(x) for x in walk(t['cond'])} - {None, (kind, attr)}
                if others and b != start:
                    verdict = 'apply'
                    break
                v = eval_cond(t['cond'], val)
                if v is None:
                    raise AnalysisBroken('%s: cannot evaluate %s in the %s test' % (fn.name, estr(t['cond']), attr))
                b = blk['succs'][0] if v else blk['succs'][1]
            elif len(blk['succs']) == 1:
                b = blk['succs'][0]
            else:
                raise AnalysisBroken('%s: unexpected block shape in the %s test' % (fn.name, attr))
        if verdict is None:
            raise AnalysisBroken('%s: %s test walk did not terminate' % (fn.name, attr))
        table[(rset, has, equal, allow)] = verdict
    return table


def spec_attr(attr, rset, has, equal, allow):
    """dbus-daemon(1): a rule with send_/receive_<attr> applies to messages whose <attr> equals the
    value.  A message that lacks an optional field: for path, member and error name the rule still
    applies; for interface an <allow> rule does not apply (so that it cannot allow interface-less
    calls) while a <deny> rule does."""
    if not rset:
        return 'apply'
    if has:
        return 'apply' if equal else 'skip'
    if attr == 'interface':
        return 'skip' if allow else 'apply'
    return 'apply'


def c06_6b(ck, prog):
    r = ck.rule('C06.6b', 'the path / interface / member / error tests of check_can_send and check_can_receive '
                'are the same boolean functions and equal the documented semantics (16 assignments each)', 'DEC',
                breaks='an <allow send_interface=...> rule admits interface-less calls (CVE-2008-0595 shape), or the '
                       'two evaluators disagree', floor=96)
    names = ('rule_attr_set', 'message_has_field', 'equal', 'rule.allow')
    for attr in ('path', 'interface', 'member', 'error'):
        for side in ('send', 'receive'):
            fn = prog.fn(*EVALS[side])
            t = attr_skip_table(fn, side, attr)
            for a, got in sorted(t.items()):
                if a[1] == 0 and a[2] == 1:
                    continue     # "equal" is meaningless when the message lacks the field
                want = spec_attr(attr, *a)
                key = '%s.%s:%s' % (side, attr, ''.join(map(str, a)))
                if got == want:
                    r.ok(key, dict(zip(names, a), verdict=got))
                else:
                    r.violation(key, fn.name, fn.file, fn.line,
                                '%s_%s: for %s the evaluator decides "%s", documented semantics say "%s"' % (
                                    side, attr, dict(zip(names, a)), got, want))


def spec_reply(is_reply, req, allow, rreq, reav):
    """dbus-daemon(1): send/receive_requested_reply.  For <allow>, requested_reply="true" means the
    rule only allows requested replies ("false": any reply); an <allow> with eavesdrop="true" also
    applies to traffic that is being eavesdropped, which includes unrequested replies.  For <deny>,
    requested_reply="false" means the rule only denies UNrequested replies; "true": always denies.
    Non-replies are unaffected."""
    if not is_reply:
        return 'apply'
    if allow:
        if (not req) and rreq and not reav:
            return 'skip'
        return 'apply'
    if req and not rreq:
        return 'skip'
    return 'apply'


def spec_receive_qualifiers(is_reply, req, eav, allow, rreq, reav):
    """dbus-daemon(1), eavesdrop attribute on receive rules: an <allow> with eavesdrop="false" (default) does
    not apply to messages the connection is merely eavesdropping; with eavesdrop="true" it applies always.  A
    <deny> with eavesdrop="true" applies only to eavesdropped messages; with "false" it applies always.  Then
    the requested_reply logic of spec_reply()."""
    if eav and allow and not reav:
        return 'skip'
    if (not eav) and (not allow) and reav:
        return 'skip'
    return spec_reply(is_reply, req, allow, rreq, reav)


def c06_6c(ck, prog):
    r = ck.rule('C06.6c', 'the eavesdrop + requested-reply qualifier logic of check_can_receive equals the '
                'documented semantics for all 64 assignments', 'DEC',
                breaks='an eavesdropper receives messages its policy only allows to addressed recipients', floor=64)
    fn = prog.fn(*EVALS['receive'])
    t = qualifier_table(fn, 'receive')
    names = ('is_reply', 'requested_reply', 'eavesdropping', 'rule.allow', 'rule.requested_reply', 'rule.eavesdrop')
    for a, got in sorted(t.items()):
        want = spec_receive_qualifiers(*a)
        key = 'receive:%s' % ''.join(map(str, a))
        if got == want:
            r.ok(key, dict(zip(names, a), verdict=got))
        else:
            r.violation(key, fn.name, fn.file, fn.line,
                        'for %s check_can_receive decides "%s"; documented semantics: "%s"' % (
                            dict(zip(names, a)), got, want))
    # eavesdropping is derived from addressed != proposed recipient and the message having a destination
    defs = [rhs for b, i, ev in fn.events() for lhs, how, rhs in written_lvalues(ev)
            if is_ref(lhs, 'eavesdropping') and rhs is not None]
    okd = defs and all('addressed_recipient' in estr(d) and 'proposed_recipient' in estr(d) for d in defs)
    if okd:
        r.ok('receive:eavesdropping-definition')
    else:
        r.violation('receive:eavesdropping-definition', fn.name, fn.file, fn.line,
                    'eavesdropping is no longer addressed_recipient != proposed_recipient (&& has destination)')


def c06_6(ck, prog):
    r = ck.rule('C06.6', 'the requested-reply logic of check_can_send and check_can_receive is the same '
                'boolean function, and equals the documented table (all 32 assignments enumerated)', 'DEC',
                breaks='unrequested replies pass an "allow requested replies only" policy on one side',
                floor=64)
    ts = reply_block_table(prog.fn(*EVALS['send']), 'send')
    tr = reply_block_table(prog.fn(*EVALS['receive']), 'receive')
    names = ('is_reply', 'requested_reply', 'rule.allow', 'rule.requested_reply', 'rule.eavesdrop')
    for a in sorted(ts):
        want = spec_reply(*a)
        for side, t in (('send', ts), ('receive', tr)):
            key = '%s:%s' % (side, ''.join(map(str, a)))
            if t[a] == want:
                r.ok(key, dict(zip(names, a), verdict=want))
            else:
                fn = prog.fn(*EVALS[side])
                r.violation(key, fn.name, fn.file, fn.line,
                            'for %s the %s evaluator decides "%s" but the documented semantics (and its '
                            'sibling) say "%s"' % (dict(zip(names, a)), side, t[a], want))


GROUP_PATH_FILES = {'dbus/dbus-sysdeps-unix.c', 'dbus/dbus-credentials.c', 'dbus/dbus-userdb.c',
                    'dbus/dbus-userdb-util.c', 'dbus/dbus-sysdeps-util-unix.c', 'bus/policy.c'}


def c06_7(ck, prog):
    r = ck.rule('C06.7', 'the group list a connection is judged by is complete: where the credential / group code '
                'stores an element at index == its element count, the count is incremented right after (the '
                'element is part of the list that is handed on); the peer\'s primary group is among them', 'PAIR',
                breaks='a group the peer belongs to (e.g. its primary group) is dropped from its credentials: '
                       '<policy group="..."> blocks for it are not applied', floor=1)
    n = 0
    for fn in lib.prod_funcs(prog, GROUP_PATH_FILES):
        for bid, blk in fn.blocks.items():
            evs = blk['events']
            for i, ev in enumerate(evs):
                if ev['ev'] != 'assign' or ev['e']['op'] != '=':
                    continue
                l = ev['e']['l']
                if l.get('k') != 'sub' or not is_ref(l.get('idx')) or l['idx'].get('kind') != 'local':
                    continue
                cnt = l['idx']
                # is the index variable a count that is handed on (passed to a callee / stored / returned)?
                handed = False
                incremented_somewhere = False
                for b2, i2, e2 in fn.events():
                    if e2['ev'] == 'call' and any(is_ref(a) and a.get('id') == cnt['id'] for a in e2['e']['args']) \
                            and not (e2['e'].get('callee') or '').startswith('_dbus_verbose'):
                        handed = True
                    for lhs, how, rhs in written_lvalues(e2):
                        if is_ref(lhs) and lhs.get('id') == cnt['id'] and how in ('++', '+='):
                            incremented_somewhere = True
                        if rhs is not None and isinstance(rhs, dict) and is_ref(rhs) and rhs.get('id') == cnt['id'] \
                                and not is_ref(lhs):
                            handed = True
                if not handed:
                    continue
                # a loop cursor (for (i = 0; ...; i++)) is not a count: its store is followed by the loop's
                # own increment in another block; a count is incremented in the storing block
                follows = any(any(is_ref(lhs) and lhs.get('id') == cnt['id'] and how in ('++', '+=')
                                  for lhs, how, rhs in written_lvalues(e3)) for e3 in evs[i + 1:])
                n += 1
                key = '%s:%s[%s]' % (fn.name, estr(l.get('base'))[:30], cnt['name'])
                if follows:
                    r.ok(key, {'site': '%s:%d' % (fn.file, ev['line'])})
                else:
                    r.violation(key, fn.name, fn.file, ev['line'],
                                '%s stores an element at index %s (the count that is handed on) without incrementing '
                                'the count afterwards: the element is not part of the list' % (fn.name, cnt['name']))
    r.note('%d count-indexed stores examined' % n)


def c06_10(ck, prog, rid='C06.10'):
    r = ck.rule(rid, 'the policy gate is told every party the calling function knows: each DBusConnection parameter of '
                'a function that calls the gate is one of the gate\'s sender / addressed recipient / proposed recipient '
                'arguments, so a function that handles one recipient of many (match-rule recipients, eavesdroppers) '
                'cannot present that recipient as the addressed one', 'WHO',
                breaks='an eavesdropping connection is policy-checked as if the message were addressed to it: receive '
                'rules without eavesdrop="true" let it read unicast traffic, and it is recorded as a legitimate replier',
                floor=4)
    n = 0
    for f, b, i, c in prog.call_sites(GATE):
        if not prog.is_production(f) or len(c['args']) < 5:
            continue
        n += 1
        roles = c['args'][2:5]
        used = {a.get('id') for a in roles if is_ref(a)}
        conns = [p for p in f.params if (p.get('t') or '').replace(' ', '') == 'DBusConnection*']
        missing = [p['name'] for p in conns if p['id'] not in used]
        key = '%s@%d' % (f.name, n)
        if missing:
            r.violation('%s:party-not-told' % f.name, f.name, f.file, c['line'],
                        '%s knows the connection(s) %s but calls the gate with (sender, addressed, proposed) = (%s): '
                        'the gate cannot tell an addressed recipient from a recipient that merely matches' % (
                            f.name, ', '.join(missing), ', '.join(estr(a) for a in roles)))
        else:
            r.ok(key, {'sender': estr(roles[0]), 'addressed': estr(roles[1]), 'proposed': estr(roles[2])})
    if n < 4:
        raise AnalysisBroken('call sites of the policy gate not found (%d)' % n)
    # the proposed recipient is the connection the message is then sent to
    so = prog.fn('send_one_message', 'bus/dispatch.c')
    gate = [c for b, i, c in so.calls(GATE)]
    send = [c for b, i, c in so.calls(('bus_transaction_send', 'bus_transaction_send_from_driver'))]
    okp = gate and send and all(same_expr(g['args'][4], s['args'][2 if s['callee'] == 'bus_transaction_send' else 1])
                                for g in gate for s in send)
    (r.ok('send_one_message:proposed-is-the-receiver') if okp else
     r.violation('send_one_message:proposed-is-the-receiver', so.name, so.file, so.line,
                 'the connection the gate is asked about is not the connection the message is sent to'))


def c06_11(ck, prog):
    r = ck.rule('C06.11', 'send rules compare their destination with the message\'s destination and receive rules '
                'compare their origin with the message\'s sender: every message accessor that is handed a rule\'s '
                '`destination` is a destination accessor, every one handed `origin` a sender accessor', 'TAB',
                breaks='receive_sender="org.freedesktop.DBus" (or send_destination) is matched against the wrong header '
                'field: deny rules for bus-originated messages are bypassed and allow rules over-deny', floor=2)
    P = 'bus/policy.c'
    ACC = {'destination': {'dbus_message_has_destination', 'dbus_message_get_destination'},
           'origin': {'dbus_message_has_sender', 'dbus_message_get_sender'}}
    n = 0
    for f in lib.prod_funcs(prog, {P}):
        for b, i, c in f.calls():
            cal = c.get('callee') or ''
            if not cal.startswith('dbus_message_'):
                continue
            for a in c['args']:
                if is_member(a) and a.get('field') in ACC and 'BusPolicyRule' in (a.get('rec') or '') + estr(a):
                    n += 1
                    key = '%s:%s(%s)' % (f.name, cal, a['field'])
                    if cal in ACC[a['field']]:
                        r.ok(key)
                    else:
                        r.violation(key, f.name, P, c['line'],
                                    'the rule\'s %s is compared through %s: that reads the message\'s %s' % (
                                        a['field'], cal, 'destination' if 'destination' in cal else 'sender'))
    if n < 2:
        raise AnalysisBroken('message accessors applied to rule destination / origin not found (%d)' % n)


def c06_12(ck, prog, rid='C06.12'):
    r = ck.rule(rid, 'message type names mean the specification\'s types: dbus_message_type_from_string (which gives '
                'send_type= / receive_type= rules and type= match keys their meaning) maps method_call, method_return, '
                'error and signal to the type codes 1, 2, 3, 4 and is the inverse of dbus_message_type_to_string', 'TAB',
                breaks='a rule written for errors applies to method returns and vice versa: the bus denies what the '
                'configuration allows and allows what it denies, for every policy that treats the two differently',
                floor=4)
    M = 'dbus/dbus-message.c'
    SPEC = {'method_call': 1, 'method_return': 2, 'error': 3, 'signal': 4}
    fs = prog.fn('dbus_message_type_from_string', M)
    id2call = {c['id']: c for b, i, c in fs.calls('strcmp')}
    got = {}

    def on_exit(user, ctx, ret, ev):
        v = ctx.const_of(ret) if ret is not None else None
        hit = [c for cid, c in id2call.items() if ctx.result_known(cid) is False]
        if v is None:
            return
        for c in hit:
            lit = next((a['v'] for a in c['args'] if a.get('k') == 'str'), None)
            if lit is not None:
                got.setdefault(lit, set()).add(v)
    Explorer(fs, on_exit=on_exit, calls={'strcmp'}, track='auto', cap=100000).run()
    for name, code in SPEC.items():
        key = 'from_string:%s' % name
        if got.get(name) == {code}:
            r.ok(key)
        else:
            r.violation(key, fs.name, M, fs.line, '"%s" is mapped to message type %s; the specification\'s code is %d' % (
                name, sorted(got.get(name, [])) or 'nothing', code))
    ts = prog.fn('dbus_message_type_to_string', M)
    back = {}
    for bid, blk in ts.blocks.items():
        cs = blk.get('case')
        if not cs:
            continue
        cur = blk
        for _ in range(4):
            rets = [ev for ev in cur['events'] if ev['ev'] == 'return' and ev.get('e') is not None and ev['e'].get('k') == 'str']
            if rets:
                back[cs[0]] = rets[0]['e']['v']
                break
            if len(cur['succs']) != 1:
                break
            cur = ts.blocks[cur['succs'][0]]
    for name, code in SPEC.items():
        key = 'to_string:%d' % code
        if back.get(code) == name:
            r.ok(key)
        else:
            r.violation(key, ts.name, M, ts.line, 'type %d is spelled "%s"; the specification calls it "%s"' % (
                code, back.get(code), name))


def c06_9(ck, prog):
    r = ck.rule('C06.9', 'rule order and currency: every insertion into a rule list in policy.c keeps file order '
                '(append only), and a reload installs the new policy before the live connections\' client '
                'policies are rebuilt from it', 'TAB',
                breaks='"the last matching rule decides" is evaluated on a reversed list (rules from included '
                       'files), or connections stay one reload behind the configuration', floor=8)
    P = 'bus/policy.c'
    n = 0
    for f in lib.prod_funcs(prog, {P}):
        for b, i, c in f.calls():
            cal = c.get('callee') or ''
            if not cal.startswith('_dbus_list_') or not any(w in cal for w in ('append', 'prepend', 'insert')):
                continue
            n += 1
            key = '%s:%s' % (f.name, cal)
            if cal in ('_dbus_list_append', '_dbus_list_append_link'):
                r.ok(key, {'site': '%s:%d' % (P, c['line'])})
            else:
                r.violation(key, f.name, P, c['line'], '%s inserts a policy rule with %s: rule lists are ordered by '
                            'position in the configuration and must only be appended to' % (f.name, cal))
    if n < 6:
        raise AnalysisBroken('only %d rule-list insertions found in policy.c' % n)
    # reload: install, then rebuild
    fn = prog.fn('process_config_every_time', 'bus/bus.c')
    seen = [0]

    def on_event(user, ev, ctx):
        for lhs, how, rhs in written_lvalues(ev):
            if is_member(lhs, 'policy', 'BusContext') and how == '=' and is_call(rhs or {}, 'bus_config_parser_steal_policy'):
                return True
        if ev['ev'] == 'call' and ev['e'].get('callee') == 'bus_connections_reload_policy':
            seen[0] += 1
            if not user:
                ctx.report('client policies of live connections are rebuilt before the new policy was installed in '
                           'the context (they are rebuilt from the previous rule list)', ev['line'], key='stale')
        return user
    ex = Explorer(fn, init=False, on_event=on_event, track=None, cap=400000).run()
    if not seen[0]:
        raise AnalysisBroken('process_config_every_time no longer reloads connection policies')
    if ex.reports:
        r.from_reports(ex.reports, keyfn=lambda k, rep: 'reload:%s' % k)
    else:
        r.ok('reload:new-policy-installed-before-rebuild')
    # and the rebuild reads the context's current policy
    rp = prog.fn('bus_connections_reload_policy', 'bus/connection.c')
    if rp.calls('bus_context_create_client_policy'):
        r.ok('reload:rebuild-from-context-policy')
    else:
        r.violation('reload:rebuild-from-context-policy', rp.name, rp.file, rp.line,
                    'bus_connections_reload_policy no longer rebuilds client policies through the context')


def c06_14(ck, prog):
    """Reading the peer's supplementary groups: the retry grows the buffer against what it had."""
    U = 'dbus/dbus-sysdeps-unix.c'
    r = ck.rule('C06.14', 'when the kernel says the buffer for the peer\'s groups was too small, "did the required length '
                'grow?" is asked against the capacity the buffer had: in add_groups_to_credentials the comparison of '
                '`len` with the capacity (n_gids * sizeof (gid_t)) inside the retry loop is reached before the capacity '
                'is recomputed from `len`', 'DOM',
                breaks='the test compares the new length with itself and always says "no progress": for a peer with '
                'more groups than the first buffer holds the function gives up and reports success with no group at '
                'all, so <policy group="..."> sections are not applied to that peer', floor=1)
    try:
        fn = prog.fn('add_groups_to_credentials', U)
    except AnalysisBroken:
        r.skip('add_groups_to_credentials is not compiled in this configuration')
        return
    gs = {c['id'] for b, i, c in fn.calls('getsockopt')}
    if not gs:
        r.skip('SO_PEERGROUPS is not used in this configuration')
        return
    cap = [lhs for b, i, ev in fn.events() for lhs, how, rhs in written_lvalues(ev)
           if (is_ref(lhs) or 'k' not in lhs) and lhs.get('name') == 'n_gids']
    if not cap:
        raise AnalysisBroken('add_groups_to_credentials: capacity variable n_gids not found')
    cid = cap[0]['id']
    tests = 0
    for blk in fn.blocks.values():
        t = blk.get('term')
        if t and isinstance(t.get('cond'), dict):
            names = {x.get('name') for x in walk(t['cond']) if is_ref(x)}
            if 'len' in names and 'n_gids' in names and estr(t['cond']).count('<=') + estr(t['cond']).count('>') > 0:
                blk['_growth_test'] = True
                tests += 1
    if not tests:
        raise AnalysisBroken('add_groups_to_credentials: the comparison of len with the capacity was not found')

    def on_event(user, ev, ctx):
        if ev['ev'] == 'call' and ev['e'].get('id') in gs:
            return 'asked'
        for lhs, how, rhs in written_lvalues(ev):
            if (is_ref(lhs) or 'k' not in lhs) and lhs.get('id') == cid and isinstance(rhs, dict) and \
                    any(is_ref(x) and x.get('name') == 'len' for x in walk(rhs)) and user == 'asked':
                return 'recomputed'
        return user

    def on_edge(user, bid, idx, atom, sense, ctx):
        if fn.blocks[bid].get('_growth_test') and user == 'recomputed':
            ctx.report('the capacity n_gids is recomputed from len before len is compared with it: the "did it grow" '
                       'test can no longer tell', fn.blocks[bid]['term'].get('line'), key='self-compare')
        return user
    ex = Explorer(fn, init=None, on_event=on_event, on_edge=on_edge, track=None, cap=300000).run()
    if ex.reports:
        r.from_reports(ex.reports, keyfn=lambda k, rep: 'add_groups:growth-test')
    else:
        r.ok('add_groups:growth-test')


def run(ck):
    ck.explanation = (
        'Static rules over bus/policy.c, bus/bus.c, bus/config-parser.c, bus/services.c, bus/activation.c: the '
        'three evaluators have the last-match-wins / default-deny scan shape; client policies are assembled in '
        'context order and then optimised; every rule attribute is parsed, evaluated and respected by the '
        'optimiser\'s catch-all predicate; the gate consults the sender\'s send rules and the recipient\'s '
        'receive rules and cannot be bypassed by any staging site or by activation; own-checks dominate registry '
        'changes; the reply/requested_reply/eavesdrop skip logic of both evaluators is enumerated exhaustively '
        '(2^5 x 2) against the documented table.')
    ck.not_decided = ('string matching of attribute values; registry-dependent destination/sender matching; '
                      'eavesdrop/broadcast/fd-range value semantics beyond attribute coverage')
    for v, prog in ck.programs(thorough_variants=('B',)):
        from rules.C09 import c09_11
        c09_11(ck, prog, 'C06.13')
        c06_14(ck, prog)
        c06_1(ck, prog)
        c06_2(ck, prog)
        c06_3(ck, prog)
        c06_3b(ck, prog)
        c06_4(ck, prog)
        c06_5(ck, prog)
        c06_6(ck, prog)
        c06_6b(ck, prog)
        c06_6c(ck, prog)
        c06_7(ck, prog)
        c06_9(ck, prog)
        c06_10(ck, prog)
        c06_11(ck, prog)
        c06_12(ck, prog)
        # "requested reply" is what the policy's requested_reply qualifiers are evaluated against
        from rules.C09 import c09_2
        r8 = ck.rule('C06.8', 'a message is classified as a requested reply only when serial, receiver and sender '
                     'of a pending call all match (shared with C09.2): send_requested_reply / '
                     'receive_requested_reply rules are evaluated against this verdict', 'TS',
                     breaks='a reply from a connection that was never called is judged by the rules for requested '
                            'replies and delivered where the documented evaluation denies it', floor=4)
        save = ck.rule
        ck.rule = lambda *a, **k: r8
        try:
            c09_2(ck, prog)
        finally:
            ck.rule = save
