"""C10 - one misbehaving client cannot crash, corrupt or stall the bus.
DESIGN.md C10.1 - C10.5 (few structural clauses; liveness/latency are not decided)."""
from engine.cfg import (Explorer, estr, is_call, is_int, is_member, is_ref, strip_addr, walk,
                        written_lvalues, event_expr)
from engine.facts import AnalysisBroken
from engine import lib

TR = 'dbus/dbus-transport.c'
TS = 'dbus/dbus-transport-socket.c'
D = 'bus/driver.c'


def c10_1(ck, prog):
    r = ck.rule('C10.1', 'a corrupt stream disconnects its transport: after queuing what was parsed, the loader\'s '
                'corruption flag is tested and the same transport disconnected', 'DOM',
                breaks='a client that sent an invalid message stays connected', floor=2)
    fn = prog.fn('_dbus_transport_queue_messages', TR)
    corr = {c['id'] for b, i, c in fn.calls('_dbus_message_loader_get_is_corrupted')
            if is_member(c['args'][0], 'loader', 'DBusTransport')}
    if not corr:
        raise AnalysisBroken('queue_messages no longer tests the corruption flag')

    def on_event(user, ev, ctx):
        if ev['ev'] == 'call':
            if ev['e']['id'] in corr:
                return 'tested'
            if ev['e'].get('callee') == '_dbus_transport_disconnect' and lib.arg_is_param(ev['e'], 0, 'transport'):
                return 'disconnected'
        return user

    def on_exit(user, ctx, ret, ev):
        if user == 'start':
            ctx.report('returns without testing whether the stream is corrupt', ev['line'], key='untested')
        elif user == 'tested' and any(ctx.result_known(c) is True for c in corr):
            ctx.report('the stream is corrupt but the transport is not disconnected', ev['line'], key='not-disconnected')
    ex = Explorer(fn, init='start', on_event=on_event, on_exit=on_exit,
                  calls={'_dbus_message_loader_get_is_corrupted'}, track='auto').run()
    if ex.reports:
        r.from_reports(ex.reports, keyfn=lambda k, rep: 'queue_messages:%s' % k)
    else:
        r.ok('queue_messages:corrupt=>disconnect')
    gc = prog.fn('_dbus_message_loader_get_is_corrupted', 'dbus/dbus-message.c')
    if any(ev['ev'] == 'return' and is_member(ev['e'], 'corrupted', 'DBusMessageLoader') for b, i, ev in gc.events()):
        r.ok('get_is_corrupted:returns-flag')
    else:
        r.violation('get_is_corrupted:returns-flag', gc.name, gc.file, gc.line, 'no longer returns loader->corrupted')
    # every caller path of do_reading ends in queue_messages after bytes were read
    rd = prog.fn('do_reading', TS)
    if rd.calls('_dbus_transport_queue_messages'):
        r.ok('do_reading->queue_messages')
    else:
        r.violation('do_reading->queue_messages', rd.name, TS, rd.line, 'bytes read are no longer handed to queue_messages')


def buffer_pairing(prog, r, fn, exempt_decode=False):
    gets = {c['id'] for b, i, c in fn.calls('_dbus_message_loader_get_buffer')}
    if not gets:
        raise AnalysisBroken('%s no longer borrows the loader buffer' % fn.name)

    def on_event(user, ev, ctx):
        if ev['ev'] == 'call':
            cal = ev['e'].get('callee')
            if cal == '_dbus_message_loader_get_buffer':
                if user == 'held':
                    ctx.report('the loader buffer is borrowed twice', ev['line'], key='double')
                return 'held'
            if cal == '_dbus_message_loader_return_buffer':
                if user != 'held':
                    ctx.report('the loader buffer is returned without being borrowed', ev['line'], key='unpaired')
                return 'idle'
        return user

    def on_exit(user, ctx, ret, ev):
        if user == 'held':
            if exempt_decode and ctx.atom('decoding') is True:
                return
            ctx.report('%s returns with the loader buffer still borrowed (the next read trips '
                       '_dbus_assert (!loader->buffer_outstanding))' % fn.name, ev['line'] if ev else fn.endline,
                       key=('held', ev['line'] if ev else 0))

    def akey(atom, resolve):
        if atom[0] == 'truthy' and is_call(atom[1], '_dbus_auth_needs_decoding'):
            return 'decoding'
        return None
    ex = Explorer(fn, init='idle', on_event=on_event, on_exit=on_exit, atom_key=akey, track='auto', cap=400000).run()
    key = '%s:loader-buffer-paired' % fn.name
    if ex.reports:
        for k, rep in ex.reports.items():
            r.violation(key + ':' + (k if isinstance(k, str) else '/'.join(map(str, k))), fn.name, fn.file,
                        rep['line'], rep['reason'], rep['path'])
    else:
        r.ok(key)


def c10_2(ck, prog):
    r = ck.rule('C10.2', 'the loader\'s byte buffer is borrowed and returned in pairs on every exit of the '
                'readers', 'PAIR', breaks='a remote peer can make the next read hit '
                '_dbus_assert (!loader->buffer_outstanding): abort', floor=2)
    # the decode branches are dead code iff no mechanism has a decode function: checked on every run
    t = prog.table('all_mechanisms', 'dbus/dbus-auth.c')
    decoders = []
    for el in t['init'].get('elems', []):
        f = el.get('fields') or {}
        for k in ('server_decode_func', 'client_decode_func', 'server_encode_func', 'client_encode_func'):
            v = f.get(k)
            if v is not None and not is_int(v, 0):
                decoders.append((f.get('mechanism') or {}).get('v'))
    exempt = not decoders
    r.note('auth mechanisms with encode/decode functions: %s => decode branches %s' % (
        decoders or 'none', 'exempt (unreachable)' if exempt else 'analysed'))
    buffer_pairing(prog, r, prog.fn('do_reading', TS), exempt_decode=exempt)
    buffer_pairing(prog, r, prog.fn('recover_unused_bytes', TR), exempt_decode=exempt)


def c10_3(ck, prog):
    r = ck.rule('C10.3', 'every bus driver method is invoked only from the handler table after its argument '
                'signature was checked, and reads exactly the argument types its table row declares', 'TAB',
                breaks='a handler reads arguments of unexpected types from a client message (assertion / crash)',
                floor=25)
    from rules.C18 import handler_rows, flag_enforced, handler_reference
    rows = handler_rows(prog)
    handler_reference(prog, r)
    hm = prog.fn('bus_driver_handle_message', D)
    # signature test dominates the indirect call

    def sinks(ev, ctx):
        if ev['ev'] == 'call' and ev['e'].get('callee') is None:
            fe = ev['e'].get('fn')
            while fe is not None and fe.get('k') == 'un':
                fe = fe['e']
            if is_member(fe, 'handler', 'MessageHandler'):
                return '(*mh->handler)()'
        return None
    lib.must_precede(hm, r, sinks, [lib.Guard('dbus_message_has_signature(message, mh->in_args)',
                                              lambda c, ctx: c.get('callee') == 'dbus_message_has_signature'
                                              and lib.arg_is_param(c, 0, 'message')
                                              and is_member(c['args'][1], 'in_args', 'MessageHandler'))])
    flag_enforced(prog, r, 'METHOD_FLAG_NO_CONTAINERS', 'bus_driver_check_caller_is_not_container')
    codes = {}
    for n in ('STRING', 'UINT32', 'ARRAY', 'INVALID', 'OBJECT_PATH', 'BOOLEAN', 'INT32', 'VARIANT', 'BYTE'):
        codes[prog.macro_int('DBUS_TYPE_' + n)] = n
    for row in rows:
        h = row['handler']
        if not h or len(prog.by_name.get(h, [])) != 1:
            continue
        fn = prog.fn(h)
        # handlers are called only through the table
        direct = [f for f, b, i, c in prog.call_sites(h) if prog.is_production(f)]
        key = '%s:%s' % (row['table'], row['name'])
        if direct:
            r.violation(key + ':direct-call', h, fn.file, fn.line,
                        '%s is called directly by %s, bypassing the signature check' % (h, direct[0].name))
            continue
        ga = [c for b, i, c in fn.calls('dbus_message_get_args') if lib.arg_is_param(c, 0, 'message')]
        if not ga:
            r.ok(key, {'in_args': row['in_args'], 'reads': 'no dbus_message_get_args'})
            continue
        bad = False
        for c in ga:
            sig = ''
            args = c['args'][2:]
            i = 0
            while i < len(args):
                a = args[i]
                if not is_int(a):
                    break
                t = a['v']
                if t == 0:
                    break
                if chr(t) == 'a':
                    sig += 'a' + (chr(args[i + 1]['v']) if i + 1 < len(args) and is_int(args[i + 1]) else '?')
                    i += 4
                else:
                    sig += chr(t)
                    i += 2
            if sig != (row['in_args'] or '') and not (row['in_args'] or '').startswith(sig):
                bad = True
                r.violation(key, h, fn.file, c['line'],
                            '%s reads arguments "%s" with dbus_message_get_args but its table row declares "%s"' % (
                                h, sig, row['in_args']))
        if not bad:
            r.ok(key, {'in_args': row['in_args']})


def c10_4(ck, prog):
    r = ck.rule('C10.4', 'bounded work per wake-up: the read loop is re-entered only after the per-iteration byte '
                'budget was tested, and a single read is clamped to it', 'DOM',
                breaks='one flooding client monopolises the main loop', floor=2)
    fn = prog.fn('do_reading', TS)

    # the running byte count is the local that is accumulated with `+=`; the clamped length is the local
    # handed to the read call (names are the tree's business)
    budget_ids = {l['id'] for b, i, ev in fn.events() for l, how, rhs in written_lvalues(ev)
                  if is_ref(l) and l.get('kind') == 'local' and how == '+='}
    len_ids = set()
    for b, i, c in fn.calls():
        if c.get('callee') in ('_dbus_read_socket', '_dbus_read_socket_with_unix_fds') and len(c['args']) >= 3 \
                and is_ref(c['args'][2]):
            len_ids.add(c['args'][2]['id'])

    def akey(atom, resolve):
        if atom[0] == 'cmp' and atom[1] == '<=' and is_ref(atom[2]) and atom[2].get('id') in budget_ids and \
                is_member(atom[3], 'max_bytes_read_per_iteration'):
            return ('within-budget', frozenset([atom[2]['id']]))
        return None
    nread = [0]

    def on_event(user, ev, ctx):
        if ev['ev'] == 'call' and ev['e'].get('callee') in ('_dbus_read_socket', '_dbus_read_socket_with_unix_fds'):
            nread[0] += 1
            if not any(k[0] == 'within-budget' and v is True for k, v in ctx.atoms().items()):
                ctx.report('a socket read happens without `total > max_bytes_read_per_iteration` having been '
                           'refuted since the last read', ev['line'], key='unbounded')
        return user
    ex = Explorer(fn, on_event=on_event, atom_key=akey, track=None, cap=400000).run()
    if not nread[0]:
        raise AnalysisBroken('do_reading: socket reads not found')
    if ex.reports:
        r.from_reports(ex.reports, keyfn=lambda k, rep: 'do_reading:%s' % k)
    else:
        r.ok('do_reading:budget-tested-before-each-read')
    clamp = False
    for bid, blk in fn.blocks.items():
        t = blk.get('term')
        if t and t.get('cond') is not None:
            c = t['cond']
            if c.get('k') == 'bin' and c['op'] == '>' and is_ref(c['l']) and c['l'].get('id') in len_ids \
                    and is_member(c['r'], 'max_bytes_read_per_iteration'):
                clamp = True
    if clamp:
        r.ok('do_reading:single-read-clamped')
    else:
        r.violation('do_reading:single-read-clamped', fn.name, TS, fn.line,
                    'max_to_read is no longer clamped to max_bytes_read_per_iteration')


def c10_5(ck, prog):
    r = ck.rule('C10.5', 'unauthenticated peers are bounded: setting up a connection re-evaluates the accept gate '
                'and expires the oldest incomplete connections', 'DOM', floor=2)
    fn = prog.fn('bus_connections_setup_connection', 'bus/connection.c')
    for cal in ('bus_connections_expire_incomplete', 'bus_context_check_all_watches'):
        if fn.calls(cal):
            r.ok('setup_connection->%s' % cal)
        else:
            r.violation('setup_connection->%s' % cal, fn.name, fn.file, fn.line, 'setup no longer calls %s' % cal)
    ei = prog.fn('bus_connections_expire_incomplete', 'bus/connection.c')
    if ei.calls('bus_expire_list_recheck_immediately') or ei.calls('_dbus_timeout_set_interval') or \
            ei.calls('bus_expire_timeout_set_interval') or ei.calls('dbus_connection_close'):
        r.ok('expire_incomplete:acts')
    else:
        r.note('expire_incomplete shape not recognised (informational)')


def c10_9(ck, prog):
    """What the bus accepts from a client by default, a default-configured receiver can take."""
    r = ck.rule('C10.9', 'the bus\'s built-in per-message limits (size, attached descriptors) do not exceed the limits a '
                'default-configured library receiver applies to itself: the constants stored by bus_config_parser_new '
                'and by _dbus_message_loader_new are compared by value', 'TAB',
                breaks='the bus accepts and forwards a message its sender should have been disconnected for; the '
                'well-behaved addressee cannot receive it (descriptor array too small, message too long) and is the '
                'one thrown off the bus', floor=2)
    pn = prog.fn('bus_config_parser_new', 'bus/config-parser.c')
    ln = prog.fn('_dbus_message_loader_new', 'dbus/dbus-message.c')

    def const_store(fn, rec, field):
        vals = []
        for b, i, ev in fn.events():
            for lhs, how, rhs in written_lvalues(ev):
                if how == '=' and is_member(lhs, field, rec):
                    vals.append((lib.eval_expr(rhs, lambda e: None), estr(rhs), ev['line']))
        return vals
    for field in ('max_message_unix_fds', 'max_message_size'):
        bus = const_store(pn, 'BusLimits', field)
        libv = const_store(ln, 'DBusMessageLoader', field)
        if len(bus) != 1 or len(libv) != 1 or bus[0][0] is None or libv[0][0] is None:
            raise AnalysisBroken('defaults of %s: expected one constant store in each constructor (%s / %s)' % (
                field, bus, libv))
        key = 'default:%s' % field
        if bus[0][0] > libv[0][0]:
            r.violation(key, pn.name, 'bus/config-parser.c', bus[0][2],
                        'the bus lets %s = %s (%d) through by default while a library receiver takes at most %s (%d)' % (
                            field, bus[0][1], bus[0][0], libv[0][1], libv[0][0]))
        else:
            r.ok(key, {'bus': bus[0][0], 'library': libv[0][0]})


def c10_10(ck, prog):
    """A disabled watch must not wake the main loop: the mask left in the kernel is edge-triggered and empty."""
    EP = 'dbus/dbus-pollable-set-epoll.c'
    r = ck.rule('C10.10', 'disabling a watch leaves an edge-triggered, otherwise empty event mask in the epoll set: the '
                'value stored in event.events before EPOLL_CTL_MOD is a constant that has EPOLLET and neither EPOLLIN '
                'nor EPOLLOUT, in socket_set_epoll_disable and in the disabled branch of socket_set_epoll_add (hang-up '
                'and error are always reported by the kernel; level-triggered they are reported on every wait)', 'TAB',
                breaks='a client that closes its end while its watch is disabled (its messages are queued behind a '
                'limit) makes every epoll_wait return at once: the bus spins at full CPU and serves the others late',
                floor=2)
    et, rd, wr = 1 << 31, 0x001, 0x004
    n = 0
    for fname, must_be_constant in (('socket_set_epoll_disable', True), ('socket_set_epoll_add', False)):
        fn = prog.fn(fname, EP)
        if not list(fn.calls('epoll_ctl')):
            raise AnalysisBroken('%s: no epoll_ctl call' % fname)
        stores = []
        for b, i, ev in fn.events():
            for lhs, how, rhs in written_lvalues(ev):
                if lhs.get('k') == 'member' and lhs.get('field') == 'events' and how == '=':
                    stores.append((rhs, ev['line']))
        if not stores:
            raise AnalysisBroken('%s: no store to event.events' % fname)
        for rhs, line in stores:
            x = rhs
            while x.get('k') in ('paren', 'cast'):
                x = x['e']
            v = lib.eval_expr(x, lambda e: None)
            if v is None:
                v = lib.const_call_value(prog, fn, x)
            if v is None:
                # a mask computed from the watch's flags: the enabled case
                if must_be_constant:
                    raise AnalysisBroken('%s: mask %s not evaluable' % (fname, estr(rhs)))
                continue
            n += 1
            key = '%s:disabled-mask@%s' % (fname, estr(rhs)[:40])
            if not (v & et) or v & (rd | wr):
                r.violation(key, fn.name, EP, line, 'the mask of a disabled watch is %s = %#x: %s' % (
                    estr(rhs), v, 'not edge-triggered' if not v & et else 'still asks for readiness'))
            else:
                r.ok(key, {'mask': '%#x' % v})
    if n < 2:
        raise AnalysisBroken('disabled-watch masks: %d constant stores found, expected one in add and one in disable' % n)


def c10_12(ck, prog, rid='C10.12'):
    """The back-pressure counters tell their owner exactly when the guard value is crossed, in either direction."""
    R = 'dbus/dbus-resources.c'
    r = ck.rule(rid, 'a resource counter asks for its notify function exactly when an adjustment carries the value across '
                'the guard, upwards or downwards: for old and new value each below, at and above the guard (9 cases, '
                'both counters) `notify_pending` is set iff (old >= guard) != (new >= guard) (the condition is '
                'evaluated on the CFG for each case)', 'DEC',
                breaks='reading from a client was switched off when its queued bytes reached the limit; when the count '
                'falls back from exactly the limit no notification is sent and the bus never reads from that healthy '
                'client again (or: the limit is never enforced because the upward crossing is missed)', floor=18)
    G = 10
    for fname, vfield, gfield in (('_dbus_counter_adjust_size', 'size_value', 'notify_size_guard_value'),
                                  ('_dbus_counter_adjust_unix_fd', 'unix_fd_value', 'notify_unix_fd_guard_value')):
        fn = prog.fn(fname, R)
        for old in (G - 1, G, G + 1):
            for new in (G - 1, G, G + 1):
                st = {'flipped': False}

                dparam = fn.params[1]['id'] if len(fn.params) > 1 else None

                def val(e, old=old, new=new, st=st, dparam=dparam):
                    if is_ref(e) and e.get('id') == dparam and dparam is not None:
                        return new - old                 # the adjustment itself
                    if is_member(e, vfield, 'DBusCounter'):
                        return new if st['flipped'] else old
                    if is_member(e, gfield, 'DBusCounter'):
                        return G
                    if is_member(e, 'notify_function', 'DBusCounter'):
                        return 1
                    if is_member(e, None, 'DBusCounter'):
                        return 0
                    return None

                def stop(blk, ev, st=st):
                    if ev is not None and ev['ev'] == 'assign' and is_member(ev['e']['l'], vfield, 'DBusCounter'):
                        st['flipped'] = True
                    return None
                try:
                    seen, lab = lib.symbolic_walk(fn, fn.entry, val, stop)
                except AnalysisBroken as e:
                    raise AnalysisBroken('%s: %s' % (fname, e))
                if not st['flipped']:
                    raise AnalysisBroken('%s: the adjustment of %s was not found' % (fname, vfield))
                fired = any(ev['ev'] == 'assign' and is_member(ev['e']['l'], 'notify_pending', 'DBusCounter')
                            and is_int(ev['e']['r']) and ev['e']['r']['v'] != 0 for ev in seen)
                want = (old >= G) != (new >= G)
                key = '%s:old%+d:new%+d' % (fname, old - G, new - G)
                if fired != want:
                    r.violation(key, fn.name, R, fn.line, 'with the value going from guard%+d to guard%+d the notification '
                                'is %s' % (old - G, new - G, 'requested although the guard was not crossed' if fired else
                                           'not requested although the guard was crossed'))
                else:
                    r.ok(key)


def c10_13(ck, prog):
    """Assertions that restate a scanning loop's exit condition must restate that condition."""
    r = ck.rule('C10.13', 'a scanning loop over the bytes of a string and the assertion that follows it agree on the '
                'character class: where a loop in dbus-string.c / dbus-string-util.c leaves at the first byte that is not '
                'in a set of characters, and an assertion after the loop says "at the end, or the byte here is not in '
                'the set", the two sets are the same (in builds with assertions)', 'TAB',
                breaks='an input byte that is outside the loop\'s class but inside the assertion\'s (a bare line feed after '
                '"AUTH ") stops the loop and fails the assertion: any client, before authenticating, aborts a bus built '
                'with assertions', floor=2)
    n = 0
    for f in lib.prod_funcs(prog, {'dbus/dbus-string.c', 'dbus/dbus-string-util.c'}):
        loops = lib.natural_loops(f)
        if not loops:
            continue

        def chars(e):
            out = set()
            for x in walk(e):
                if x.get('k') == 'bin' and x.get('op') in ('==', '!='):
                    for a, b in ((x['l'], x['r']), (x['r'], x['l'])):
                        if a.get('k') == 'sub' and is_int(b):
                            out.add(b['v'])
            return out
        L = set()
        last = 0
        for h, body in loops:
            for b in body:
                t = f.blocks[b].get('term')
                if t and isinstance(t.get('cond'), dict):
                    c2 = chars(t['cond'])
                    if c2:
                        L |= c2
                        last = max(last, t.get('line') or 0)
        if not L:
            continue
        for b, i, c in f.calls('_dbus_real_assert'):
            if c['line'] <= last or not c['args']:
                continue
            A = chars(c['args'][0])
            restates = any(x.get('k') == 'bin' and x.get('op') == '==' and is_member(x.get('r'), 'len') or
                           x.get('k') == 'bin' and x.get('op') == '==' and is_member(x.get('l'), 'len')
                           for x in walk(c['args'][0]))
            if not A or not restates:
                continue
            n += 1
            key = '%s:assert@loop-exit' % f.name
            if A != L:
                def show(s2):
                    return ', '.join(repr(chr(v)) if 0 < v < 128 else str(v) for v in sorted(s2))
                r.violation(key, f.name, f.file, c['line'], 'the loop stops at the first byte outside {%s}, the assertion '
                            'after it demands a byte outside {%s}: a byte in the difference aborts the process' % (
                                show(L), show(A)))
            else:
                r.ok(key)
    if n < 2 and ck.variant == 'A':
        raise AnalysisBroken('scan loops followed by a restating assertion: only %d found' % n)


def run(ck):
    ck.explanation = (
        'Static rules over dbus-transport.c, dbus-transport-socket.c, bus/driver.c, bus/connection.c: a corrupt '
        'stream leads to _dbus_transport_disconnect of the same transport on every path; the loader buffer is '
        'borrowed/returned in pairs on every exit of the readers (decode branches exempt only while the mechanism '
        'table has no decode function, re-checked every run); every driver handler is invoked only via the table '
        'after dbus_message_has_signature(in_args) and reads exactly the declared types; socket reads are preceded '
        'by the per-iteration budget test; connection setup re-evaluates the accept gate.')
    ck.not_decided = ('"no crash for any byte stream", liveness and bounded latency of other clients\' calls '
                      '(run-time properties); memory safety of the parser beyond C01/C07 clauses')
    for v, prog in ck.programs(thorough_variants=('B',)):
        c10_1(ck, prog)
        c10_9(ck, prog)
        c10_10(ck, prog)
        c10_12(ck, prog)
        if v == 'A':
            c10_13(ck, prog)
        from rules import C16
        C16.c16_1(ck, prog, rid='C10.11', utf8_only=True)
        # a hostile descriptor packet must not leak descriptors in the bus (shared with C15.2)
        from rules.C15 import c15_2
        r6 = ck.rule('C10.6', 'descriptors received from a client are never leaked or closed twice by the loader: '
                     'arrays are closed before they are freed and moved by whole entries (shared with C15.2)', 'DOM',
                     breaks='each crafted packet leaks a descriptor in the bus until it can no longer accept '
                            'connections', floor=8)
        save6 = ck.rule
        ck.rule = lambda *a, **k: r6
        try:
            c15_2(ck, prog)
        finally:
            ck.rule = save6
        # an invalid message must be recognised as such: mandatory header fields (shared with C01.4)
        from rules.C01 import c01_4
        from rules.C13 import c13_1d
        save = ck.rule
        r1b = ck.rule('C10.1b', 'messages lacking a mandatory header field are rejected by the loader (shared with '
                      'C01.4): otherwise they reach code that asserts the field exists', 'TAB', floor=25)
        ck.rule = lambda *a, **k: r1b
        try:
            c01_4(ck, prog)
        finally:
            ck.rule = save
        r5b = ck.rule('C10.5b', 'every change of the number of unauthenticated connections re-evaluates the accept '
                      'gate (shared with C13.1d): otherwise the bus stops accepting connections', 'PAIR', floor=3)
        ck.rule = lambda *a, **k: r5b
        try:
            c13_1d(ck, prog)
        finally:
            ck.rule = save
        from rules.C19 import c19_7
        c19_7(ck, prog, 'C10.8')
        from rules.C02 import c02_5
        lib.shared_rule(ck, prog, 'C10.7', 'header edits the bus makes on a client\'s message (sender stamping, field '
                        'stripping) walk and write the header in the message\'s own byte order (shared with C02.5)',
                        'TAB', 'a foreign-byte-order message with a field the bus rewrites makes the daemon walk off '
                        'the header (assertion / out-of-bounds read)', 12, c02_5)
        c10_2(ck, prog)
        c10_3(ck, prog)
        c10_4(ck, prog)
        c10_5(ck, prog)
