"""C02 - built messages serialise to valid wire format and round-trip exactly.
DESIGN.md C02.1 - C02.4 (structural clauses)."""
from engine.cfg import (Explorer, estr, is_call, is_int, is_member, is_ref, strip_addr, walk,
                        written_lvalues, event_expr)
from engine.facts import AnalysisBroken
from engine import lib
from rules import typetab

MSG = 'dbus/dbus-message.c'
CONN = 'dbus/dbus-connection.c'


def c02_1(ck, prog):
    r = ck.rule('C02.1', 'writer, reader, skipper, validator and byte-swapper agree on every type code and with '
                'the specification\'s type table', 'TAB',
                breaks='what the builder writes is not what the parser validates/reads: no round trip', floor=120)
    typetab.check_type_tables(prog, r)


def c02_2(ck, prog):
    r = ck.rule('C02.2', 'length words are fixed (dbus_message_lock) before any header/body byte can leave the '
                'library', 'DOM', breaks='bytes on the wire disagree with the length words in the header', floor=4)
    lk = prog.fn('dbus_message_lock', MSG)
    ok = lk.calls('_dbus_header_update_lengths') and any(
        is_member(l, 'locked', 'DBusMessage') and is_int(rh, 1) for b, i, ev in lk.events()
        for l, h, rh in written_lvalues(ev))
    if ok:
        r.ok('dbus_message_lock:updates-lengths-then-locks')
    else:
        r.violation('dbus_message_lock:updates-lengths-then-locks', lk.name, MSG, lk.line,
                    'dbus_message_lock no longer updates the length words and sets locked')
    ul = prog.fn('_dbus_header_update_lengths', 'dbus/dbus-marshal-header.c')
    # the fields-array length is maintained by the type writer/reader on every header edit; the body length
    # is the one word that is only known at lock time
    if any(is_int(c['args'][1], 4) or estr(c['args'][1]) == 'BODY_LENGTH_OFFSET'
           for b, i, c in ul.calls('_dbus_marshal_set_uint32')):
        r.ok('_dbus_header_update_lengths:body-length-word')
    else:
        r.violation('_dbus_header_update_lengths:body-length-word', ul.name, ul.file, ul.line,
                    'the body length word (offset 4) is no longer written at lock time')
    # marshal: lock before copying the header out
    mm = prog.fn('dbus_message_marshal', MSG)

    def sinks(ev, ctx):
        if ev['ev'] == 'call' and ev['e'].get('callee') in ('_dbus_string_copy', '_dbus_string_copy_len') and \
                any(is_member(x, 'data', 'DBusHeader') or is_member(x, 'body', 'DBusMessage')
                    for x in walk(ev['e']['args'][0])):
            return 'copy-out(%s)' % estr(ev['e']['args'][0])[:30]
        return None

    def akey(atom, resolve):
        if atom[0] == 'truthy' and (is_ref(atom[1], 'was_locked') or is_member(atom[1], 'locked', 'DBusMessage')):
            return 'locked'
        return None
    n = [0]

    def on_event(user, ev, ctx):
        if ev['ev'] == 'call' and ev['e'].get('callee') == 'dbus_message_lock':
            return True
        lab = sinks(ev, ctx)
        if lab:
            n[0] += 1
            if not (user or ctx.atom('locked') is True):
                ctx.report('%s happens although the message may be unlocked (length words stale)' % lab,
                           ev['line'], key='unlocked-copy')
        return user
    ex = Explorer(mm, init=False, on_event=on_event, atom_key=akey, track='auto').run()
    if not n[0]:
        raise AnalysisBroken('dbus_message_marshal: copy-out sites not found')
    if ex.reports:
        r.from_reports(ex.reports, keyfn=lambda k, rep: 'dbus_message_marshal:%s' % k)
    else:
        r.ok('dbus_message_marshal:lock-before-copy')
    # sending: between queuing and the first chance to write, the message is locked
    sp = prog.fn('_dbus_connection_send_preallocated_unlocked_no_update', CONN)

    def on_event2(user, ev, ctx):
        if ev['ev'] == 'call':
            cal = ev['e'].get('callee')
            if cal == 'dbus_message_lock':
                return 'locked'
            if cal == '_dbus_list_prepend_link' and is_member(strip_addr(ev['e']['args'][0]) or {}, 'outgoing_messages'):
                return 'queued' if user != 'locked' else 'locked'
            if cal == '_dbus_connection_do_iteration_unlocked' and user == 'queued':
                ctx.report('the connection may start writing while the queued message is not locked yet',
                           ev['line'], key='write-before-lock')
        return user

    def on_exit2(user, ctx, ret, ev):
        if user == 'queued':
            ctx.report('returns with a message queued for sending but not locked', ev['line'] if ev else None,
                       key='exit-unlocked')
    ex2 = Explorer(sp, init='start', on_event=on_event2, on_exit=on_exit2, track='auto').run()
    if ex2.reports:
        r.from_reports(ex2.reports, keyfn=lambda k, rep: 'send_preallocated:%s' % k)
    else:
        r.ok('send_preallocated:lock-before-write')
    lib.who_calls(prog, r, '_dbus_message_get_network_data',
                  {'do_writing', '_dbus_transport_debug_pipe_do_writing'})
    gn = prog.fn('_dbus_message_get_network_data', MSG)
    if any(ev['ev'] == 'call' and ev['e'].get('callee') == '_dbus_real_assert'
           and any(is_member(x, 'locked', 'DBusMessage') for x in walk(ev['e']['args'][0]))
           for b, i, ev in gn.events()):
        r.ok('_dbus_message_get_network_data:asserts-locked')
    else:
        r.note('_dbus_message_get_network_data does not assert locked (informational)')


BODY_MUTATORS = {'_dbus_type_writer_write_basic', '_dbus_type_writer_write_fixed_multi', '_dbus_type_writer_recurse',
                 '_dbus_type_writer_unrecurse', '_dbus_header_set_field_basic', '_dbus_header_delete_field',
                 '_dbus_header_toggle_flag', 'set_or_delete_string_field', '_dbus_header_set_serial',
                 '_dbus_header_remove_unknown_fields'}


def c02_3(ck, prog):
    r = ck.rule('C02.3', 'no edit after lock: every public function that mutates header or body tests '
                '!message->locked (directly or through the iterator append check) first', 'DOM',
                breaks='a queued message changes under the writer: bytes on the wire disagree with the length '
                       'words', floor=12)
    n = 0
    for f in lib.prod_funcs(prog, {MSG}):
        if not f.exported or not f.name.startswith('dbus_message_'):
            continue
        if not any(c.get('callee') in BODY_MUTATORS for b, i, c in f.calls()):
            continue
        if f.name in ('dbus_message_lock',):
            continue
        chk = {c['id'] for b, i, c in f.calls('_dbus_message_iter_append_check')}

        def akey(atom, resolve):
            if atom[0] == 'truthy' and is_member(atom[1], 'locked', 'DBusMessage'):
                return 'locked'
            return None

        def on_event(user, ev, ctx, chk=chk, f=f):
            if ev['ev'] == 'call' and ev['e'].get('callee') in BODY_MUTATORS:
                if ctx.atom('locked') is not False and not any(ctx.result_known(c) is True for c in chk):
                    # dbus_message_set_serial is documented as allowed once (serial 0) on any message
                    ctx.report('%s is reached without the !message->locked precondition' % ev['e']['callee'],
                               ev['line'], key=ev['e']['callee'])
            return user
        ex = Explorer(f, on_event=on_event, atom_key=akey, track='auto', calls={'_dbus_message_iter_append_check'},
                      cap=300000).run()
        n += 1
        key = '%s:not-locked' % f.name
        if ex.reports:
            r.from_reports(ex.reports, keyfn=lambda k, rep, key=key: key + ':' + k)
        else:
            r.ok(key)
    if n < 12:
        raise AnalysisBroken('only %d public mutators found in dbus-message.c' % n)
    from rules.C12 import append_check_tests_locked
    append_check_tests_locked(prog, r)


BYTE_ORDER_ARG = {
    # callee: (index of the string argument, index of the byte-order argument)
    '_dbus_marshal_set_uint32': (0, 3), '_dbus_marshal_read_uint32': (0, 2), '_dbus_marshal_read_basic': (0, 4),
    '_dbus_marshal_set_basic': (0, 5), '_dbus_type_writer_init_values_only': (4, 1), '_dbus_type_reader_init': (4, 1),
    '_dbus_type_writer_init': (4, 1), '_dbus_marshal_byteswap': (4, 3),
}


def c02_5(ck, prog):
    r = ck.rule('C02.5', 'every marshalling call on a message\'s header or body is given that message\'s own byte '
                'order; failed header edits give back the reserved padding (shared with C12.1)', 'TAB',
                breaks='a message parsed in the other byte order is re-serialised with length words in host order; '
                       'a message marshals differently after a failed edit', floor=12)
    n = 0
    for fn in lib.prod_funcs(prog, {'dbus/dbus-marshal-header.c', MSG}):
        for b, i, c in fn.calls():
            spec = BYTE_ORDER_ARG.get(c.get('callee'))
            if spec is None or len(c['args']) <= max(spec):
                continue
            sarg = strip_addr(c['args'][spec[0]]) or c['args'][spec[0]]
            if not (is_member(sarg, 'data', 'DBusHeader') or is_member(sarg, 'body', 'DBusMessage')):
                continue
            bo = c['args'][spec[1]]
            n += 1
            key = '%s:%s@%d' % (fn.name, c['callee'], n)
            ok = is_call(bo, '_dbus_header_get_byte_order') or (is_ref(bo) and bo['name'] in ('byte_order', 'old_byte_order', 'new_byte_order'))
            if c['callee'] == '_dbus_marshal_byteswap':
                # (old order, new order): the old one is the order the bytes are in now -- the header's --,
                # the new one is something else (the compiler's order, or the caller's target order)
                oldo, newo = c['args'][2], c['args'][3]

                def from_header(e, fn=fn):
                    if is_call(e, '_dbus_header_get_byte_order'):
                        return True
                    if is_ref(e) and e.get('kind') == 'local':
                        ds = [rhs for b2, i2, ev in fn.events() for lhs, how, rhs in written_lvalues(ev)
                              if is_ref(lhs) and lhs.get('id') == e.get('id') and rhs is not None]
                        return bool(ds) and all(is_call(d, '_dbus_header_get_byte_order') for d in ds)
                    return False
                ok = from_header(oldo) and not from_header(newo)
                if not ok:
                    r.violation('%s:%s' % (fn.name, c['callee']), fn.name, fn.file, c['line'],
                                '_dbus_marshal_byteswap is told the bytes are in order %s and are to become %s; the '
                                'order they are in is the header\'s own byte order, which must be the OLD order: '
                                'lengths of strings and arrays are decoded with it before they are swapped' % (
                                    estr(oldo), estr(newo)))
                    continue
            if ok:
                r.ok('%s:%s' % (fn.name, c['callee']), {'byte_order': estr(bo)})
            else:
                r.violation('%s:%s' % (fn.name, c['callee']), fn.name, fn.file, c['line'],
                            '%s on the message\'s own bytes is given byte order %s instead of the header\'s byte '
                            'order' % (c['callee'], estr(bo)))
    if n < 10:
        raise AnalysisBroken('only %d marshalling calls on header/body found' % n)
    from rules.C12 import c12_1, c12_2, c12_5, c12_6
    save = ck.rule
    ck.rule = lambda *a, **k: r
    try:
        c12_1(ck, prog)
        c12_5(ck, prog)       # a built message names each header field with its table type
        c12_6(ck, prog)       # a failed edit of a message under construction leaves its bytes alone
        # getters of a message under construction read through the field-position cache: it must not
        # survive a header edit that moved bytes (shared with C12.2)
        c12_2(ck, prog)
    finally:
        ck.rule = save


def c02_6(ck, prog):
    from rules.C01 import c01_5b
    r6 = ck.rule('C02.6', 'byte-order conversion walks a body exactly as the validator does (shared with C01.5b): '
                 'one value in a variant, element-wise arrays aligned to their element type even when empty, all '
                 'struct members', 'TAB',
                 breaks='converting a message to the other byte order changes values that follow an empty array '
                        'or a container', floor=8)
    save = ck.rule
    ck.rule = lambda *a, **k: r6
    try:
        c01_5b(ck, prog)
    finally:
        ck.rule = save


def run(ck):
    ck.explanation = (
        'Static rules over dbus-marshal-basic.c, dbus-marshal-byteswap.c, dbus-marshal-validate.c, '
        'dbus-signature.c, dbus-message.c, dbus-connection.c: (TAB) the ten per-type switch statements of '
        'writer / reader / skipper / validator / byte-swapper agree with each other and the specification; (DOM) '
        'length words are written and the message locked before any byte can leave (marshal, send path); (DOM) '
        'every public mutator tests !locked first; (PAIR) the builder\'s signature bookkeeping is balanced on '
        'every exit.')
    ck.not_decided = ('round-trip equality of values; byte-identical re-serialisation; value preservation under '
                      'byte-order conversion and copy (functions of run-time values)')
    for v, prog in ck.programs(thorough_variants=('B', 'D')):
        c02_1(ck, prog)
        c02_2(ck, prog)
        c02_3(ck, prog)
        c02_5(ck, prog)
        c02_6(ck, prog)
        from rules import C16
        C16.c16_1(ck, prog, rid='C02.11', utf8_only=True)
        from rules.C14 import signature_pairing
        signature_pairing(ck, prog, rid='C02.4')
        from rules.C01 import c01_10
        c01_10(ck, prog, 'C02.8')
        from rules.C15 import c15_10
        c15_10(ck, prog, 'C02.9')
