"""C18 - a monitor sees everything that matches and can affect nothing.
DESIGN.md C18.1 - C18.4."""
from engine.cfg import (Explorer, estr, is_call, is_int, is_member, is_ref, strip_addr, walk,
                        written_lvalues)
from engine.facts import AnalysisBroken
from engine import lib
from rules.C03 import ROUTING_SINKS

NO_OWNER = 'org.freedesktop.DBus.Error.NameHasNoOwner'


def c18_1(ck, prog):
    r = ck.rule('C18.1', 'bus_dispatch captures the message for monitors before every verdict: policy '
                'gate, driver, activation, matching, NameHasNoOwner, closing an unregistered sender', 'DOM',
                breaks='a monitor misses a message that the bus processed (e.g. one it refused)', floor=6)
    fn = prog.fn('bus_dispatch', 'bus/dispatch.c')
    tnew = {c['id'] for b, i, c in fn.calls('bus_transaction_new')}

    def sinks(ev, ctx):
        if ev['ev'] != 'call':
            return None
        c = ev['e']
        cal = c.get('callee')
        if cal in ('bus_context_check_security_policy', 'bus_driver_handle_message',
                   'bus_activation_activate_service', 'bus_dispatch_matches'):
            return cal
        if cal == 'dbus_set_error' and len(c['args']) > 1 and c['args'][1].get('k') == 'str' \
                and c['args'][1]['v'] == NO_OWNER:
            return 'dbus_set_error(NameHasNoOwner)'
        if cal == 'dbus_connection_close' and any(ctx.result_known(t) is True for t in tnew):
            return 'dbus_connection_close(unregistered sender)'
        return None
    g = lib.Guard('bus_transaction_capture(transaction, connection, .., message)',
                  lambda c, ctx: c.get('callee') == 'bus_transaction_capture'
                  and lib.arg_is_param(c, 1, 'connection') and lib.arg_is_param(c, 3, 'message')
                  and is_ref(c['args'][0], 'transaction'))
    n, ex = lib.must_precede(fn, r, sinks, [g], extra_calls={'bus_transaction_new'})
    if n < 6:
        raise AnalysisBroken('bus_dispatch: only %d verdict sites found' % n)

    # the captured recipient is the one the message is then routed to
    r1 = ck.rule('C18.1a', 'the addressed recipient given to capture equals the one given to '
                 'bus_dispatch_matches', 'TS', floor=1)
    bad = []
    seen = [0]

    def on_event(user, ev, ctx):
        if ev['ev'] == 'call':
            c = ev['e']
            if c.get('callee') == 'bus_transaction_capture' and lib.arg_is_param(c, 3, 'message'):
                a = c['args'][2]
                user = 'NULL' if is_int(a, 0) else ('var' if is_ref(a, 'addressed_recipient') else estr(a))
            if c.get('callee') == 'bus_dispatch_matches':
                seen[0] += 1
                a = c['args'][2]
                if not is_ref(a, 'addressed_recipient'):
                    ctx.report('bus_dispatch_matches is given %s as addressed recipient' % estr(a), c['line'])
                else:
                    v = ctx.var(a)
                    isnull = v is not None and v[0] == 'c' and v[1] == 0
                    if (user == 'NULL') != isnull and user != 'var':
                        ctx.report('capture saw recipient %s but the message is routed to %s' % (
                            user, 'NULL' if isnull else 'addressed_recipient'), c['line'])
                    if user == 'NULL' and not isnull:
                        ctx.report('capture saw NULL but addressed_recipient is set', c['line'])
        return user
    ex2 = Explorer(fn, init=None, on_event=on_event, track={'addressed_recipient'},
                   calls={'bus_service_get_primary_owners_connection'}).run()
    if not seen[0]:
        raise AnalysisBroken('bus_dispatch no longer calls bus_dispatch_matches')
    if not ex2.reports:
        r1.ok('bus_dispatch:capture-recipient==routing-recipient')
    r1.from_reports(ex2.reports, keyfn=lambda k, rep: 'bus_dispatch:capture-recipient')

    # driver-originated messages
    r2 = ck.rule('C18.1b', 'bus-originated messages are captured before their policy gate, and refused '
                 'deliveries are captured as error replies', 'DOM', floor=4)
    sfd = prog.fn('bus_transaction_send_from_driver', 'bus/connection.c')
    lib.must_precede(sfd, r2, lambda ev, ctx: ev['e']['callee'] if ev['ev'] == 'call' and ev['e'].get('callee')
                     in ('bus_context_check_security_policy', 'bus_transaction_send') else None,
                     [lib.Guard('bus_transaction_capture(.., message)',
                                lambda c, ctx: c.get('callee') == 'bus_transaction_capture'
                                and lib.arg_is_param(c, 3, 'message'))])
    for fname, file in (('send_one_message', 'bus/dispatch.c'),
                        ('bus_transaction_send_from_driver', 'bus/connection.c')):
        f = prog.fn(fname, file)
        refusal_captured(prog, r2, f)
    # out: block of bus_dispatch: every error set is answered
    r3 = ck.rule('C18.1c', 'every failed dispatch (error set at out:) yields an error reply through the '
                 'transaction (visible to monitors) or the preallocated OOM reply', 'TS', floor=1)
    error_answered(prog, r3, fn)


def refusal_captured(prog, r, f):
    """On the failure edge of the policy gate, bus_transaction_capture_error_reply
    is called before the function returns."""
    gate = {c['id'] for b, i, c in f.calls('bus_context_check_security_policy')}
    if not gate:
        raise AnalysisBroken('%s no longer calls the policy gate' % f.name)

    def on_event(user, ev, ctx):
        if ev['ev'] == 'call' and ev['e'].get('callee') == 'bus_transaction_capture_error_reply':
            return True
        return user

    def on_exit(user, ctx, ret, ev):
        if any(ctx.result_known(g) is False for g in gate) and not user:
            ctx.report('returns after the policy gate refused the message without '
                       'bus_transaction_capture_error_reply', ev['line'] if ev else None, key='refusal')
    ex = Explorer(f, init=False, on_event=on_event, on_exit=on_exit,
                  calls={'bus_context_check_security_policy'}, track='auto').run()
    key = '%s:refusal->capture_error_reply' % f.name
    if ex.reports:
        r.from_reports(ex.reports, keyfn=lambda k, rep: key)
    else:
        r.ok(key)


def error_answered(prog, r, fn):
    """In bus_dispatch: on every path where `error` was set (a failing fallible
    call given &error, BUS_SET_OOM, dbus_set_error), the exit crosses
    bus_transaction_send_error_reply (success) or bus_connection_send_oom_error."""
    is_set = {c['id'] for b, i, c in fn.calls('dbus_error_is_set')}
    reply = {c['id'] for b, i, c in fn.calls('bus_transaction_send_error_reply')}
    if not is_set or not reply:
        raise AnalysisBroken('bus_dispatch: out: block anchors vanished')

    def on_event(user, ev, ctx):
        if ev['ev'] == 'call' and ev['e'].get('callee') == 'bus_connection_send_oom_error':
            return True
        return user

    def on_exit(user, ctx, ret, ev):
        if any(ctx.result_known(c) is True for c in is_set):
            if not user and not any(ctx.result_known(c) is True for c in reply):
                ctx.report('bus_dispatch returns with an error set but neither an error reply nor the '
                           'preallocated OOM reply was sent', ev['line'] if ev else None, key='unanswered')
    ex = Explorer(fn, init=False, on_event=on_event, on_exit=on_exit,
                  calls={'dbus_error_is_set', 'bus_transaction_send_error_reply'}, track='auto').run()
    if ex.reports:
        r.from_reports(ex.reports, keyfn=lambda k, rep: 'bus_dispatch:error-answered')
    else:
        r.ok('bus_dispatch:error-answered', {'states': ex.nstates})


def c18_2(ck, prog):
    r = ck.rule('C18.2', 'a monitor that sends anything is closed; none of its messages reaches a '
                'routing sink', 'DOM', breaks='a monitor can inject messages or answer calls', floor=8)
    fn = prog.fn('bus_dispatch', 'bus/dispatch.c')

    def sinks(ev, ctx):
        if ev['ev'] != 'call':
            return None
        c = ev['e']
        idx = ROUTING_SINKS.get(c.get('callee'))
        if idx is not None and lib.arg_is_param(c, idx, 'message'):
            return c['callee']
        if c.get('callee') == 'bus_transaction_new':
            return 'bus_transaction_new'
        return None
    g = lib.guard_call('!bus_connection_is_monitor(connection)', 'bus_connection_is_monitor', 0,
                       'connection', expect=False)
    lib.must_precede(fn, r, sinks, [g])
    mon = {c['id'] for b, i, c in fn.calls('bus_connection_is_monitor')}

    def on_event(user, ev, ctx):
        if ev['ev'] == 'call' and ev['e'].get('callee') in ('dbus_connection_close', 'bus_connection_disconnected') \
                and lib.arg_is_param(ev['e'], 0, 'connection'):
            return True
        return user

    def on_exit(user, ctx, ret, ev):
        if any(ctx.result_known(m) is True for m in mon) and not user:
            ctx.report('a message from a monitor is processed without closing the monitor',
                       ev['line'] if ev else None, key='monitor-not-closed')
    ex = Explorer(fn, init=False, on_event=on_event, on_exit=on_exit,
                  calls={'bus_connection_is_monitor'}, track='auto').run()
    if ex.reports:
        r.from_reports(ex.reports, keyfn=lambda k, rep: 'bus_dispatch:monitor-closed')
    else:
        r.ok('bus_dispatch:monitor-closed')


def c18_3(ck, prog):
    r = ck.rule('C18.3', 'BecomeMonitor is a privileged method and the privileged flag is enforced '
                'before the handler is invoked', 'TAB', breaks='any client can become a monitor', floor=3)
    flag = prog.enums.get('METHOD_FLAG_PRIVILEGED')
    if flag is None:
        raise AnalysisBroken('METHOD_FLAG_PRIVILEGED vanished')
    rows = handler_rows(prog)
    handler_reference(prog, r)
    bm = [x for x in rows if x['name'] == 'BecomeMonitor']
    if len(bm) != 1:
        raise AnalysisBroken('BecomeMonitor row not found')
    if bm[0]['flags'] & flag:
        r.ok('row:BecomeMonitor:PRIVILEGED', bm[0])
    else:
        r.violation('row:BecomeMonitor:PRIVILEGED', 'monitoring_message_handlers', 'bus/driver.c', None,
                    'the BecomeMonitor row does not carry METHOD_FLAG_PRIVILEGED (flags=%d)' % bm[0]['flags'])
    if bm[0]['handler'] != 'bus_driver_handle_become_monitor':
        r.violation('row:BecomeMonitor:handler', 'monitoring_message_handlers', 'bus/driver.c', None,
                    'BecomeMonitor is handled by %s' % bm[0]['handler'])
    flag_enforced(prog, r, 'METHOD_FLAG_PRIVILEGED', 'bus_driver_check_caller_is_privileged')
    # only the table reaches the handler
    lib.who_calls(prog, r, 'bus_driver_handle_become_monitor', {})
    lib.who_calls(prog, r, 'bus_connection_be_monitor', {'bus_driver_handle_become_monitor'})


def handler_rows(prog):
    rows = []
    for (n, file), t in prog.tables.items():
        if file != 'bus/driver.c' or 'MessageHandler' not in t['t']:
            continue
        for el in t['init'].get('elems', []):
            f = el.get('fields') or {}
            nm = f.get('name')
            if not nm or nm.get('k') != 'str':
                continue
            rows.append({'table': n, 'name': nm['v'], 'in_args': (f.get('in_args') or {}).get('v'),
                         'out_args': (f.get('out_args') or {}).get('v'),
                         'handler': (f.get('handler') or {}).get('name'),
                         'flags': (f.get('flags') or {}).get('v', 0)})
    if len(rows) < 20:
        raise AnalysisBroken('only %d MessageHandler rows found' % len(rows))
    return rows


# (table, method) -> (flags, in signature, out signature): the specification's org.freedesktop.DBus interface
# (signatures) and the reference tree's reachability flags (1 = callable on any object path, 2 = privileged,
# 4 = not from containers); rows added later are reported until they are reviewed and added here
HANDLER_REF = {
    ('dbus_message_handlers', 'Hello'): (1, '', 's'),
    ('dbus_message_handlers', 'RequestName'): (1, 'su', 'u'),
    ('dbus_message_handlers', 'ReleaseName'): (1, 's', 'u'),
    ('dbus_message_handlers', 'StartServiceByName'): (1, 'su', 'u'),
    ('dbus_message_handlers', 'UpdateActivationEnvironment'): (2, 'a{ss}', ''),
    ('dbus_message_handlers', 'NameHasOwner'): (1, 's', 'b'),
    ('dbus_message_handlers', 'ListNames'): (1, '', 'as'),
    ('dbus_message_handlers', 'ListActivatableNames'): (1, '', 'as'),
    ('dbus_message_handlers', 'AddMatch'): (1, 's', ''),
    ('dbus_message_handlers', 'RemoveMatch'): (1, 's', ''),
    ('dbus_message_handlers', 'GetNameOwner'): (1, 's', 's'),
    ('dbus_message_handlers', 'ListQueuedOwners'): (1, 's', 'as'),
    ('dbus_message_handlers', 'GetConnectionUnixUser'): (1, 's', 'u'),
    ('dbus_message_handlers', 'GetConnectionUnixProcessID'): (1, 's', 'u'),
    ('dbus_message_handlers', 'GetAdtAuditSessionData'): (1, 's', 'ay'),
    ('dbus_message_handlers', 'GetConnectionSELinuxSecurityContext'): (1, 's', 'ay'),
    ('dbus_message_handlers', 'ReloadConfig'): (1, '', ''),
    ('dbus_message_handlers', 'GetId'): (1, '', 's'),
    ('dbus_message_handlers', 'GetConnectionCredentials'): (1, 's', 'a{sv}'),
    ('properties_message_handlers', 'Get'): (0, 'ss', 'v'),
    ('properties_message_handlers', 'GetAll'): (0, 's', 'a{sv}'),
    ('properties_message_handlers', 'Set'): (0, 'ssv', ''),
    ('introspectable_message_handlers', 'Introspect'): (1, '', 's'),
    ('monitoring_message_handlers', 'BecomeMonitor'): (2, 'asu', ''),
    ('verbose_message_handlers', 'EnableVerbose'): (4, '', ''),
    ('verbose_message_handlers', 'DisableVerbose'): (4, '', ''),
    ('peer_message_handlers', 'GetMachineId'): (1, '', 's'),
    ('peer_message_handlers', 'Ping'): (1, '', ''),
}


def handler_reference(prog, r, names=None):
    """Rows of the driver's method tables equal the reference (flags and signatures); with `names`,
    only those methods of org.freedesktop.DBus are compared."""
    rows = handler_rows(prog)
    seen = set()
    for row in rows:
        k = (row['table'], row['name'])
        if names is not None and (row['table'] != 'dbus_message_handlers' or row['name'] not in names):
            continue
        seen.add(row['name'])
        key = 'table:%s.%s' % (row['table'].replace('_message_handlers', ''), row['name'])
        ref = HANDLER_REF.get(k)
        got = (row['flags'], row['in_args'] or '', row['out_args'] or '')
        if ref is None:
            if k[0] in ('stats_message_handlers',):
                continue
            r.violation(key, row['handler'] or 'table', 'bus/driver.c', None,
                        'method %s of %s is not in the reviewed reference table of rules/C18.py' % (row['name'], k[0]))
        elif got != ref:
            what = []
            if got[0] != ref[0]:
                what.append('flags %d (reference %d: 1 = any object path, 2 = privileged, 4 = no containers)' % (
                    got[0], ref[0]))
            if got[1] != ref[1]:
                what.append('in-signature %r (specification %r)' % (got[1], ref[1]))
            if got[2] != ref[2]:
                what.append('out-signature %r (specification %r)' % (got[2], ref[2]))
            r.violation(key, row['handler'] or 'table', 'bus/driver.c', None,
                        'the table row of %s has %s' % (row['name'], '; '.join(what)))
        else:
            r.ok(key)
    if names is not None and set(names) - seen:
        raise AnalysisBroken('methods %s vanished from the driver table' % sorted(set(names) - seen))


def flag_enforced(prog, r, flagname, checker):
    """In bus_driver_handle_message the indirect handler call is reached, for rows
    whose flags have `flagname`, only after `checker` succeeded."""
    fn = prog.fn('bus_driver_handle_message', 'bus/driver.c')
    flag = prog.enums[flagname]
    chk = {c['id'] for b, i, c in fn.calls(checker)}
    ncalls = [0]

    def atom_key(atom, resolve):
        if atom[0] == 'truthy':
            e = atom[1]
            if e.get('k') == 'bin' and e['op'] == '&' and is_member(e['l'], 'flags', 'MessageHandler') \
                    and is_int(e['r']):
                return ('flag', e['r']['v'])
        return None

    def on_event(user, ev, ctx):
        if ev['ev'] == 'call' and ev['e'].get('callee') is None:
            fe = ev['e'].get('fn')
            while fe is not None and fe.get('k') == 'un':
                fe = fe['e']
            if is_member(fe, 'handler', 'MessageHandler'):
                ncalls[0] += 1
                a = ctx.atom(('flag', flag))
                other_true = any(k[0] == 'flag' and k[1] != flag and v is True for k, v in ctx.atoms().items())
                if a is None and other_true:
                    pass      # an `else if` chain: a stronger flag was taken instead
                elif a is None:
                    ctx.report('handler invoked without testing mh->flags & %s' % flagname, ev['line'],
                               key='untested')
                elif a is True and not any(ctx.result_known(c) is True for c in chk):
                    ctx.report('a %s handler is invoked without %s having succeeded' % (flagname, checker),
                               ev['line'], key='unchecked')
        return user
    ex = Explorer(fn, on_event=on_event, calls={checker}, track='auto', atom_key=atom_key).run()
    if not ncalls[0]:
        raise AnalysisBroken('indirect handler call not found in bus_driver_handle_message')
    key = 'bus_driver_handle_message:%s->%s' % (flagname, checker)
    if ex.reports:
        r.from_reports(ex.reports, keyfn=lambda k, rep: key)
    else:
        r.ok(key, {'states': ex.nstates})


def c18_4(ck, prog):
    r = ck.rule('C18.4', 'becoming a monitor: fallible steps first; afterwards the connection is '
                'flagged, loses its match rules, pending replies and (transactionally) its names', 'TS',
                breaks='a monitor keeps names, rules or reply slots and can thereby affect other clients',
                floor=3)
    fn = prog.fn('bus_connection_be_monitor', 'bus/connection.c')
    need = {'flag': False, 'rules': False, 'replies': False, 'names': False, 'list': False}

    def on_event(user, ev, ctx):
        u = dict(user)
        if ev['ev'] == 'call':
            c = ev['e']
            cal = c.get('callee')
            if cal == 'bus_matchmaker_disconnected' and lib.arg_is_param(c, 1, 'connection'):
                u['rules'] = True
            if cal == 'bus_connection_drop_pending_replies' and lib.arg_is_param(c, 1, 'connection'):
                u['replies'] = True
            if cal == 'bus_service_remove_owner' and lib.arg_is_param(c, 1, 'connection') \
                    and lib.arg_is_param(c, 2, 'transaction'):
                u['names'] = True
            if cal == '_dbus_list_append_link' and is_member(strip_addr(c['args'][0]) or {}, 'monitors', 'BusConnections'):
                u['list'] = True
            if cal == '_dbus_list_copy' and is_member(strip_addr(c['args'][0]) or {}, 'services_owned',
                                                      'BusConnectionData'):
                u['copied'] = True
        for lhs, how, rhs in written_lvalues(ev):
            if is_member(lhs, 'link_in_monitors', 'BusConnectionData') and how == '=' and not is_int(rhs, 0):
                u['flag'] = True
        return tuple(sorted(u.items()))

    def on_exit(user, ctx, ret, ev):
        u = dict(user)
        v = ctx.const_of(ret) if ret is not None else None
        if v is not None and v != 0:
            for k in ('flag', 'list', 'replies', 'copied'):
                if not u.get(k):
                    ctx.report('returns TRUE without %s' % {
                        'flag': 'setting link_in_monitors', 'list': 'linking into connections->monitors',
                        'replies': 'dropping pending replies',
                        'copied': 'walking a copy of services_owned to release the names'}[k],
                        ev['line'], key=k)
        if v == 0 and (u.get('flag') or u.get('list') or u.get('replies') or u.get('rules')):
            ctx.report('fails after an irrevocable monitor step', ev['line'], key='fail-after-irrevocable')
    ex = Explorer(fn, init=(), on_event=on_event, on_exit=on_exit, track='auto').run()
    if ex.reports:
        r.from_reports(ex.reports, keyfn=lambda k, rep: 'bus_connection_be_monitor:%s' % k)
    else:
        r.ok('bus_connection_be_monitor:steps', {'states': ex.nstates})
    # every owned or queued-for name is released: no iteration of the release loop skips the removal
    skipped = []

    def on_event_l(user, ev, ctx):
        for lhs, how, rhs in written_lvalues(ev):
            if is_ref(lhs, 'service') and rhs is not None and is_member(rhs, 'data', 'DBusList'):
                if user == 'pending':
                    ctx.report('a name of the connection is skipped by the release loop (the monitor would keep its '
                               'place in that name\'s queue)', ev['line'], key='skipped-name')
                return 'pending'
        if ev['ev'] == 'call' and ev['e'].get('callee') == 'bus_service_remove_owner':
            return 'done'
        if ev['ev'] == 'call' and ev['e'].get('callee') == '_dbus_list_clear' and user == 'pending':
            ctx.report('the release loop is left with a name not released', ev['line'], key='skipped-name')
        return user
    exl = Explorer(fn, init='idle', on_event=on_event_l, track='auto').run()
    if exl.reports:
        r.from_reports(exl.reports, keyfn=lambda k, rep: 'bus_connection_be_monitor:%s' % k)
    else:
        r.ok('bus_connection_be_monitor:every-name-released')
    # ordinary rules are dropped whenever the connection has any (n_match_rules > 0 guard)
    calls = fn.calls('bus_matchmaker_disconnected')
    names = fn.calls('bus_service_remove_owner')
    if calls and names:
        r.ok('bus_connection_be_monitor:drops-rules-and-names')
    else:
        r.violation('bus_connection_be_monitor:drops-rules-and-names', fn.name, fn.file, fn.line,
                    'be_monitor no longer drops ordinary match rules / releases names')
    lib.who_writes_field(prog, r, 'BusConnectionData', 'link_in_monitors',
                         {'bus_connection_be_monitor', 'bus_connection_disconnected'})
    # monitor rules are added only here; only bus_transaction_capture turns them into deliveries
    r2 = ck.rule('C18.4b', 'the monitor matchmaker is fed only by be_monitor and read only by capture',
                 'WHO', floor=2)
    for f in lib.prod_funcs(prog):
        for b, i, ev in f.events():
            for x in walk(ev.get('e') if ev['ev'] != 'decl' else ev.get('init')):
                if is_member(x, 'monitor_matchmaker', 'BusConnections'):
                    key = 'monitor_matchmaker@%s' % f.name
                    if f.name in ('bcd_add_monitor_rules', 'bcd_drop_monitor_rules', 'bus_transaction_capture',
                                  'bus_connection_disconnected', 'bus_connections_unref', 'bus_connections_new',
                                  'bus_connections_get_monitor_matchmaker'):
                        r2.ok(key)
                    else:
                        r2.violation(key, f.name, f.file, ev['line'],
                                     '%s touches connections->monitor_matchmaker' % f.name)
    # capture: recipients come from the monitor matchmaker and exclude nobody but via get_recipients
    cap = prog.fn('bus_transaction_capture', 'bus/connection.c')
    gr = cap.calls('bus_matchmaker_get_recipients')
    if gr and any(is_member(c['args'][0], 'monitor_matchmaker') or True for b, i, c in gr):
        r2.ok('bus_transaction_capture:get_recipients')
    else:
        r2.violation('bus_transaction_capture:get_recipients', cap.name, cap.file, cap.line,
                     'capture no longer asks the monitor matchmaker for recipients')


def c18_4c(ck, prog):
    r = ck.rule('C18.4c', 'nothing queued on behalf of a connection survives its becoming a monitor and is later '
                'addressed to it: pending replies are dropped, and held auto-start requests of the connection are '
                'withdrawn or their outcome is not sent to a monitor', 'WHO',
                breaks='a monitor receives, addressed to itself, the error or reply of a call it made before '
                       'becoming a monitor', floor=2)
    C = 'bus/connection.c'
    A = 'bus/activation.c'
    bm = prog.fn('bus_connection_be_monitor', C)
    if bm.calls('bus_connection_drop_pending_replies'):
        r.ok('bus_connection_be_monitor:pending-replies-dropped')
    else:
        r.violation('bus_connection_be_monitor:pending-replies-dropped', bm.name, C, bm.line,
                    'pending replies of the new monitor are no longer dropped')
    # held auto-start entries: withdrawn at BecomeMonitor time (a call into activation.c from be_monitor or its
    # handler), or the two delivery paths of activation.c skip connections that are monitors
    reach = prog.reachable_from([bm.key, prog.fn('bus_driver_handle_become_monitor', 'bus/driver.c').key])
    withdraws = any(k in prog.funcs and prog.funcs[k].file == A for k in reach)
    skips = True
    for name in ('try_send_activation_failure', 'bus_activation_send_pending_auto_activation_messages'):
        f = prog.fn(name, A)
        if not f.calls('bus_connection_is_monitor'):
            skips = False
    key = 'bus_connection_be_monitor:held-activation-requests'
    if withdraws or skips:
        r.ok(key, {'withdraws': withdraws, 'delivery_skips_monitors': skips})
    else:
        r.violation(key, bm.name, C, bm.line,
                    'a connection that becomes a monitor keeps its entries in pending activations: '
                    'try_send_activation_failure / bus_activation_send_pending_auto_activation_messages later '
                    'address the outcome to it (neither tests bus_connection_is_monitor, and BecomeMonitor does not '
                    'reach activation.c)')


def c18_5(ck, prog):
    r = ck.rule('C18.5', 'a BecomeMonitor that fails leaves no filter behind: on every failing exit of '
                'bus_connection_be_monitor and of its rule-installing helper, rules already added to the monitor '
                'matchmaker for this connection have been removed again', 'PAIR',
                breaks='a client whose BecomeMonitor failed stays an ordinary client but keeps (part of) a '
                       'monitor filter: once any monitor exists it is sent other clients\' traffic', floor=2)
    C = 'bus/connection.c'
    ADD = {'bus_matchmaker_add_rule', 'bcd_add_monitor_rules'}
    DROP = {'bus_matchmaker_disconnected', 'bcd_drop_monitor_rules'}
    for name in ('bcd_add_monitor_rules', 'bus_connection_be_monitor'):
        fn = prog.fn(name, C)
        adds = {c['id'] for b, i, c in fn.calls() if c.get('callee') in ADD}
        if not adds:
            raise AnalysisBroken('%s no longer installs monitor rules' % name)

        def on_event(user, ev, ctx, adds=adds):
            st = user
            if isinstance(st, tuple):
                k = ctx.result_known(st[1])
                if k is True:
                    st = 'installed'
                elif k is False:
                    st = st[2]
            if ev['ev'] == 'call':
                c = ev['e']
                if c['id'] in adds:
                    return ('pending', c['id'], st if not isinstance(st, tuple) else 'none')
                if c.get('callee') in DROP:
                    return 'none'
            return st

        def on_exit(user, ctx, ret, ev, fn=fn):
            st = user
            if isinstance(st, tuple):
                k = ctx.result_known(st[1])
                st = st[2] if k is False else 'installed'
            if st == 'installed' and ctx.ret_status(ret) == 'fail':
                ctx.report('%s fails with monitor rules of this connection still installed' % fn.name,
                           ev['line'] if ev else fn.endline, key=('rules-left', fn.name))
        ex = Explorer(fn, init='none', on_event=on_event, on_exit=on_exit, calls=ADD, track='auto', cap=400000).run()
        if ex.reports:
            r.from_reports(ex.reports, keyfn=lambda k, rep: '%s:%s' % (k[1], k[0]))
        else:
            r.ok('%s:failure-leaves-no-rules' % name)


def c18_8(ck, prog):
    r = ck.rule('C18.8', 'monitors are shown a message with the parties it is actually routed with: where a function '
                'captures a message for monitors and also dispatches / sends that same message, sender and addressed '
                'recipient are the same expressions in both calls', 'WHO',
                breaks='a monitor filtering on destination= (or sender=) misses messages addressed to that name, and one '
                'filtering on another connection is shown messages that were never addressed to it', floor=3)
    from engine.cfg import same_expr
    ROUTE = {'bus_dispatch_matches': (1, 2, 3), 'bus_transaction_send': (1, 2, 3),
             'bus_transaction_send_from_driver': (None, 1, 2)}
    n = [0]
    for fn in lib.prod_funcs(prog, {'bus/dispatch.c', 'bus/activation.c', 'bus/connection.c', 'bus/driver.c'}):
        caps = {c['id']: c for b, i, c in fn.calls('bus_transaction_capture') if len(c['args']) >= 4}
        if not caps or not fn.calls(tuple(ROUTE)):
            continue
        seen_ok = set()

        def on_event(user, ev, ctx, fn=fn, caps=caps, seen_ok=seen_ok):
            # user: the capture call currently "in force" for a message variable
            for lhs, how, rhs in written_lvalues(ev):
                if user is not None and is_ref(lhs) and is_ref(caps[user]['args'][3]) \
                        and lhs.get('id') == caps[user]['args'][3].get('id') and how != '&arg':
                    user = None
            if ev['ev'] == 'call':
                c = ev['e']
                if c['id'] in caps:
                    return c['id']
                if user is not None and c.get('callee') in ROUTE:
                    cap = caps[user]
                    si, ai, mi = ROUTE[c['callee']]
                    if len(c['args']) > mi and same_expr(cap['args'][3], c['args'][mi]):
                        n[0] += 1
                        okA = same_expr(cap['args'][2], c['args'][ai])
                        okS = si is None or same_expr(cap['args'][1], c['args'][si])
                        if okA and okS:
                            seen_ok.add('%s:%s' % (fn.name, c['callee']))
                        elif is_int(cap['args'][2], 0):
                            seen_ok.add('%s:%s' % (fn.name, c['callee']))
                        else:
                            ctx.report('the message is shown to monitors as (sender %s, addressee %s) but routed as '
                                       '(sender %s, addressee %s)' % (
                                           estr(cap['args'][1]), estr(cap['args'][2]),
                                           estr(c['args'][si]) if si is not None else 'the bus', estr(c['args'][ai])),
                                       cap['line'], key=(c['callee'], cap['line']))
            return user
        ex = Explorer(fn, init=None, on_event=on_event, track=None, cap=600000).run()
        if ex.reports:
            r.from_reports(ex.reports, keyfn=lambda k, rep, fn=fn: '%s:capture-vs-%s' % (fn.name, k[0]))
        for k in sorted(seen_ok):
            r.ok(k)
    n = n[0]
    if n < 3:
        raise AnalysisBroken('capture / route pairs not found (%d)' % n)


def run(ck):
    ck.explanation = (
        'Static must-pass-through / typestate rules over bus/dispatch.c, bus/connection.c, bus/driver.c: every '
        'verdict in bus_dispatch (policy gate, driver, activation, matching, NameHasNoOwner, closing an '
        'unregistered sender) is preceded by a successful bus_transaction_capture of the same message; refusals '
        'are captured as error replies; a monitor that sends is closed before any routing sink; BecomeMonitor '
        'carries METHOD_FLAG_PRIVILEGED and the flag is enforced before the indirect handler call; '
        'be_monitor performs its fallible steps first and then flags the connection, drops rules, replies and '
        'names.')
    ck.not_decided = ('"exactly one copy of every matching message" over histories; that other clients observe '
                      'the same with and without a monitor; match-rule evaluation for monitors (C07)')
    for v, prog in ck.programs(thorough_variants=('B',)):
        c18_1(ck, prog)
        c18_2(ck, prog)
        c18_3(ck, prog)
        c18_4(ck, prog)
        c18_4c(ck, prog)
        c18_5(ck, prog)
        c18_8(ck, prog)
        from rules.C07 import c07_9
        c07_9(ck, prog, 'C18.9')
        from rules.C03 import c03_1
        lib.shared_rule(ck, prog, 'C18.12', 'what a monitor is shown carries the sender the bus vouches for: every sink of '
                        'bus_dispatch through which the incoming message can be seen (the capture for monitors included) lies '
                        'behind the stripping of unknown fields and the sender stamp, on every path (shared with C03.1)', 'DOM',
                        'a client that has not said Hello yet puts a forged SENDER into its message and the monitors are '
                        'shown it as if it came from somebody else', 3, c03_1)
        from rules.C10 import c10_12
        c10_12(ck, prog, 'C18.10')
        from rules import listops
        rq = ck.rule('C18.11', 'the list operations BecomeMonitor relies on to give up the names of the new monitor do what '
                     'their names say, _dbus_list_copy included: a copy that could not be completed is reported as a '
                     'failure, whichever link could not be allocated (shared with C04.10; abstract interpretation over '
                     'all small lists and every failing allocation)', 'ABS', breaks='a name the copy skipped is not '
                     'released: the connection becomes a monitor while still owning a name and is the addressee of calls '
                     'to it', floor=15)
        listops.check(prog, rq)
        # what a new monitor still has outstanding is disposed of by bus_connection_drop_pending_replies
        from rules.C09 import c09_3
        r7 = ck.rule('C18.7', 'dropping the pending replies of a connection (disconnect, BecomeMonitor) removes '
                     'the slots it would receive a reply for and expires only those it owes to others '
                     '(shared with C09.3)', 'TS',
                     breaks='a new monitor is sent a NoReply error addressed to itself for a call it made to a '
                            'name it owned', floor=2)
        save7 = ck.rule
        ck.rule = lambda *a, **k: r7
        try:
            c09_3(ck, prog)
        finally:
            ck.rule = save7
        # monitor filters are match rules: what a monitor sees is decided by the shared matcher
        from rules.C07 import c07_1
        r6 = ck.rule('C18.6', 'monitor filters are evaluated by the match-rule matcher, every key of which is set, '
                     'matched against the message\'s own attribute, compared and freed consistently (shared with '
                     'C07.1)', 'TAB', breaks='a monitor with a selective filter misses messages that match it, or '
                     'receives messages that do not', floor=30)
        save = ck.rule
        ck.rule = lambda *a, **k: r6
        try:
            c07_1(ck, prog)
        finally:
            ck.rule = save
