"""C19 - auto-started services get held messages once, in order, or callers get errors.
DESIGN.md C19.1 - C19.4 (structural clauses)."""
from engine.cfg import (Explorer, estr, is_call, is_int, is_member, is_ref, strip_addr, walk,
                        written_lvalues, event_expr)
from engine.facts import AnalysisBroken
from engine import lib

H = 'bus/activation-helper.c'
A = 'bus/activation.c'
STRING_EQUALITY = {'strcmp'}      # reviewed whole-string equality; strncmp & co. are prefix tests


def only(callee, pred=None):
    def m(ev, ctx):
        if ev['ev'] == 'call' and ev['e'].get('callee') == callee and (pred is None or pred(ev['e'])):
            return callee
        return None
    return m


def c19_1(ck, prog):
    r = ck.rule('C19.1', 'the activation helper executes a program only after: environment cleared, bus name '
                'syntactically valid, system configuration loaded, running as the bus user, a service file found, '
                'its Name equal (whole string) to the requested name, Exec and User present, user switched',
                'DOM', breaks='the setuid helper runs a program for a name its service file does not declare, or '
                'as the wrong user', floor=10)
    lib.who_calls(prog, r, 'execv', {'exec_for_correct_user'}, files={H})
    lib.who_calls(prog, r, 'exec_for_correct_user', {'launch_bus_name'})
    lib.who_calls(prog, r, 'launch_bus_name', {'run_launch_helper'})
    g = lambda name, extra=None, expect=True: lib.Guard(name, (lambda c, ctx: c.get('callee') == name
                                                               and (extra is None or extra(c))), expect=expect)
    run = prog.fn('run_launch_helper', H)
    lib.must_precede(run, r, only('launch_bus_name', lambda c: lib.arg_is_param(c, 0, 'bus_name')), [
        g('clear_environment'), g('check_bus_name', lambda c: lib.arg_is_param(c, 0, 'bus_name')),
        g('get_correct_parser'), g('check_dbus_user')])
    lb = prog.fn('launch_bus_name', H)
    lib.must_precede(lb, r, only('exec_for_correct_user', lambda c: is_ref(c['args'][0], 'exec') and is_ref(c['args'][1], 'user')), [
        g('desktop_file_for_name', lambda c: lib.arg_is_param(c, 1, 'bus_name')),
        g('get_parameters_for_service', lambda c: is_ref(c['args'][0], 'desktop_file') and lib.arg_is_param(c, 1, 'bus_name')
          and is_ref(strip_addr(c['args'][2]) or {}, 'exec') and is_ref(strip_addr(c['args'][3]) or {}, 'user'))])
    gp = prog.fn('get_parameters_for_service', H)

    def store(ev, ctx):
        for lhs, how, rhs in written_lvalues(ev):
            if lhs.get('k') == 'un' and lhs['op'] == '*' and is_ref(lhs['e']) and lhs['e']['name'] in ('exec', 'user'):
                return '*%s = ...' % lhs['e']['name']
        return None

    def getstr(key):
        return lambda c: c.get('callee') == 'bus_desktop_file_get_string' and c['args'][2].get('k') == 'str' \
            and c['args'][2]['v'] == key
    lib.must_precede(gp, r, store, [
        g('check_service_name', lambda c: lib.arg_is_param(c, 0, 'desktop_file') and lib.arg_is_param(c, 1, 'service_name')),
        lib.Guard('get_string(Exec)', lambda c, ctx: getstr('Exec')(c)),
        lib.Guard('get_string(User)', lambda c, ctx: getstr('User')(c))])
    # check_service_name: TRUE only when Name was read and equals the requested name, whole string
    cs = prog.fn('check_service_name', H)
    # the requested name is the second parameter; the declared name is whatever local receives the Name key
    req_id = cs.params[1]['id'] if len(cs.params) > 1 else None
    decl_ids = set()
    for b, i, c in cs.calls('bus_desktop_file_get_string'):
        if c['args'][2].get('k') == 'str' and c['args'][2]['v'] == 'Name':
            out = strip_addr(c['args'][3])
            if out is not None and is_ref(out):
                decl_ids.add(out.get('id'))
    cmps = [c for b, i, c in cs.calls() if any(is_ref(a) and a.get('id') == req_id for a in c['args'])
            and any(is_ref(a) and a.get('id') in decl_ids for a in c['args'])]
    for c in cmps:
        if c.get('callee') not in STRING_EQUALITY:
            r.violation('check_service_name:comparator', cs.name, H, c['line'],
                        'the requested name is compared with the file\'s Name by %s, which is not a whole-string '
                        'equality test (%s)' % (c.get('callee'), ', '.join(sorted(STRING_EQUALITY))))
    name_get = {c['id'] for b, i, c in cs.calls('bus_desktop_file_get_string')
                if c['args'][2].get('k') == 'str' and c['args'][2]['v'] == 'Name'}
    cmp_ids = {c['id'] for c in cmps if c.get('callee') in STRING_EQUALITY and len(c['args']) == 2}

    def on_exit(user, ctx, ret, ev):
        if ctx.ret_status(ret) in ('ok', 'unknown'):
            if not any(ctx.result_known(i) is True for i in name_get):
                ctx.report('returns TRUE without having read the Name key', ev['line'], key='noname')
            if not any(ctx.result_known(i) is False for i in cmp_ids):
                ctx.report('returns TRUE without strcmp (service_name, Name) == 0', ev['line'], key='noequal')
    ex = Explorer(cs, on_exit=on_exit, calls={'bus_desktop_file_get_string'} | STRING_EQUALITY, track='auto').run()
    if ex.reports:
        r.from_reports(ex.reports, keyfn=lambda k, rep: 'check_service_name:%s' % k)
    elif cmp_ids:
        r.ok('check_service_name:whole-name-equality')
    if not cmp_ids and not any(v['instance'] == 'check_service_name:comparator' for v in r.violations):
        r.violation('check_service_name:comparator', cs.name, H, cs.line, 'no comparison of service_name with Name found')
    # the reviewed comparators really are whole-string equality
    lib.whole_string_equality(prog, r)
    ex_fn = prog.fn('exec_for_correct_user', H)
    lib.must_precede(ex_fn, r, only('execv'), [g('switch_user', lambda c: lib.arg_is_param(c, 0, 'user'))])
    cb = prog.fn('check_bus_name', H)
    ok = any(is_int(c['args'][1], 0) and is_call(c['args'][2], '_dbus_string_get_length')
             for b, i, c in cb.calls('_dbus_validate_bus_name'))
    (r.ok('check_bus_name:whole-string') if ok else
     r.violation('check_bus_name:whole-string', cb.name, H, cb.line, 'bus name not validated as a whole'))
    # key names
    for macro, val in (('DBUS_SERVICE_NAME', 'Name'), ('DBUS_SERVICE_EXEC', 'Exec'), ('DBUS_SERVICE_USER', 'User')):
        pass


def c19_2(ck, prog):
    r = ck.rule('C19.2', 'a service is started at most once per pending activation: a request that finds a pending '
                'activation only appends its message to that activation\'s queue', 'DOM',
                breaks='one auto-start burst spawns the service several times', floor=2)
    fn = prog.fn('bus_activation_activate_service', A)
    spawn = {'_dbus_spawn_async_with_babysitter'}

    def on_event(user, ev, ctx):
        if ev['ev'] == 'call':
            c = ev['e']
            if c.get('callee') in spawn or (c.get('callee') == 'bus_activation_activate_service'):
                t = None
                for k, v in ctx.env.items():
                    if k[0] == 'v' and ctx.ex.tracked.get(k[1]) == 'was_pending_activation':
                        t = v
                if t is None or not (t[0] == 'c' and t[1] == 0):
                    # value of was_pending_activation is derived from a comparison: use the atom
                    if ctx.atom('was_pending') is not False:
                        ctx.report('%s is reachable although an activation of this name was already pending'
                                   % c.get('callee'), c['line'], key=('respawn', c.get('callee')))
        return user

    def akey(atom, resolve):
        if atom[0] == 'truthy' and is_ref(atom[1], 'was_pending_activation'):
            return 'was_pending'
        return None
    ex = Explorer(fn, on_event=on_event, atom_key=akey, track=None, cap=600000).run()
    if not fn.calls(tuple(spawn)):
        raise AnalysisBroken('activate_service no longer spawns')
    if ex.reports:
        r.from_reports(ex.reports, keyfn=lambda k, rep: 'activate_service:%s' % '/'.join(k))
    else:
        r.ok('activate_service:spawn-only-when-not-pending')
    # one start mechanism per activation: a request handed to systemd is not also spawned directly
    handed = [0]

    def on_event2(user, ev, ctx):
        if ev['ev'] == 'call':
            c = ev['e']
            if c.get('callee') == 'dbus_message_new_signal' and len(c['args']) > 2 and \
                    c['args'][2].get('k') == 'str' and c['args'][2].get('v') == 'ActivationRequest':
                handed[0] += 1
                return ('req', c['id'])
            if c.get('callee') in spawn and user is not None:
                if ctx.result_known(user[1]) is not False:
                    ctx.report('the service is spawned directly on a path that already asked systemd to start it '
                               '(ActivationRequest created at line %d)' % ctx.ex.id2call[user[1]]['line'], c['line'],
                               key=('double-start',))
        return user
    ex2 = Explorer(fn, init=None, on_event=on_event2, calls={'dbus_message_new_signal'}, track='auto',
                   cap=900000).run()
    if handed[0]:
        if ex2.reports:
            r.from_reports(ex2.reports, keyfn=lambda k, rep: 'activate_service:%s' % '/'.join(k))
        else:
            r.ok('activate_service:systemd-handoff-excludes-direct-spawn')
    # the pending branch appends to the existing queue
    okq = any(is_member(strip_addr(c['args'][0]) or {}, 'entries', 'BusPendingActivation')
              for b, i, c in fn.calls('_dbus_list_append'))
    (r.ok('activate_service:append-to-pending-queue') if okq else
     r.violation('activate_service:append-to-pending-queue', fn.name, A, fn.line,
                 'held messages are no longer appended to pending_activation->entries'))
    from engine.cfg import norm_cond
    conds, others = lib.bool_definitions(fn, 'was_pending_activation')
    for cexpr, line in conds:
        atom, sense = norm_cond(cexpr)
        if atom is not None and atom[0] == 'truthy' and is_ref(atom[1], 'pending_activation') and sense is True:
            r.ok('activate_service:was_pending-definition')
        else:
            r.violation('activate_service:was_pending-definition', fn.name, A, line,
                        'was_pending_activation is computed as %s, not as "a pending activation exists"' % estr(cexpr))
    for rhs, line in others:
        r.violation('activate_service:was_pending-definition', fn.name, A, line,
                    'was_pending_activation is computed as %s' % estr(rhs))
    if not conds and not others:
        raise AnalysisBroken('was_pending_activation is no longer defined in bus_activation_activate_service')


def c19_3(ck, prog):
    r = ck.rule('C19.3', 'failure fan-out: an abnormal exit / timeout fails exactly the pending activations of '
                'that executable, each waiting sender gets one error inside one transaction, and the activation is '
                'removed; on success held messages re-enter policy-checked dispatch in order', 'TS',
                breaks='waiting callers of another service get a foreign error (or none)', floor=6)
    cb = prog.fn('pending_activation_finished_cb', A)

    def akey(atom, resolve):
        # strcmp (p->exec, pending_activation->exec) == 0   ==  not truthy(strcmp(..))
        if atom[0] == 'truthy' and is_call(atom[1], 'strcmp'):
            a = atom[1]['args']
            if {estr(a[0]), estr(a[1])} == {'p->exec', 'pending_activation->exec'}:
                return 'exec-differs'
        if atom[0] == 'cmp' and atom[1] == '==' and {estr(atom[2]), estr(atom[3])} == {'p', 'pending_activation'}:
            return 'same-activation'
        return None
    seen = {'sibling': 0, 'self': 0}

    def on_event(user, ev, ctx):
        if ev['ev'] == 'call' and ev['e'].get('callee') == 'pending_activation_failed':
            a0 = ev['e']['args'][0]
            if is_ref(a0, 'p'):
                seen['sibling'] += 1
                if ctx.atom('exec-differs') is not False:
                    ctx.report('another pending activation is failed although its executable is not known to be the '
                               'same as the failed one', ev['line'], key='foreign')
                if ctx.atom('same-activation') is not False:
                    ctx.report('the loop may fail the current activation twice', ev['line'], key='twice')
            elif is_ref(a0, 'pending_activation'):
                seen['self'] += 1
        return user
    ex = Explorer(cb, on_event=on_event, atom_key=akey, track='auto', cap=300000).run()
    if not seen['self'] or not seen['sibling']:
        raise AnalysisBroken('pending_activation_finished_cb: failure calls vanished')
    if ex.reports:
        r.from_reports(ex.reports, keyfn=lambda k, rep: 'finished_cb:%s' % k)
    else:
        r.ok('finished_cb:fails-same-exec-only')
    # every failure route funnels into pending_activation_failed
    for name in ('pending_activation_timed_out', 'pending_activation_finished_cb', 'dbus_activation_systemd_failure'):
        f = prog.fn(name, A)
        reach = prog.reachable_from([f.key])
        key = '%s->pending_activation_failed' % name
        if any(g.key in reach for g in prog.by_name.get('pending_activation_failed', [])) or \
                any(g.key in reach for g in prog.by_name.get('try_send_activation_failure', [])):
            r.ok(key)
        else:
            r.violation(key, name, A, f.line, '%s no longer reports the failure to the waiting senders' % name)
    pf = prog.fn('pending_activation_failed', A)
    if pf.calls('try_send_activation_failure') and pf.calls('_dbus_hash_table_remove_string'):
        r.ok('pending_activation_failed:send-then-remove')
    else:
        r.violation('pending_activation_failed:send-then-remove', pf.name, A, pf.line,
                    'pending_activation_failed no longer sends the errors and removes the activation')
    ts = prog.fn('try_send_activation_failure', A)
    # one transaction, all entries, first->next
    from rules.C06 import walk_direction
    f1, n1, b1 = walk_direction(ts)
    one_tx = len(ts.calls('bus_transaction_new')) == 1
    sends = [c for b, i, c in ts.calls('bus_transaction_send_error_reply')]
    ok_send = sends and all(is_member(c['args'][1], 'connection', 'BusPendingActivationEntry')
                            and is_member(c['args'][3], 'activation_message', 'BusPendingActivationEntry') for c in sends)
    if f1 == 1 and n1 and not b1 and one_tx and ok_send:
        r.ok('try_send_activation_failure:all-entries-one-transaction')
    else:
        r.violation('try_send_activation_failure:all-entries-one-transaction', ts.name, A, ts.line,
                    'the failure is no longer sent to every entry (first->next) of the activation in one transaction')
    send_ids = {c['id'] for c in sends}
    head, body, bad, on_transfer = lib.loop_exits_only_when(
        ts, r, 'fan-out', lambda blk: (blk.get('term') or {}).get('kind') in ('WhileStmt', 'ForStmt'),
        lambda ctx, frm: any(ctx.result_known(c) is False for c in send_ids), 'send failed')
    Explorer(ts, on_transfer=on_transfer, calls={'bus_transaction_send_error_reply'}, track='auto').run()
    if bad:
        for (frm, to), (line, path) in bad.items():
            r.violation('try_send_activation_failure:early-exit@%s' % frm, ts.name, A, line,
                        'the loop over the waiting senders is left although sending did not fail: the remaining '
                        'senders get no error', path)
    else:
        r.ok('try_send_activation_failure:every-entry-visited')
    # success path
    sp = prog.fn('bus_activation_send_pending_auto_activation_messages', A)
    f1, n1, b1 = walk_direction(sp)
    disp = [c for b, i, c in sp.calls('bus_dispatch_matches')]
    okd = disp and all(is_member(c['args'][3], 'activation_message', 'BusPendingActivationEntry')
                       and is_member(c['args'][1], 'connection', 'BusPendingActivationEntry') for c in disp)
    if f1 == 1 and n1 and not b1 and okd:
        r.ok('send_pending:in-order-through-dispatch')
    else:
        r.violation('send_pending:in-order-through-dispatch', sp.name, A, sp.line,
                    'held messages are no longer replayed first->next through bus_dispatch_matches')
    lib.must_precede(sp, r, only('_dbus_hash_table_remove_string'),
                     [lib.Guard('add_restore_pending_to_transaction', lambda c, ctx: c.get('callee') ==
                                'add_restore_pending_to_transaction')])
    # recipient of the replay is the new primary owner
    okr = any(is_ref(c['args'][2], 'addressed_recipient') for c in disp)
    defs = [rhs for b, i, ev in sp.events() for lhs, how, rhs in written_lvalues(ev)
            if is_ref(lhs, 'addressed_recipient') and rhs is not None]
    if okr and defs and all(is_call(d, 'bus_service_get_primary_owners_connection') for d in defs):
        r.ok('send_pending:recipient-is-new-owner')
    else:
        r.violation('send_pending:recipient-is-new-owner', sp.name, A, sp.line,
                    'the replayed messages are not addressed to the primary owner of the new service')


def c19_7(ck, prog, rid='C19.7'):
    r = ck.rule(rid, 'the connection remembered in a held auto-start request is used again only after it was found to '
                'be still connected (or absent, for requests that did not come from a connection): every call that '
                'is handed entry->connection lies behind dbus_connection_get_is_connected (entry->connection)', 'DOM',
                breaks='a requester that disconnected before the activation finished is sent the outcome: the bus '
                'dereferences the per-connection data that was freed at disconnect (assertion / NULL dereference)',
                floor=3)
    PASSIVE = {'dbus_connection_get_is_connected', 'dbus_connection_unref', 'dbus_connection_ref'}
    REC = 'BusPendingActivationEntry'
    n = 0
    for fn in lib.prod_funcs(prog, files={A}):
        sinks = [c for b, i, c in fn.calls() if c.get('callee') not in PASSIVE
                 and any(is_member(a, 'connection', REC) for a in c['args'])]
        if not sinks:
            continue
        sink_ids = {c['id'] for c in sinks}
        live = {c['id'] for b, i, c in fn.calls('dbus_connection_get_is_connected')
                if c['args'] and is_member(c['args'][0], 'connection', REC)}

        def akey(atom, resolve):
            if atom[0] == 'truthy' and is_member(atom[1], 'connection', REC):
                return 'has-connection'
            return None

        def on_event(user, ev, ctx, fn=fn, sink_ids=sink_ids, live=live):
            if ev['ev'] == 'call' and ev['e']['id'] in sink_ids:
                if any(ctx.result_known(i) is True for i in live) or ctx.atom('has-connection') is False:
                    return user
                ctx.report('%s is handed the remembered connection on a path where it was not found to be still '
                           'connected' % ev['e'].get('callee'), ev['line'], key=(ev['e'].get('callee'), ev['line']))
            return user
        ex = Explorer(fn, on_event=on_event, atom_key=akey, calls={'dbus_connection_get_is_connected'}, track='auto',
                      cap=600000).run()
        n += len(sinks)
        if ex.reports:
            r.from_reports(ex.reports, keyfn=lambda k, rep, fn=fn: '%s:%s@unchecked' % (fn.name, k[0]))
        else:
            for c in sinks:
                r.ok('%s:%s' % (fn.name, c.get('callee')))
    if n < 3:
        raise AnalysisBroken('uses of the remembered connection of held requests not found (%d)' % n)


def c19_8(ck, prog):
    r = ck.rule('C19.8', 'the activation helper\'s configuration parser interprets element text by the element that is '
                'open: every successful start of an element records that element\'s own type (from its name) before '
                'any text can arrive', 'TS',
                breaks='the text of an element the helper ignores (includedir, pidfile, listen ...) is read as the '
                'content of the last element it does read: a path outside every configured service directory becomes a '
                'service directory of the setuid helper', floor=1)
    T = 'bus/config-parser-trivial.c'
    fn = prog.fn('bus_config_parser_start_element', T)
    conv = {c['id'] for b, i, c in fn.calls('bus_config_parser_element_name_to_type')
            if c['args'] and is_ref(c['args'][0]) and c['args'][0].get('kind') == 'param'}
    if not conv:
        raise AnalysisBroken('start_element: element name is no longer converted to a type')

    def on_event(user, ev, ctx):
        for lhs, how, rhs in written_lvalues(ev):
            if is_member(lhs, 'type', 'BusConfigParser') and how == '=':
                o = ctx.origin_call(rhs) if rhs is not None else None
                return bool(o is not None and o[0] in conv and o[1] == 'result')
        return user

    def on_exit(user, ctx, ret, ev):
        if ctx.ret_status(ret) != 'fail' and not user:
            ctx.report('an element can start without the parser recording its type: its text would be read as the '
                       'content of an earlier element', ev['line'] if ev else fn.line, key='stale-type')
    locs = {lhs['name'] for b, i, ev in fn.events() for lhs, how, rhs in written_lvalues(ev)
            if is_ref(lhs) and rhs is not None and rhs.get('k') == 'call' and rhs.get('id') in conv}
    ex = Explorer(fn, init=False, on_event=on_event, on_exit=on_exit, track=locs or None,
                  calls={'bus_config_parser_element_name_to_type'}, cap=300000).run()
    if ex.reports:
        r.from_reports(ex.reports, keyfn=lambda k, rep: 'start_element:%s' % k)
    else:
        r.ok('start_element:type-recorded-on-every-path')


def c19_9(ck, prog):
    r = ck.rule('C19.9', 'an error about a held message is addressed to the connection that sent that message: wherever '
                'an error reply is built in reply to entry->activation_message, it is sent to entry->connection of the '
                'same entry', 'WHO',
                breaks='the sender whose held call was refused (or failed) hears nothing, and somebody else -- the '
                'newly started service -- receives an error reply to a call it never made', floor=2)
    REC = 'BusPendingActivationEntry'
    n = 0
    for fn in lib.prod_funcs(prog, files={A}):
        for b, i, c in fn.calls(('bus_transaction_send_error_reply', 'bus_connection_send_oom_error')):
            if c['callee'] == 'bus_transaction_send_error_reply':
                conn, msg = c['args'][1], c['args'][3]
            else:
                conn, msg = c['args'][0], c['args'][1]
            if not is_member(msg, 'activation_message', REC):
                continue
            n += 1
            key = '%s:%s@%d' % (fn.name, c['callee'], n)
            from engine.cfg import same_expr
            if is_member(conn, 'connection', REC) and same_expr(conn['base'], msg['base']):
                r.ok(key)
            else:
                r.violation('%s:%s-to-wrong-connection' % (fn.name, c['callee']), fn.name, A, c['line'],
                            'the error in reply to %s is sent to %s, not to the connection that sent that message' % (
                                estr(msg), estr(conn)))
    if n < 2:
        raise AnalysisBroken('error replies to held messages not found (%d)' % n)


def run(ck):
    ck.explanation = (
        'Static rules over bus/activation-helper.c and bus/activation.c: (DOM/WHO) execv is reachable only through '
        'run_launch_helper -> launch_bus_name -> exec_for_correct_user, and each step is dominated by the success '
        'edges of its checks (environment, bus-name syntax on the whole argument, configuration, bus user, service '
        'file, Name == requested name by a reviewed whole-string comparison, Exec, User, switch_user); (DOM) the '
        'spawn is unreachable when an activation of the name was already pending; (TS) a failed activation fails '
        'only pending activations with the same executable, every entry gets its error in one transaction, and '
        'held messages are replayed in list order through policy-checked dispatch to the new primary owner.')
    ck.not_decided = ('process behaviour and timing; exactly-once delivery over histories; service-file parsing '
                      '(desktop-file.c)')
    for v, prog in ck.programs(thorough_variants=('B',)):
        from rules import listops
        from rules.C10 import c10_12
        c10_12(ck, prog, 'C19.11')
        rq = ck.rule('C19.10', 'the public list operations do what their names say (dbus/dbus-list.c; abstract interpretation of their CFG over every circular list of 0..3 links with equal and distinct data, every link / anchor / data argument, with and without memory for a new link): resulting order, return value, freed and detached links agree with the specification of append, prepend, insert_after, remove (first match), remove_last / find_last (last match), remove_link, clear, get/pop first/last (link), get_length, length_is_one', 'ABS', breaks='held auto-start messages are delivered out of order or twice: the entries list is not walked in arrival order', floor=15)
        listops.check(prog, rq)
        c19_1(ck, prog)
        c19_2(ck, prog)
        c19_3(ck, prog)
        c19_7(ck, prog)
        c19_8(ck, prog)
        c19_9(ck, prog)
        r = ck.rule('C19.6', 'pending activations (and the messages they hold) survive everything but the end of the '
                    'bus: the table of pending activations and the activation object are created once and released '
                    'only by their destructors, never by a configuration reload', 'WHO',
                    breaks='a reload while a service is starting forgets the held messages: they are neither delivered '
                    'nor answered with an error', floor=3)
        lib.state_lifetime(prog, r, [('BusActivation', 'pending_activations'), ('BusContext', 'activation')])
